// Package cfgreplay replays derivation trees produced by spec/Config.tla against wazero's
// real configuration constructors and compares every node after every step (C19).
package cfgreplay

import (
	"bytes"
	"context"
	"encoding/json"
	"fmt"
	"io"
	"os"
	"path/filepath"
	"reflect"
	"sort"
	"strings"
	"sync"
	"time"
	"unsafe"

	"github.com/tetratelabs/wazero"
	"github.com/tetratelabs/wazero/api"
	"github.com/tetratelabs/wazero/experimental/sock"
	"github.com/tetratelabs/wazero/verifharness/common"
	"github.com/tetratelabs/wazero/verifharness/wb"
)

type method struct {
	Op     string   `json:"op"`
	K      string   `json:"k"`
	V      string   `json:"v"`
	Args   []string `json:"args"`
	Name   string   `json:"name"`
	Fns    []string `json:"fns"`
	FsNode int      `json:"fsnode"`
	ID     string   `json:"id"`
	Guest  string   `json:"guest"`
	Dir    string   `json:"dir"`
	F      string   `json:"f"`
	N      int      `json:"n"`
	B      bool     `json:"b"`
	Host   string   `json:"host"`
	Port   int      `json:"port"`
	Sock   bool     `json:"sock"`
}

type step struct {
	Parent int    `json:"parent"`
	M      method `json:"m"`
}

type behaviour struct {
	Hist  []step                   `json:"hist"`
	Nodes []map[string]interface{} `json:"nodes"`
}

// identity tokens -------------------------------------------------------------------------------

type tokens struct {
	writers  map[string]io.Writer
	readers  map[string]io.Reader
	wall     map[string]func() (int64, int32)
	nano     map[string]func() int64
	sleep    map[string]func(int64)
	yield    map[string]func()
	caches   map[string]wazero.CompilationCache
	dirs     map[string]string
	sysWall  uintptr
	sysNano  uintptr
	sysSleep uintptr
}

func w1wall() (int64, int32) { return 1, 1 }
func w2wall() (int64, int32) { return 2, 2 }
func w1nano() int64          { return 1 }
func w2nano() int64          { return 2 }
func w1sleep(int64)          {}
func w2sleep(ns int64)       { _ = ns + 1 }
func w1yield()               {}
func w2yield()               { _ = os.Getpid() }

func newTokens(base string) *tokens {
	t := &tokens{
		writers: map[string]io.Writer{"w1": &bytes.Buffer{}, "w2": &bytes.Buffer{}},
		readers: map[string]io.Reader{"w1": bytes.NewReader([]byte("1")), "w2": bytes.NewReader([]byte("2"))},
		wall:    map[string]func() (int64, int32){"w1": w1wall, "w2": w2wall},
		nano:    map[string]func() int64{"w1": w1nano, "w2": w2nano},
		sleep:   map[string]func(int64){"w1": w1sleep, "w2": w2sleep},
		yield:   map[string]func(){"w1": w1yield, "w2": w2yield},
		caches:  map[string]wazero.CompilationCache{"c1": wazero.NewCompilationCache(), "c2": wazero.NewCompilationCache()},
		dirs:    map[string]string{"d1": filepath.Join(base, "d1"), "d2": filepath.Join(base, "d2")},
	}
	for _, d := range t.dirs {
		_ = os.MkdirAll(d, 0o755)
	}
	t.sysWall = field(wazero.NewModuleConfig().WithSysWalltime(), "walltime").Pointer()
	t.sysNano = field(wazero.NewModuleConfig().WithSysNanotime(), "nanotime").Pointer()
	t.sysSleep = field(wazero.NewModuleConfig().WithSysNanosleep(), "nanosleep").Pointer()
	return t
}

// reflection helpers ------------------------------------------------------------------------------

// field returns the (possibly unexported) field of the struct behind an interface holding a pointer.
func field(x interface{}, name string) reflect.Value {
	v := reflect.ValueOf(x)
	for v.Kind() == reflect.Interface || v.Kind() == reflect.Ptr {
		v = v.Elem()
	}
	f := v.FieldByName(name)
	if !f.IsValid() {
		panic("no field " + name + " in " + v.Type().String())
	}
	if f.CanAddr() {
		return reflect.NewAt(f.Type(), unsafe.Pointer(f.UnsafeAddr())).Elem()
	}
	return f
}

func ifacePtr(v reflect.Value) uintptr {
	if v.Kind() == reflect.Interface {
		if v.IsNil() {
			return 0
		}
		v = v.Elem()
	}
	switch v.Kind() {
	case reflect.Ptr, reflect.Func, reflect.Map, reflect.Chan, reflect.UnsafePointer:
		return v.Pointer()
	}
	return 1
}

func strs(v reflect.Value) []interface{} {
	out := []interface{}{}
	for i := 0; i < v.Len(); i++ {
		e := v.Index(i)
		if e.Kind() == reflect.Slice {
			out = append(out, string(e.Bytes()))
		} else {
			out = append(out, e.String())
		}
	}
	return out
}

// real node state ---------------------------------------------------------------------------------

type world struct {
	tok   *tokens
	kinds []string
	real  []interface{}
	deep  []map[string]string // per-field %+v snapshot taken when the node was created
	bad   []bool              // node already reported as diverging from the model
}

func (w *world) add(kind string, x interface{}) {
	w.kinds = append(w.kinds, kind)
	w.real = append(w.real, x)
	w.deep = append(w.deep, deepSnap(x))
	w.bad = append(w.bad, false)
}

// deepSnap prints every field of the concrete struct (maps and slices by content, nested pointers,
// functions and interfaces by identity).
func deepSnap(x interface{}) map[string]string {
	v := reflect.ValueOf(x)
	for v.Kind() == reflect.Ptr || v.Kind() == reflect.Interface {
		v = v.Elem()
	}
	out := map[string]string{}
	for i := 0; i < v.NumField(); i++ {
		f := v.Field(i)
		if f.Kind() == reflect.Ptr && !f.IsNil() && f.Elem().Kind() == reflect.Struct {
			out[v.Type().Field(i).Name] = fmt.Sprintf("%p=%+v", unsafe.Pointer(f.Pointer()), f.Elem())
			continue
		}
		out[v.Type().Field(i).Name] = fmt.Sprintf("%+v", f)
	}
	return out
}

func deepDiff(a, b map[string]string) string {
	keys := make([]string, 0, len(a))
	for k := range a {
		keys = append(keys, k)
	}
	sort.Strings(keys)
	for _, k := range keys {
		if a[k] != b[k] {
			return k
		}
	}
	return ""
}

func tokenOf[T any](m map[string]T, p uintptr) string {
	if p == 0 {
		return ""
	}
	for k, v := range m {
		if ifacePtr(reflect.ValueOf(v)) == p {
			return k
		}
	}
	return fmt.Sprintf("?%x", p)
}

// project maps the real node to the abstract value of Config.tla.
func (w *world) project(i int) map[string]interface{} {
	x := w.real[i]
	switch w.kinds[i] {
	case "mc":
		env := []interface{}{}
		e := field(x, "environ")
		for j := 0; j+1 < e.Len(); j += 2 {
			env = append(env, []interface{}{string(e.Index(j).Bytes()), string(e.Index(j + 1).Bytes())})
		}
		fs := 0.0
		if p := ifacePtr(field(x, "fsConfig")); p != 0 {
			fs = -1
			for j, r := range w.real {
				if w.kinds[j] == "fs" && reflect.ValueOf(r).Pointer() == p {
					fs = float64(j + 1)
				}
			}
		}
		clock := func(name string, m interface{}, sys uintptr) string {
			p := ifacePtr(field(x, name))
			if p != 0 && p == sys {
				return "sys"
			}
			switch mm := m.(type) {
			case map[string]func() (int64, int32):
				return tokenOf(mm, p)
			case map[string]func() int64:
				return tokenOf(mm, p)
			case map[string]func(int64):
				return tokenOf(mm, p)
			case map[string]func():
				return tokenOf(mm, p)
			}
			return "?"
		}
		return map[string]interface{}{
			"kind": "mc", "name": field(x, "name").String(), "nameSet": field(x, "nameSet").Bool(),
			"args": strs(field(x, "args")), "env": env, "start": strs(field(x, "startFunctions")), "fs": fs,
			"stdin":     tokenOf(w.tok.readers, ifacePtr(field(x, "stdin"))),
			"stdout":    tokenOf(w.tok.writers, ifacePtr(field(x, "stdout"))),
			"stderr":    tokenOf(w.tok.writers, ifacePtr(field(x, "stderr"))),
			"rand":      tokenOf(w.tok.readers, ifacePtr(field(x, "randSource"))),
			"walltime":  clock("walltime", w.tok.wall, w.tok.sysWall),
			"nanotime":  clock("nanotime", w.tok.nano, w.tok.sysNano),
			"nanosleep": clock("nanosleep", w.tok.sleep, w.tok.sysSleep),
			"osyield":   clock("osyield", w.tok.yield, 0),
		}
	case "fs":
		ms := []interface{}{}
		fss, gps := field(x, "fs"), field(x, "guestPaths")
		idx := field(x, "guestPathToFS")
		clean := map[int]string{}
		for _, k := range idx.MapKeys() {
			clean[int(idx.MapIndex(k).Int())] = k.String()
		}
		for j := 0; j < fss.Len(); j++ {
			e := fss.Index(j)
			tn, desc := "nil", ""
			if !e.IsNil() {
				tn = e.Elem().Type().String()
				desc = fmt.Sprintf("%+v|%s", e.Elem(), fsString(e))
			}
			mode := "?" + tn
			switch {
			case strings.Contains(tn, "ReadFS"):
				mode = "WithReadOnlyDirMount"
			case strings.Contains(tn, "AdaptFS"):
				mode = "WithFSMount"
			case strings.Contains(tn, "dirFS"):
				mode = "WithDirMount"
			}
			dir := "?"
			for t, d := range w.tok.dirs {
				if strings.Contains(desc, d) {
					dir = t
				}
			}
			c, ok := clean[j]
			if !ok {
				c = "?missing"
			}
			gp := "?"
			if j < gps.Len() {
				gp = gps.Index(j).String()
			}
			ms = append(ms, map[string]interface{}{"clean": c, "guest": gp, "dir": dir, "mode": mode})
		}
		return map[string]interface{}{"kind": "fs", "mounts": ms}
	case "rc":
		feat := fmt.Sprintf("?%d", field(x, "enabledFeatures").Uint())
		switch api.CoreFeatures(field(x, "enabledFeatures").Uint()) {
		case api.CoreFeaturesV1:
			feat = "v1"
		case api.CoreFeaturesV2:
			feat = "v2"
		}
		return map[string]interface{}{
			"kind": "rc", "features": feat, "limit": float64(field(x, "memoryLimitPages").Uint()),
			"closeOnDone": field(x, "ensureTermination").Bool(), "capFromMax": field(x, "memoryCapacityFromMax").Bool(),
			"dwarfDisabled": field(x, "dwarfDisabled").Bool(), "customSections": field(x, "storeCustomSections").Bool(),
			"cache": tokenOf(w.tok.caches, ifacePtr(field(x, "cache"))),
		}
	case "sk":
		addrs := []interface{}{}
		c := field(x, "c").Elem().FieldByName("TCPAddresses")
		for j := 0; j < c.Len(); j++ {
			addrs = append(addrs, []interface{}{c.Index(j).FieldByName("Host").String(), float64(c.Index(j).FieldByName("Port").Int())})
		}
		return map[string]interface{}{"kind": "sk", "addrs": addrs}
	}
	panic("kind")
}

func fsString(e reflect.Value) string {
	defer func() { _ = recover() }()
	// follow one level of wrapping (ReadFS{FS}, AdaptFS{FS}) and print what is inside
	v := e.Elem()
	for v.Kind() == reflect.Ptr {
		v = v.Elem()
	}
	if v.Kind() == reflect.Struct {
		if f := v.FieldByName("FS"); f.IsValid() && !f.IsNil() {
			return fmt.Sprintf("%+v", f.Elem())
		}
	}
	return ""
}

// applying one method -----------------------------------------------------------------------------

func (w *world) apply(rt wazero.Runtime, compiled wazero.CompiledModule, s step) (kind string, res interface{}, detail string) {
	recv := w.real[s.Parent-1]
	m := s.M
	detail = m.Op
	switch m.Op {
	case "WithEnv":
		c := recv.(wazero.ModuleConfig)
		if _, ok := field(recv, "environKeys").Interface().(map[string]int)[m.K]; ok {
			detail = "WithEnv(existing)"
		} else {
			detail = "WithEnv(new)"
		}
		return "mc", c.WithEnv(m.K, m.V), detail
	case "WithArgs":
		return "mc", recv.(wazero.ModuleConfig).WithArgs(m.Args...), detail
	case "WithName":
		return "mc", recv.(wazero.ModuleConfig).WithName(m.Name), detail
	case "WithStartFunctions":
		return "mc", recv.(wazero.ModuleConfig).WithStartFunctions(m.Fns...), detail
	case "WithFSConfig":
		return "mc", recv.(wazero.ModuleConfig).WithFSConfig(w.real[m.FsNode-1].(wazero.FSConfig)), detail
	case "WithStdout":
		return "mc", recv.(wazero.ModuleConfig).WithStdout(w.tok.writers[m.ID]), detail
	case "WithStderr":
		return "mc", recv.(wazero.ModuleConfig).WithStderr(w.tok.writers[m.ID]), detail
	case "WithStdin":
		return "mc", recv.(wazero.ModuleConfig).WithStdin(w.tok.readers[m.ID]), detail
	case "WithRandSource":
		return "mc", recv.(wazero.ModuleConfig).WithRandSource(w.tok.readers[m.ID]), detail
	case "WithWalltime":
		return "mc", recv.(wazero.ModuleConfig).WithWalltime(w.tok.wall[m.ID], 1), detail
	case "WithNanotime":
		return "mc", recv.(wazero.ModuleConfig).WithNanotime(w.tok.nano[m.ID], 1), detail
	case "WithNanosleep":
		return "mc", recv.(wazero.ModuleConfig).WithNanosleep(w.tok.sleep[m.ID]), detail
	case "WithOsyield":
		return "mc", recv.(wazero.ModuleConfig).WithOsyield(w.tok.yield[m.ID]), detail
	case "WithSysWalltime":
		return "mc", recv.(wazero.ModuleConfig).WithSysWalltime(), detail
	case "WithSysNanotime":
		return "mc", recv.(wazero.ModuleConfig).WithSysNanotime(), detail
	case "WithSysNanosleep":
		return "mc", recv.(wazero.ModuleConfig).WithSysNanosleep(), detail
	case "Use":
		// instantiate with the configuration; a socket configuration travels in the context
		ctx, cancel := context.WithTimeout(context.Background(), 10*time.Second)
		defer cancel()
		if m.Sock {
			ctx = sock.WithConfig(ctx, sock.NewConfig().WithTCPListener("127.0.0.1", 0))
			detail = "Use+sock"
		}
		mod, err := rt.InstantiateModule(ctx, compiled, recv.(wazero.ModuleConfig))
		if err == nil {
			_ = mod.Close(ctx)
		}
		return "", nil, detail
	case "WithDirMount":
		return "fs", recv.(wazero.FSConfig).WithDirMount(w.tok.dirs[m.Dir], m.Guest), detail
	case "WithReadOnlyDirMount":
		return "fs", recv.(wazero.FSConfig).WithReadOnlyDirMount(w.tok.dirs[m.Dir], m.Guest), detail
	case "WithFSMount":
		return "fs", recv.(wazero.FSConfig).WithFSMount(os.DirFS(w.tok.dirs[m.Dir]), m.Guest), detail
	case "WithCoreFeatures":
		f := api.CoreFeaturesV2
		if m.F == "v1" {
			f = api.CoreFeaturesV1
		}
		return "rc", recv.(wazero.RuntimeConfig).WithCoreFeatures(f), detail
	case "WithMemoryLimitPages":
		return "rc", recv.(wazero.RuntimeConfig).WithMemoryLimitPages(uint32(m.N)), detail
	case "WithCloseOnContextDone":
		return "rc", recv.(wazero.RuntimeConfig).WithCloseOnContextDone(m.B), detail
	case "WithMemoryCapacityFromMax":
		return "rc", recv.(wazero.RuntimeConfig).WithMemoryCapacityFromMax(m.B), detail
	case "WithDebugInfoEnabled":
		return "rc", recv.(wazero.RuntimeConfig).WithDebugInfoEnabled(m.B), detail
	case "WithCustomSections":
		return "rc", recv.(wazero.RuntimeConfig).WithCustomSections(m.B), detail
	case "WithCompilationCache":
		return "rc", recv.(wazero.RuntimeConfig).WithCompilationCache(w.tok.caches[m.ID]), detail
	case "WithTCPListener":
		return "sk", recv.(sock.Config).WithTCPListener(m.Host, m.Port), detail
	}
	panic("unknown op " + m.Op)
}

func newRoot(kind string) interface{} {
	switch kind {
	case "mc":
		return wazero.NewModuleConfig()
	case "fs":
		return wazero.NewFSConfig()
	case "rc":
		return wazero.NewRuntimeConfigInterpreter()
	case "sk":
		return sock.NewConfig()
	}
	panic(kind)
}

func normalize(v interface{}) interface{} {
	b, _ := json.Marshal(v)
	var out interface{}
	_ = json.Unmarshal(b, &out)
	return out
}

func diffField(exp, got map[string]interface{}) string {
	keys := make([]string, 0, len(exp))
	for k := range exp {
		keys = append(keys, k)
	}
	sort.Strings(keys)
	for _, k := range keys {
		if !reflect.DeepEqual(normalize(exp[k]), normalize(got[k])) {
			return k
		}
	}
	return ""
}

// Replay runs one behaviour.
func (w *world) replay(id int, rt wazero.Runtime, compiled wazero.CompiledModule, b *behaviour) common.Result {
	res := common.Result{ID: id, OK: true}
	nonUse := 0
	for _, s := range b.Hist {
		if s.M.Op != "Use" {
			nonUse++
		}
	}
	nroots := len(b.Nodes) - nonUse
	for i := 0; i < nroots; i++ {
		w.add(b.Nodes[i]["kind"].(string), newRoot(b.Nodes[i]["kind"].(string)))
	}
	check := func(stepIdx int, s *step, detail string, newIdx int) {
		for i := range w.real {
			rel := "other"
			if s != nil && i == s.Parent-1 {
				rel = "receiver"
			} else if i == newIdx {
				rel = "new"
			} else if s != nil && s.M.Op == "WithFSConfig" && i == s.M.FsNode-1 {
				rel = "argument"
			}
			got := w.project(i)
			f := diffField(b.Nodes[i], got)
			if f != "" && !w.bad[i] {
				w.bad[i] = true
				res.Step = stepIdx
				res.AddFail(fmt.Sprintf("%s>%s#%s", detail, rel, f),
					fmt.Sprintf("after step %d (%s on node %d) node %d (%s) has %s=%v, the model says %v",
						stepIdx, detail, parentOf(s), i+1, rel, f, got[f], b.Nodes[i][f]))
			}
			if i != newIdx {
				now := deepSnap(w.real[i])
				if df := deepDiff(w.deep[i], now); df != "" {
					if f != "" { // already reported through the projection at this or an earlier step
						w.deep[i] = now
						continue
					}
					f := df
					res.Step = stepIdx
					res.AddFail(fmt.Sprintf("%s>%s#deep:%s", detail, rel, f),
						fmt.Sprintf("after step %d (%s on node %d) the concrete value of node %d (%s) changed in field %s: %.200s -> %.200s",
							stepIdx, detail, parentOf(s), i+1, rel, f, w.deep[i][f], now[f]))
					w.deep[i] = now // report each mutation once
				}
			}
		}
	}
	check(0, nil, "New", -1)
	for k := range b.Hist {
		s := &b.Hist[k]
		kind, x, detail := w.apply(rt, compiled, *s)
		newIdx := -1
		if x != nil {
			w.add(kind, x)
			newIdx = len(w.real) - 1
		}
		check(k+1, s, detail, newIdx)
	}
	return res
}

func parentOf(s *step) int {
	if s == nil {
		return 0
	}
	return s.Parent
}

// Main is `driver replay-config -in file`.
func Main(args []string) {
	lines, err := common.ReadLines(common.Arg(args, "-in", ""))
	if err != nil {
		common.Fatalf("read: %v", err)
	}
	base, _ := os.MkdirTemp(os.Getenv("VERIF_WORK"), "cfg")
	defer os.RemoveAll(base)
	ctx := context.Background()
	rt := wazero.NewRuntimeWithConfig(ctx, wazero.NewRuntimeConfigInterpreter())
	defer rt.Close(ctx)
	// the instantiated binary carries a module name in its name section
	named := wb.New()
	named.Name("binname")
	compiled, err := rt.CompileModule(ctx, named.Build())
	if err != nil {
		common.Fatalf("compile: %v", err)
	}
	tok := newTokens(base)
	for id, l := range lines {
		var b behaviour
		if err := json.Unmarshal(l, &b); err != nil {
			common.Fatalf("behaviour %d: %v", id, err)
		}
		w := &world{tok: tok}
		common.Emit(w.replay(id, rt, compiled, &b))
	}
	common.Flush()
}

// Concurrent derives from one shared parent in several goroutines (run under -race) and checks that
// the parent and every child have the model's value afterwards. Prints one Result.
func Concurrent(args []string) {
	res := common.Result{ID: 0, OK: true}
	base := wazero.NewModuleConfig().WithEnv("A", "1").WithEnv("B", "1").WithEnv("C", "1").WithArgs("x")
	fsbase := wazero.NewFSConfig().WithDirMount(os.TempDir(), "/")
	before := fmt.Sprint(deepSnap(base))
	fsbefore := fmt.Sprint(deepSnap(fsbase))
	var wg sync.WaitGroup
	const n = 8
	children := make([]wazero.ModuleConfig, n)
	for g := 0; g < n; g++ {
		wg.Add(1)
		go func(g int) {
			defer wg.Done()
			for it := 0; it < 200; it++ {
				c := base.WithEnv("A", fmt.Sprint(g)).WithEnv(fmt.Sprintf("K%d", g), fmt.Sprint(g)).WithArgs(fmt.Sprint(g)).WithName(fmt.Sprint(g))
				c = c.WithFSConfig(fsbase.WithDirMount(os.TempDir(), fmt.Sprintf("/m%d", g)).WithReadOnlyDirMount(os.TempDir(), "/"))
				children[g] = c
			}
		}(g)
	}
	wg.Wait()
	if fmt.Sprint(deepSnap(base)) != before {
		res.AddFail("concurrent>receiver#deep", "shared parent ModuleConfig changed under concurrent derivation")
	}
	if fmt.Sprint(deepSnap(fsbase)) != fsbefore {
		res.AddFail("concurrent>receiver#deep:fs", "shared parent FSConfig changed under concurrent derivation")
	}
	for g, c := range children {
		e := field(c, "environ")
		want := []string{"A", fmt.Sprint(g), "B", "1", "C", "1", fmt.Sprintf("K%d", g), fmt.Sprint(g)}
		got := []string{}
		for j := 0; j < e.Len(); j++ {
			got = append(got, string(e.Index(j).Bytes()))
		}
		if !reflect.DeepEqual(want, got) {
			res.AddFail("concurrent>new#env", fmt.Sprintf("child %d environ %v, expected %v", g, got, want))
		}
	}
	common.Emit(res)
	common.Flush()
}
