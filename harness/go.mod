module github.com/tetratelabs/wazero/verifharness

go 1.22.0

require github.com/tetratelabs/wazero v0.0.0

replace github.com/tetratelabs/wazero => /repo
