// driver: one binary, one sub-command per specification binding.
package main

import (
	"fmt"
	"os"

	"github.com/tetratelabs/wazero/verifharness/boundary"
	"github.com/tetratelabs/wazero/verifharness/cacheconf"
	"github.com/tetratelabs/wazero/verifharness/calls"
	"github.com/tetratelabs/wazero/verifharness/cfgreplay"
	"github.com/tetratelabs/wazero/verifharness/fcache"
	"github.com/tetratelabs/wazero/verifharness/isoreplay"
	"github.com/tetratelabs/wazero/verifharness/lifecycle"
	"github.com/tetratelabs/wazero/verifharness/linkreplay"
	"github.com/tetratelabs/wazero/verifharness/memacc"
	"github.com/tetratelabs/wazero/verifharness/memreplay"
	"github.com/tetratelabs/wazero/verifharness/numeric"
	"github.com/tetratelabs/wazero/verifharness/registry"
	"github.com/tetratelabs/wazero/verifharness/sysdef"
	"github.com/tetratelabs/wazero/verifharness/sysiso"
	"github.com/tetratelabs/wazero/verifharness/termination"
	"github.com/tetratelabs/wazero/verifharness/waitnotify"
	"github.com/tetratelabs/wazero/verifharness/wasifs"
	"github.com/tetratelabs/wazero/verifharness/wasisafe"
	"github.com/tetratelabs/wazero/verifharness/wexec"
)

var cmds = map[string]func([]string){
	"replay-config":         cfgreplay.Main,
	"concurrent-config":     cfgreplay.Concurrent,
	"replay-registry":       registry.Replay,
	"trace-registry":        registry.Trace,
	"gate-registry":         registry.Gate,
	"replay-memory":         memreplay.Main,
	"memory-concurrent":     memreplay.Concurrent,
	"replay-memacc":         memacc.Main,
	"memacc-child":          memacc.Child,
	"replay-link":           linkreplay.Main,
	"link-child":            linkreplay.Child,
	"replay-iso":            isoreplay.Main,
	"replay-calls":          calls.MainPlain,
	"calls-child":           calls.ChildPlain,
	"replay-calls-listen":   calls.MainListen,
	"calls-listen-child":    calls.ChildListen,
	"replay-wasifs":         wasifs.Main,
	"wasifs-readdir":        wasifs.Readdir,
	"replay-sysdef":         sysdef.Main,
	"sysdef-child":          sysdef.Child,
	"replay-wasisafe":       wasisafe.Main,
	"wasisafe-child":        wasisafe.Child,
	"trace-boundary":        boundary.Main,
	"run-termination":       termination.Main,
	"termination-child":     termination.Child,
	"run-cacheconf":         cacheconf.Main,
	"cacheconf-child":       cacheconf.Child,
	"replay-lifecycle":      lifecycle.Main,
	"lifecycle-child":       lifecycle.Child,
	"numeric-cases":         numeric.Cases,
	"numeric-check":         numeric.Check,
	"gate-waitnotify":       waitnotify.Gate,
	"trace-waitnotify":      waitnotify.Trace,
	"replay-sysiso":         sysiso.Main,
	"sysiso-child":          sysiso.Child,
	"wexec-shrink":          wexec.Shrink,
	"wexec-diff":            wexec.MainDiff,
	"wexec-diff-child":      wexec.ChildDiff,
	"wexec-compile":         wexec.MainCompile,
	"wexec-compile-child":   wexec.ChildCompile,
	"wexec-constexpr":       wexec.MainConstExpr,
	"wexec-constexpr-child": wexec.ChildConstExpr,
	"wexec-modindex":        wexec.MainModIndex,
	"wexec-modindex-child":  wexec.ChildModIndex,
	"fc-child":              fcache.Child,
	"fc-replay":             fcache.ReplayProc,
	"fc-gate":               fcache.ReplayGate,
	"fc-trunc":              fcache.Trunc,
	"fc-conc":               fcache.ConcurrentModules,
	"fc-det":                fcache.Determinism,
	"fc-points":             fcache.TracePoints,
}

func main() {
	if len(os.Args) < 2 || cmds[os.Args[1]] == nil {
		fmt.Fprintln(os.Stderr, "usage: driver <sub-command> [args]")
		for k := range cmds {
			fmt.Fprintln(os.Stderr, "  ", k)
		}
		os.Exit(3)
	}
	cmds[os.Args[1]](os.Args[2:])
}
