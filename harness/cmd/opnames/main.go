// opnames prints every instruction name wazero knows with its encoding: "<prefix-hex or -> <opcode-hex> <name>".
package main

import (
	"fmt"

	"github.com/tetratelabs/wazero/internal/wasm"
)

func main() {
	for op := 0; op < 256; op++ {
		if n := wasm.InstructionName(wasm.Opcode(op)); n != "" {
			fmt.Printf("- %02x %s\n", op, n)
		}
	}
	for op := 0; op < 256; op++ {
		if n := wasm.MiscInstructionName(wasm.OpcodeMisc(op)); n != "" {
			fmt.Printf("fc %02x %s\n", op, n)
		}
	}
	for op := 0; op < 256; op++ {
		if n := wasm.VectorInstructionName(wasm.OpcodeVec(op)); n != "" {
			fmt.Printf("fd %02x %s\n", op, n)
		}
	}
	for op := 0; op < 256; op++ {
		if n := wasm.AtomicInstructionName(wasm.OpcodeAtomic(op)); n != "" {
			fmt.Printf("fe %02x %s\n", op, n)
		}
	}
}
