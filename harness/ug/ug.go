// Package ug builds the "universal guest": a family of small hand-checked modules exporting one function per
// store-level operation of the specifications (Link.tla, Isolation.tla, Failures.tla, Listeners.tla).
package ug

import (
	"github.com/tetratelabs/wazero/internal/wasm"
	"github.com/tetratelabs/wazero/verifharness/wb"
)

// Limits of a memory or table declaration; Max < 0 means "no maximum".
type Limits struct {
	Min int `json:"min"`
	Max int `json:"max"`
}

func (l Limits) maxp() *uint32 {
	if l.Max < 0 {
		return nil
	}
	v := uint32(l.Max)
	return &v
}

// Shape selects which parts are defined, imported and exported.
type Shape struct {
	// Mem: "" none, "own" defined+exported as "mem", "imp" imported from env.mem
	Mem    string `json:"mem"`
	MemLim Limits `json:"memlim"`
	// Tab: "" none, "own" defined+exported as "tab", "imp" imported from env.tab
	Tab     string `json:"tab"`
	TabLim  Limits `json:"tablim"`
	TabType string `json:"tabtype"` // "funcref" (default) | "externref"
	// G: global g: "own" (mutable i32 = 1, exported), "imp" (from env.g with declared type/mutability)
	G      string `json:"g"`
	GType  string `json:"gtype"` // i32 | i64
	GMut   bool   `json:"gmut"`
	GAlias bool   `json:"galias"` // the mutable i32 global g is imported a second time under another index (export galias)
	// H: immutable i32 h: "own" (= 7, exported) or "imp" (env.h); K captures h: global k = global.get h
	H    string `json:"h"`
	HVal int    `json:"hval"` // value of an own h (default 7)
	K    bool   `json:"k"`
	// KMut: k is initialised from the imported MUTABLE global g instead (invalid by the wasm spec)
	KMut bool `json:"kmut"`
	// Inc: "own" defines+exports inc (g += 1, returns id*10+3); "imp" imports env.inc with IncSig
	Inc    string `json:"inc"`
	IncSig string `json:"incsig"` // "" = ()->i32 ; "i32" = (i32)->i32 (mismatch)
	// Host imports host.h0..h2 : (i32,i32)->i32 and exports callhost(k,a,b)
	Host bool `json:"host"`
	// active segments
	DataAt   []DataSeg `json:"data"`  // active data segments in order
	ElemAt   []ElemSeg `json:"elem"`  // active element segments in order
	Start    string    `json:"start"` // "" | "ok" | "trap" | "gset" (start sets g := 9)
	ID       int       `json:"id"`
	Priv     bool      `json:"priv"`     // a private (not exported) funcref table with pset(s, funcref), pcall(s); getref() returns ref.func f1
	FGImp    bool      `json:"fgimp"`    // imports the funcref global fg (from From / env); with Priv: gcall() = call_indirect through that reference
	FG       bool      `json:"fg"`       // funcref global fg = ref.func f1 and tsetfg(s): table.set s (global.get fg)
	TailCall bool      `json:"tailcall"` // export trcall (return_call_indirect); needs the tail-call feature    // identity baked into the module: f1 returns ID*10+1, f2 ID*10+2
	Passive  bool      `json:"passive"`
	// From: module name the "imp" parts are imported from (default "env"); Reexport: export them again under the same names,
	// so that another module can import them from this one; FuncLast: the function import comes after the other imports
	From     string `json:"from"`
	Reexport bool   `json:"reexport"`
	FuncLast bool   `json:"funclast"`
}

type DataSeg struct {
	Off   int    `json:"off"`   // constant offset, or -1: offset = global.get h
	Bytes string `json:"bytes"` // content
}

type ElemSeg struct {
	Off int   `json:"off"`
	Fns []int `json:"fns"` // 1 = f1, 2 = f2
}

// Build assembles the module. Exported operations (when the needed part exists):
//
//	setid(v) id()                       own identity global
//	gset(v) gget() kget()               global g (own or imported), captured k
//	st(a,v) ld(a) msize() mgrow(d)      memory
//	tset(s,k) tnull(s) tisnull(s) tcall(s) tsize() tgrow(d)   table (k: 1=f1 2=f2 of THIS instance)
//	callinc()                           call inc (own or imported)
//	minit(dst,src,n) ddrop() tinit(dst,src,n) edrop()         passive segments d0="abcd", e0=[f1,f2]
//	f1() f2()                           return id*10+1 / id*10+2
func Build(s Shape) []byte {
	m := wb.New()
	i32 := []wasm.ValueType{wb.I32}
	i32x2 := []wasm.ValueType{wb.I32, wb.I32}
	i32x3 := []wasm.ValueType{wb.I32, wb.I32, wb.I32}
	// ---- imports first
	from := s.From
	if from == "" {
		from = "env"
	}
	var incIdx uint32
	hasInc := false
	importInc := func() {
		if s.Inc == "imp" {
			if s.IncSig == "i32" {
				incIdx = m.ImportFunc(from, "inc", i32, i32)
			} else {
				incIdx = m.ImportFunc(from, "inc", nil, i32)
			}
			hasInc = true
			if s.Reexport {
				m.Export("inc", wasm.ExternTypeFunc, incIdx)
			}
		}
	}
	if !s.FuncLast {
		importInc()
	} else {
		m.TypeIndex([]wasm.ValueType{wb.I64, wb.F32}, nil) // so that type 0 is not the type of any import
	}
	var hostIdx [3]uint32
	if s.Host {
		for k := 0; k < 3; k++ {
			hostIdx[k] = m.ImportFunc("host", []string{"h0", "h1", "h2"}[k], i32x2, i32)
		}
	}
	if s.Mem == "imp" {
		m.ImportMemory(from, "mem", uint32(s.MemLim.Min), s.MemLim.maxp())
		if s.Reexport {
			m.Export("mem", wasm.ExternTypeMemory, 0)
		}
	}
	tabType := wasm.RefTypeFuncref
	if s.TabType == "externref" {
		tabType = wasm.RefTypeExternref
	}
	if s.Tab == "imp" {
		m.ImportTable(from, "tab", tabType, uint32(s.TabLim.Min), s.TabLim.maxp())
		if s.Reexport {
			m.Export("tab", wasm.ExternTypeTable, 0)
		}
	}
	var gIdx, hIdx uint32
	gType := wb.I32
	if s.GType == "i64" {
		gType = wb.I64
	}
	if s.G == "imp" {
		gIdx = m.ImportGlobal(from, "g", gType, s.GMut)
		if s.Reexport {
			m.Export("g", wasm.ExternTypeGlobal, gIdx)
		}
	}
	var g2Idx uint32
	if s.G == "imp" && s.GAlias {
		g2Idx = m.ImportGlobal(from, "g", gType, s.GMut)
	}
	var fgImp uint32
	if s.FGImp {
		fgImp = m.ImportGlobal(from, "fg", wasm.ValueTypeFuncref, false)
	}
	if s.H == "imp" {
		hIdx = m.ImportGlobal(from, "h", wb.I32, false)
		if s.Reexport {
			m.Export("h", wasm.ExternTypeGlobal, hIdx)
		}
	}
	if s.FuncLast {
		importInc()
	}
	// ---- definitions
	if s.Mem == "own" {
		m.Memory(uint32(s.MemLim.Min), s.MemLim.maxp(), "mem")
	}
	if s.Tab == "own" {
		m.Table(tabType, uint32(s.TabLim.Min), s.TabLim.maxp(), "tab")
	}
	if s.G == "own" {
		gIdx = m.Global(wb.I32, true, wb.ConstI32(1), "g")
	}
	if s.H == "own" {
		hv := int32(7)
		if s.HVal != 0 {
			hv = int32(s.HVal)
		}
		hIdx = m.Global(wb.I32, false, wb.ConstI32(hv), "h")
	}
	var kIdx uint32
	if s.K {
		if s.KMut {
			kIdx = m.Global(gType, false, wb.ConstGlobalGet(gIdx), "")
		} else {
			kIdx = m.Global(wb.I32, false, wb.ConstGlobalGet(hIdx), "")
		}
	}
	idIdx := m.Global(wb.I32, true, wb.ConstI32(int32(s.ID)), "")
	hasMem := s.Mem != ""
	hasTab := s.Tab != "" && s.TabType != "externref"
	hasG := s.G != "" && gType == wb.I32 && (s.G == "own" || s.GMut)
	hasGRead := s.G != "" && gType == wb.I32

	add := func(name string, p, r []wasm.ValueType, body []byte) uint32 {
		return m.AddFunc(wb.Func{Params: p, Results: r, Body: body, Export: name})
	}
	f1 := add("f1", nil, i32, wb.Cat(wb.GlobalGet(idIdx), wb.I32Const(10), wasm.OpcodeI32Mul, wb.I32Const(1), wasm.OpcodeI32Add))
	f2 := add("f2", nil, i32, wb.Cat(wb.GlobalGet(idIdx), wb.I32Const(10), wasm.OpcodeI32Mul, wb.I32Const(2), wasm.OpcodeI32Add))
	add("setid", i32, nil, wb.Cat(wb.LocalGet(0), wb.GlobalSet(idIdx)))
	add("id", nil, i32, wb.GlobalGet(idIdx))
	if hasG {
		add("gset", i32, nil, wb.Cat(wb.LocalGet(0), wb.GlobalSet(gIdx)))
	}
	if hasGRead {
		add("gget", nil, i32, wb.GlobalGet(gIdx))
	}
	if s.G == "imp" && s.GAlias && hasG {
		// galias(v): read g through the second import, write it through the first, read through the second again, in ONE function
		add("galias", i32, i32, wb.Cat(wb.GlobalGet(g2Idx), wb.I32Const(1000), wasm.OpcodeI32Mul, wb.LocalGet(0), wb.GlobalSet(gIdx), wb.GlobalGet(g2Idx), wasm.OpcodeI32Add))
	}
	if s.K && !(s.KMut && gType != wb.I32) {
		add("kget", nil, i32, wb.GlobalGet(kIdx))
	}
	if s.Inc == "own" && hasG {
		incIdx = add("inc", nil, i32, wb.Cat(wb.GlobalGet(gIdx), wb.I32Const(1), wasm.OpcodeI32Add, wb.GlobalSet(gIdx),
			wb.GlobalGet(idIdx), wb.I32Const(10), wasm.OpcodeI32Mul, wb.I32Const(3), wasm.OpcodeI32Add))
		hasInc = true
	}
	if hasInc {
		if s.IncSig == "i32" {
			add("callinc", nil, i32, wb.Cat(wb.I32Const(0), wb.Call(incIdx)))
		} else {
			add("callinc", nil, i32, wb.Call(incIdx))
		}
	}
	if hasMem {
		add("st", i32x2, nil, wb.Cat(wb.LocalGet(0), wb.LocalGet(1), wasm.OpcodeI32Store8, wb.MemArg(0, 0)))
		add("ld", i32, i32, wb.Cat(wb.LocalGet(0), wasm.OpcodeI32Load8U, wb.MemArg(0, 0)))
		add("msize", nil, i32, wb.Cat(wasm.OpcodeMemorySize, 0))
		add("mgrow", i32, i32, wb.Cat(wb.LocalGet(0), wasm.OpcodeMemoryGrow, 0))
	}
	tRet := m.TypeIndex(nil, i32)
	if hasTab {
		// f3: executes ref.func + table.set in its defining instance: table[0] := f1 ; returns id*10+3
		f3 := add("f3", nil, i32, wb.Cat(wb.I32Const(0), wasm.OpcodeRefFunc, wb.U32(f1), wasm.OpcodeTableSet, wb.U32(0),
			wb.GlobalGet(idIdx), wb.I32Const(10), wasm.OpcodeI32Mul, wb.I32Const(3), wasm.OpcodeI32Add))
		// tset(s,k): k=1 -> f1, k=3 -> f3, else f2
		add("tset", i32x2, nil, wb.Cat(wb.LocalGet(0),
			wb.LocalGet(1), wb.I32Const(1), wasm.OpcodeI32Eq, wasm.OpcodeIf, wasm.ValueTypeFuncref,
			wasm.OpcodeRefFunc, wb.U32(f1), wasm.OpcodeElse,
			wb.LocalGet(1), wb.I32Const(3), wasm.OpcodeI32Eq, wasm.OpcodeIf, wasm.ValueTypeFuncref,
			wasm.OpcodeRefFunc, wb.U32(f3), wasm.OpcodeElse, wasm.OpcodeRefFunc, wb.U32(f2), wasm.OpcodeEnd,
			wasm.OpcodeEnd,
			wasm.OpcodeTableSet, wb.U32(0)))
		if s.FG {
			fg := m.Global(wasm.ValueTypeFuncref, false, wb.ConstRefFunc(f1), "fg")
			add("tsetfg", i32, nil, wb.Cat(wb.LocalGet(0), wb.GlobalGet(fg), wasm.OpcodeTableSet, wb.U32(0)))
		}
		if s.TailCall {
			add("trcall", i32, i32, wb.Cat(wb.LocalGet(0), wasm.OpcodeTailCallReturnCallIndirect, wb.U32(tRet), wb.U32(0)))
		}
		m.Elem(wasm.ElementSegment{Mode: wasm.ElementModeDeclarative, Type: wasm.RefTypeFuncref, Init: []wasm.Index{f3}})
		add("tnull", i32, nil, wb.Cat(wb.LocalGet(0), wasm.OpcodeRefNull, wasm.RefTypeFuncref, wasm.OpcodeTableSet, wb.U32(0)))
		add("tisnull", i32, i32, wb.Cat(wb.LocalGet(0), wasm.OpcodeTableGet, wb.U32(0), wasm.OpcodeRefIsNull))
		add("tcall", i32, i32, wb.Cat(wb.LocalGet(0), wb.CallIndirect(tRet, 0)))
		add("tsize", nil, i32, wb.Cat(wasm.OpcodeMiscPrefix, wasm.OpcodeMiscTableSize, wb.U32(0)))
		add("tgrow", i32, i32, wb.Cat(wasm.OpcodeRefNull, wasm.RefTypeFuncref, wb.LocalGet(0), wasm.OpcodeMiscPrefix, wasm.OpcodeMiscTableGrow, wb.U32(0)))
		// declarative element segment so that ref.func f1/f2 is allowed
		m.Elem(wasm.ElementSegment{Mode: wasm.ElementModeDeclarative, Type: wasm.RefTypeFuncref, Init: []wasm.Index{f1, f2}})
	}
	if s.Priv {
		pt := m.Table(wasm.RefTypeFuncref, 4, nil, "")
		add("pset", []wasm.ValueType{wb.I32, wasm.ValueTypeFuncref}, nil, wb.Cat(wb.LocalGet(0), wb.LocalGet(1), wasm.OpcodeTableSet, wb.U32(pt)))
		add("pcall", i32, i32, wb.Cat(wb.LocalGet(0), wb.CallIndirect(tRet, pt)))
		if s.FGImp { // the only thing this instance holds of the exporter is the reference in the imported global
			add("gcall", nil, i32, wb.Cat(wb.I32Const(3), wb.GlobalGet(fgImp), wasm.OpcodeTableSet, wb.U32(pt), wb.I32Const(3), wb.CallIndirect(tRet, pt)))
		}
	}
	add("getref", nil, []wasm.ValueType{wasm.ValueTypeFuncref}, wb.Cat(wasm.OpcodeRefFunc, wb.U32(f1)))
	if !hasTab {
		m.Elem(wasm.ElementSegment{Mode: wasm.ElementModeDeclarative, Type: wasm.RefTypeFuncref, Init: []wasm.Index{f1}})
	}
	if s.Host {
		// callhost(k,a,b) -> h_k(a,b)
		body := wb.Cat(
			wasm.OpcodeBlock, 0x40, wasm.OpcodeBlock, 0x40, wasm.OpcodeBlock, 0x40,
			wb.LocalGet(0), wasm.OpcodeBrTable, wb.U32(2), wb.U32(0), wb.U32(1), wb.U32(2),
			wasm.OpcodeEnd, wb.LocalGet(1), wb.LocalGet(2), wb.Call(hostIdx[0]), wasm.OpcodeReturn,
			wasm.OpcodeEnd, wb.LocalGet(1), wb.LocalGet(2), wb.Call(hostIdx[1]), wasm.OpcodeReturn,
			wasm.OpcodeEnd, wb.LocalGet(1), wb.LocalGet(2), wb.Call(hostIdx[2]))
		add("callhost", i32x3, i32, body)
	}
	// passive segments
	if s.Passive {
		if hasMem {
			m.Data(wasm.DataSegment{Passive: true, Init: []byte("abcd")})
			di := uint32(len(m.M.DataSection) - 1)
			add("minit", i32x3, nil, wb.Cat(wb.LocalGet(0), wb.LocalGet(1), wb.LocalGet(2), wasm.OpcodeMiscPrefix, wasm.OpcodeMiscMemoryInit, wb.U32(di), 0))
			add("ddrop", nil, nil, wb.Cat(wasm.OpcodeMiscPrefix, wasm.OpcodeMiscDataDrop, wb.U32(di)))
		}
		if hasTab {
			m.Elem(wasm.ElementSegment{Mode: wasm.ElementModePassive, Type: wasm.RefTypeFuncref, Init: []wasm.Index{f1, f2}})
			ei := uint32(len(m.M.ElementSection) - 1)
			add("tinit", i32x3, nil, wb.Cat(wb.LocalGet(0), wb.LocalGet(1), wb.LocalGet(2), wasm.OpcodeMiscPrefix, wasm.OpcodeMiscTableInit, wb.U32(ei), wb.U32(0)))
			add("edrop", nil, nil, wb.Cat(wasm.OpcodeMiscPrefix, wasm.OpcodeMiscElemDrop, wb.U32(ei)))
		}
	}
	// active segments
	for _, d := range s.DataAt {
		off := wb.ConstI32(int32(d.Off))
		if d.Off < 0 {
			off = wb.ConstGlobalGet(hIdx)
		}
		m.Data(wasm.DataSegment{OffsetExpression: off, Init: []byte(d.Bytes)})
	}
	for _, e := range s.ElemAt {
		var init []wasm.Index
		for _, k := range e.Fns {
			if k == 1 {
				init = append(init, f1)
			} else {
				init = append(init, f2)
			}
		}
		m.Elem(wasm.ElementSegment{Mode: wasm.ElementModeActive, Type: wasm.RefTypeFuncref, OffsetExpr: wb.ConstI32(int32(e.Off)), Init: init})
	}
	switch s.Start {
	case "ok":
		m.Start(add("", nil, nil, nil))
	case "trap":
		m.Start(add("", nil, nil, []byte{wasm.OpcodeUnreachable}))
	case "gset":
		m.Start(add("", nil, nil, wb.Cat(wb.I32Const(9), wb.GlobalSet(gIdx))))
	}
	return m.Build()
}
