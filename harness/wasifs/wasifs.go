// Package wasifs replays histories of spec/WasiFS.tla through real WASI calls on a mounted directory (C16, C17).
package wasifs

import (
	"context"
	"crypto/sha256"
	"encoding/json"
	"fmt"
	"math/rand"
	"os"
	"path/filepath"
	"sort"
	"strings"
	"sync"
	"time"

	"github.com/tetratelabs/wazero"
	"github.com/tetratelabs/wazero/verifharness/common"
	"github.com/tetratelabs/wazero/verifharness/wasix"
)

type op struct {
	Op    string   `json:"op"`
	Fd    int      `json:"fd"`
	Name  string   `json:"name"`
	Name2 string   `json:"name2"`
	Of    []string `json:"of"`
	Ap    bool     `json:"ap"`
	Rt    string   `json:"rt"`
	N     int      `json:"n"`
	Off   int      `json:"off"`
	Data  []int    `json:"data"`
}

type snap struct {
	Tree    map[string]string `json:"tree"`
	Content map[string][]int  `json:"content"`
	Fds     map[string]string `json:"fds"`
	Offs    map[string]int    `json:"offs"`
}

type step struct {
	Op   op                `json:"op"`
	Errs []string          `json:"errs"`
	Out  []json.RawMessage `json:"out"`
	St   snap              `json:"st"`
}

type behaviour struct {
	Hist  []step `json:"hist"`
	Mount string `json:"mount"` // "rw" | "ro-dir" | "ro-fs"
}

const (
	pPath  = 1024
	pPath2 = 1280
	pIov   = 2048
	pBuf   = 4096
	pRes   = 8192
)

func hostSnapshot(dir string) string {
	var lines []string
	_ = filepath.Walk(dir, func(p string, info os.FileInfo, err error) error {
		if err != nil {
			return nil
		}
		rel, _ := filepath.Rel(dir, p)
		if info.IsDir() {
			lines = append(lines, fmt.Sprintf("%s dir %d", rel, info.ModTime().UnixNano()))
			return nil
		}
		b, _ := os.ReadFile(p)
		lines = append(lines, fmt.Sprintf("%s file %d %x %d", rel, info.Size(), sha256.Sum256(b), info.ModTime().UnixNano()))
		return nil
	})
	sort.Strings(lines)
	return strings.Join(lines, "\n")
}

func opName(o *op) string {
	s := o.Op
	if o.Op == "open" {
		f := append([]string{}, o.Of...)
		sort.Strings(f)
		s += "[" + strings.Join(f, "") + "]"
		if o.Ap {
			s += "+append"
		}
		s += ":" + o.Rt
	}
	return s
}

func replayOne(id int, b *behaviour, engine string, base string) common.Result {
	res := common.Result{ID: id, OK: true}
	ctx := context.Background()
	dir, _ := os.MkdirTemp(base, "fs")
	defer os.RemoveAll(dir)
	_ = os.WriteFile(filepath.Join(dir, "a"), []byte{104, 105, 33}, 0o644)
	_ = os.Mkdir(filepath.Join(dir, "d"), 0o755)
	fsc := wazero.NewFSConfig()
	switch b.Mount {
	case "ro-dir":
		fsc = fsc.WithReadOnlyDirMount(dir, "/")
	case "ro-fs":
		fsc = fsc.WithFSMount(os.DirFS(dir), "/")
	default:
		fsc = fsc.WithDirMount(dir, "/")
	}
	if b.Mount != "rw" {
		// the read-only directory also holds a dangling symbolic link (creating through it would create its target), and
		// a WRITABLE re-mount of the same guest path is derived from the read-only configuration and thrown away: what was
		// configured read-only stays read-only
		_ = os.Symlink("t", filepath.Join(dir, "l"))
		_ = fsc.WithDirMount(dir, "/")
	}
	before := hostSnapshot(dir)
	env, err := wasix.New(ctx, engine, wazero.NewModuleConfig().WithFSConfig(fsc))
	if err != nil {
		res.AddFail("infra:env", err.Error())
		return res
	}
	defer env.Close()
	prev := ""
	for k := range b.Hist {
		s := &b.Hist[k]
		o := &s.Op
		fail := func(what, msg string) {
			res.Step = k + 1
			res.AddFail(fmt.Sprintf("mount=%s;%s%s#%s", b.Mount, prev, opName(o), what), fmt.Sprintf("%s/%s step %d %s(fd=%d name=%s n=%d off=%d): %s", engine, b.Mount, k+1, opName(o), o.Fd, o.Name, o.N, o.Off, msg))
		}
		var errno uint32
		var cerr error
		var outInts []int
		var outStr string
		switch o.Op {
		case "open":
			p, l := env.PutString(pPath, o.Name)
			var of, fdflags, rights uint64
			for _, f := range o.Of {
				of |= map[string]uint64{"C": 1, "D": 2, "X": 4, "T": 8}[f]
			}
			if o.Ap {
				fdflags = 1
			}
			if strings.Contains(o.Rt, "r") {
				rights |= 1 << 1
			}
			if strings.Contains(o.Rt, "w") {
				rights |= 1 << 6
			}
			errno, cerr = env.Call("path_open", 3, 0, p, l, of, rights, 0, fdflags, pRes)
			outInts = []int{int(env.U32(pRes))}
		case "close":
			errno, cerr = env.Call("fd_close", uint64(o.Fd))
		case "renumber":
			errno, cerr = env.Call("fd_renumber", uint64(o.Fd), uint64(o.N))
		case "write", "pwrite":
			bs := make([]byte, len(o.Data))
			for i, v := range o.Data {
				bs[i] = byte(v)
			}
			env.Mem.Write(pBuf, bs)
			env.Iovec(pIov, pBuf, uint32(len(bs)))
			if o.Op == "write" {
				errno, cerr = env.Call("fd_write", uint64(o.Fd), pIov, 1, pRes)
			} else {
				errno, cerr = env.Call("fd_pwrite", uint64(o.Fd), pIov, 1, uint64(o.Off), pRes)
			}
			outInts = []int{int(env.U32(pRes))}
		case "read", "pread":
			env.Iovec(pIov, pBuf, uint32(o.N))
			if o.Op == "read" {
				errno, cerr = env.Call("fd_read", uint64(o.Fd), pIov, 1, pRes)
			} else {
				errno, cerr = env.Call("fd_pread", uint64(o.Fd), pIov, 1, uint64(o.Off), pRes)
			}
			n := env.U32(pRes)
			bs, _ := env.Mem.Read(pBuf, n)
			for _, v := range bs {
				outInts = append(outInts, int(v))
			}
		case "seek":
			errno, cerr = env.Call("fd_seek", uint64(o.Fd), uint64(int64(o.Off)), uint64(o.N), pRes)
			outInts = []int{int(env.U64(pRes))}
		case "setsize":
			errno, cerr = env.Call("fd_filestat_set_size", uint64(o.Fd), uint64(o.N))
		case "fdsize", "pathsize":
			if o.Op == "fdsize" {
				errno, cerr = env.Call("fd_filestat_get", uint64(o.Fd), pRes)
			} else {
				p, l := env.PutString(pPath, o.Name)
				errno, cerr = env.Call("path_filestat_get", 3, 0, p, l, pRes)
			}
			ft, _ := env.Mem.ReadByte(pRes + 16)
			if ft == 3 {
				outStr = "dir"
			} else {
				outInts = []int{int(env.U64(pRes + 32))}
			}
		case "settimes":
			// fst_flags: ATIM_NOW | MTIM_NOW = 2 | 8
			errno, cerr = env.Call("fd_filestat_set_times", uint64(o.Fd), 0, 0, 2|8)
			time.Sleep(2 * time.Millisecond)
		case "pathtimes":
			p, l := env.PutString(pPath, o.Name)
			errno, cerr = env.Call("path_filestat_set_times", 3, 0, p, l, 12345, 67890, 1|4)
		case "setappend":
			errno, cerr = env.Call("fd_fdstat_set_flags", uint64(o.Fd), 1)
		case "unlink":
			p, l := env.PutString(pPath, o.Name)
			errno, cerr = env.Call("path_unlink_file", 3, p, l)
		case "rename":
			p, l := env.PutString(pPath, o.Name)
			p2, l2 := env.PutString(pPath2, o.Name2)
			errno, cerr = env.Call("path_rename", 3, p, l, 3, p2, l2)
		case "mkdir":
			p, l := env.PutString(pPath, o.Name)
			errno, cerr = env.Call("path_create_directory", 3, p, l)
		case "rmdir":
			p, l := env.PutString(pPath, o.Name)
			errno, cerr = env.Call("path_remove_directory", 3, p, l)
		}
		if cerr != nil {
			fail("call-error", cerr.Error())
			return res
		}
		got := "ok"
		if errno != 0 {
			got = wasix.Errno(errno)
		}
		if b.Mount != "rw" {
			// read-only mounts: whether a call fails or succeeds without effect is not prescribed; the invariant is
			// that the host directory never changes (checked after every step) and that reading keeps working
			if now := hostSnapshot(dir); now != before {
				fail("host-tree-changed", fmt.Sprintf("returned %s and the read-only mounted directory changed:\nbefore:\n%s\nafter:\n%s", got, before, now))
				return res
			}
			if k == len(b.Hist)-1 {
				// at the end of every history: creating through the dangling link (path_open with O_CREAT, following links)
				for _, of := range []uint64{1, 1 | 8, 1 | 4} {
					p, l := env.PutString(pPath, "l")
					e, _ := env.Call("path_open", 3, 1, p, l, of, 1<<1, 0, 0, pRes) // rights: read only
					if now := hostSnapshot(dir); now != before {
						fail("host-tree-changed:via-dangling-link", fmt.Sprintf("path_open(l -> t, oflags=%d, follow) returned %s and the read-only mounted directory changed:\nbefore:\n%s\nafter:\n%s", of, wasix.Errno(e), before, now))
						return res
					}
				}
			}
			prev = opName(o) + ";"
			continue
		}
		allowed := false
		wantOK := false
		for _, e := range s.Errs {
			allowed = allowed || e == got
			wantOK = wantOK || e == "ok"
		}
		if !allowed {
			fail("errno="+got, fmt.Sprintf("returned %s, the model allows %v", got, s.Errs))
			return res
		}
		if got == "ok" && wantOK {
			// outputs
			var want []interface{}
			for _, r := range s.Out {
				var v interface{}
				_ = json.Unmarshal(r, &v)
				want = append(want, v)
			}
			switch o.Op {
			case "open", "write", "pwrite", "seek", "fdsize", "pathsize", "read", "pread":
				ok := true
				if len(want) == 1 {
					if sv, isStr := want[0].(string); isStr {
						ok = sv == outStr
					} else {
						ok = len(outInts) == 1 && float64(outInts[0]) == want[0].(float64)
					}
				} else {
					ok = len(outInts) == len(want)
					for i := range want {
						ok = ok && i < len(outInts) && float64(outInts[i]) == want[i].(float64)
					}
				}
				if !ok {
					fail("output", fmt.Sprintf("outputs %v %q, the model says %v", outInts, outStr, want))
					return res
				}
			}
		}
		// state: host tree, descriptor table, offsets
		for name, kind := range s.St.Tree {
			fi, err := os.Lstat(filepath.Join(dir, name))
			gk := "absent"
			if err == nil {
				gk = "file"
				if fi.IsDir() {
					gk = "dir"
				}
			}
			if gk != kind {
				fail("tree:"+kind+"->"+gk, fmt.Sprintf("host entry %q is %s, the model says %s", name, gk, kind))
			}
			if kind == "file" && gk == "file" {
				bs, _ := os.ReadFile(filepath.Join(dir, name))
				want := s.St.Content[name]
				same := len(bs) == len(want)
				for i := range want {
					same = same && i < len(bs) && int(bs[i]) == want[i]
				}
				if !same {
					fail("content", fmt.Sprintf("host file %q holds %v, the model says %v", name, bs, want))
				}
			}
		}
		for fdk, kind := range s.St.Fds {
			var fd uint64
			fmt.Sscan(fdk, &fd)
			i := fdk
			e, err := env.Call("fd_fdstat_get", fd, pRes)
			gk := "closed"
			if err == nil && e == 0 {
				ft, _ := env.Mem.ReadByte(pRes)
				gk = "file"
				if ft == 3 {
					gk = "dir"
				}
			}
			if gk != kind {
				fail("fdtable:"+kind+"->"+gk, fmt.Sprintf("descriptor %d is %s, the model says %s", fd, gk, kind))
			}
			if kind == "file" && gk == "file" {
				e, err := env.Call("fd_tell", fd, pRes)
				if err != nil || e != 0 || int(env.U64(pRes)) != s.St.Offs[i] {
					fail("offset", fmt.Sprintf("descriptor %d is at offset %d (errno %s), the model says %d", fd, env.U64(pRes), wasix.Errno(e), s.St.Offs[i]))
				}
			}
		}
		if b.Mount != "rw" {
			if now := hostSnapshot(dir); now != before {
				fail("host-tree-changed", fmt.Sprintf("the read-only mounted directory changed:\nbefore:\n%s\nafter:\n%s", before, now))
			}
		}
		if !res.OK {
			return res
		}
		prev = opName(o) + ";"
	}
	if b.Mount != "rw" {
		// reading through the same mount still works and returns the original data
		p, l := env.PutString(pPath, "a")
		e, err := env.Call("path_open", 3, 0, p, l, 0, 1<<1, 0, 0, pRes)
		fd := uint64(env.U32(pRes))
		env.Iovec(pIov, pBuf, 8)
		e2, err2 := env.Call("fd_read", fd, pIov, 1, pRes)
		bs, _ := env.Mem.Read(pBuf, env.U32(pRes))
		if err != nil || err2 != nil || e != 0 || e2 != 0 || string(bs) != "hi!" {
			res.AddFail("mount="+b.Mount+";reading-stopped-working", fmt.Sprintf("%s/%s: after the history, open+read of /a gives errno %s/%s data %q (%v %v)", engine, b.Mount, wasix.Errno(e), wasix.Errno(e2), bs, err, err2))
		}
	}
	return res
}

// Main is `driver replay-wasifs -in file`.
func Main(args []string) {
	lines, err := common.ReadLines(common.Arg(args, "-in", ""))
	if err != nil {
		common.Fatalf("read: %v", err)
	}
	base, _ := os.MkdirTemp(os.Getenv("VERIF_WORK"), "wfs")
	defer os.RemoveAll(base)
	results := make([]common.Result, len(lines))
	var wg sync.WaitGroup
	sem := make(chan struct{}, 12)
	for id, l := range lines {
		wg.Add(1)
		sem <- struct{}{}
		go func(id int, l json.RawMessage) {
			defer wg.Done()
			defer func() { <-sem }()
			var b behaviour
			if err := json.Unmarshal(l, &b); err != nil {
				common.Fatalf("behaviour %d: %v", id, err)
			}
			engine := "interpreter"
			if id%2 == 1 {
				engine = "compiler"
			}
			results[id] = replayOne(id, &b, engine, base)
		}(id, l)
	}
	wg.Wait()
	for _, r := range results {
		common.Emit(r)
	}
	common.Flush()
}

// ---------------------------------------------------------------------------------------- readdir traces

type dent struct {
	N   string `json:"n"`
	Len int    `json:"len"`
}

type rdEvent struct {
	Ev     string   `json:"ev"`
	Buf    int      `json:"buf"`
	Cookie int      `json:"cookie"`
	Used   int      `json:"used"`
	Names  []string `json:"names"`
	Nexts  []int    `json:"nexts"`
	Order  []dent   `json:"order,omitempty"`
	Expect []string `json:"expect,omitempty"`
}

const pDir = 16384

// readdirOnce calls fd_readdir and parses the complete entries.
func readdirOnce(env *wasix.Env, fd uint64, buf, cookie int) (rdEvent, string) {
	e, err := env.Call("fd_readdir", fd, pDir, uint64(buf), uint64(cookie), pRes)
	if err != nil {
		return rdEvent{}, "call error: " + err.Error()
	}
	if e != 0 {
		return rdEvent{}, "errno " + wasix.Errno(e)
	}
	used := int(env.U32(pRes))
	ev := rdEvent{Ev: "readdir", Buf: buf, Cookie: cookie, Used: used, Names: []string{}, Nexts: []int{}}
	b, _ := env.Mem.Read(pDir, uint32(used))
	for off := 0; off+24 <= len(b); {
		next := int(uint64(b[off]) | uint64(b[off+1])<<8 | uint64(b[off+2])<<16 | uint64(b[off+3])<<24)
		nl := int(uint32(b[off+16]) | uint32(b[off+17])<<8 | uint32(b[off+18])<<16 | uint32(b[off+19])<<24)
		if off+24+nl > len(b) {
			break // truncated tail
		}
		ev.Names = append(ev.Names, string(b[off+24:off+24+nl]))
		ev.Nexts = append(ev.Nexts, next)
		off += 24 + nl
	}
	return ev, ""
}

// Readdir is `driver wasifs-readdir -out file`: records fd_readdir traces for TLC (DirRead.tla).
func Readdir(args []string) {
	out := common.Arg(args, "-out", "readdir.ndjson")
	base, _ := os.MkdirTemp(os.Getenv("VERIF_WORK"), "rd")
	defer os.RemoveAll(base)
	rng := rand.New(rand.NewSource(common.Seed()))
	ctx := context.Background()
	var all []string
	runs := 0
	entryNames := []string{"e1", "ee2", "eee3", "eeee4", "eeeeeeeeeeeeeeeeeeee5", "f6"}
	bufs := []int{24, 25, 26, 47, 48, 49, 51, 60, 74, 75, 100, 4096}
	for k := 0; k <= 6; k++ {
		for bi, buf := range bufs {
			for _, mode := range []string{"ro-dir", "rw", "ro-fs"} {
				if mode != "rw" && (bi+k)%3 != 0 {
					continue
				}
				engine := []string{"interpreter", "compiler"}[(k+bi)%2]
				dir, _ := os.MkdirTemp(base, "d")
				for _, n := range entryNames[:k] {
					_ = os.WriteFile(filepath.Join(dir, n), []byte("x"), 0o644)
				}
				fsc := wazero.NewFSConfig()
				switch mode {
				case "ro-dir":
					fsc = fsc.WithReadOnlyDirMount(dir, "/")
				case "ro-fs":
					fsc = fsc.WithFSMount(os.DirFS(dir), "/")
				default:
					fsc = fsc.WithDirMount(dir, "/")
				}
				env, err := wasix.New(ctx, engine, wazero.NewModuleConfig().WithFSConfig(fsc))
				if err != nil {
					common.Fatalf("env: %v", err)
				}
				var events []rdEvent
				var order []dent
				problem := ""
				// first complete pass with this buffer size; an entry that does not fit is retried with a larger buffer
				cookie, b := 0, buf
				for iter := 0; iter < 200 && problem == ""; iter++ {
					ev, p := readdirOnce(env, 3, b, cookie)
					if p != "" {
						problem = p
						break
					}
					events = append(events, ev)
					for i, n := range ev.Names {
						order = append(order, dent{n, len(n)})
						cookie = ev.Nexts[i]
					}
					if ev.Used < b {
						break
					}
					if len(ev.Names) == 0 {
						b *= 2 // reported truncated: the next entry needs more room
					} else {
						b = buf
					}
				}
				// afterwards: rewind and re-read from cookies handed out since, with other buffer sizes
				for j := 0; j < 6 && problem == "" && len(order) > 0; j++ {
					ev, p := readdirOnce(env, 3, bufs[rng.Intn(len(bufs))], 0)
					if p != "" {
						problem = p
						break
					}
					events = append(events, ev)
					c := 0
					if len(ev.Nexts) > 0 {
						c = ev.Nexts[rng.Intn(len(ev.Nexts))]
					}
					ev2, p := readdirOnce(env, 3, bufs[rng.Intn(len(bufs))], c)
					if p != "" {
						problem = p
						break
					}
					events = append(events, ev2)
				}
				env.Close()
				os.RemoveAll(dir)
				if runs > 0 {
					all = append(all, `{"ev":"reset"}`)
				}
				runs++
				expect := append([]string{}, entryNames[:k]...)
				hdr, _ := json.Marshal(map[string]interface{}{"ev": "opendir", "order": order, "expect": expect})
				all = append(all, string(hdr))
				if problem != "" {
					// an unexpected errno/trap: make the trace unacceptable at this point
					all = append(all, fmt.Sprintf(`{"ev":"problem","what":%q}`, problem))
				}
				for _, ev := range events {
					j, _ := json.Marshal(ev)
					all = append(all, string(j))
				}
			}
		}
	}
	_ = os.WriteFile(out, []byte(strings.Join(all, "\n")+"\n"), 0o644)
	common.Emit(map[string]int{"runs": runs, "events": len(all)})
	common.Flush()
}
