// Package isoreplay replays interleavings of spec/Isolation.tla on unlinked instances of one compiled module (C11).
package isoreplay

import (
	"context"
	"encoding/json"
	"fmt"
	"strings"
	"sync"

	"github.com/tetratelabs/wazero"
	"github.com/tetratelabs/wazero/api"
	"github.com/tetratelabs/wazero/verifharness/common"
	"github.com/tetratelabs/wazero/verifharness/ug"
)

type obs struct {
	Alive bool           `json:"alive"`
	G     int            `json:"g"`
	Pages int            `json:"pages"`
	Cells map[string]int `json:"cells"`
	Tab   []struct {
		Inst int `json:"inst"`
		K    int `json:"k"`
	} `json:"tab"`
}

type step struct {
	I   int             `json:"i"`
	Op  string          `json:"op"`
	X   int             `json:"x"`
	Y   int             `json:"y"`
	Res json.RawMessage `json:"res"`
	St  []obs           `json:"st"`
}

type behaviour struct {
	Hist []step `json:"hist"`
}

func isTrap(err error) bool { return err != nil && strings.Contains(err.Error(), "wasm error") }

var shape = ug.Shape{Mem: "own", MemLim: ug.Limits{Min: 1, Max: 3}, Tab: "own", TabLim: ug.Limits{Min: 4, Max: 6}, G: "own", H: "own",
	Inc: "own", Passive: true, FG: true}

// Behaviour is a history of Isolation.tla.
type Behaviour = behaviour

// ReplayWith runs a history on instances produced by mk (called for instance 1 and for every "inst" step).
// callCtx yields the context for one guest call and a function to call afterwards (e.g. cancel).
func ReplayWith(b *behaviour, label string, mk func(i int) (api.Module, error), callCtx func() (context.Context, func())) []common.Fail {
	res := common.Result{OK: true}
	ctx := context.Background()
	insts := map[int]api.Module{}
	newInst := func(i int) error {
		mod, err := mk(i)
		if err != nil {
			return err
		}
		if _, err := mod.ExportedFunction("setid").Call(ctx, uint64(i)); err != nil {
			return err
		}
		insts[i] = mod
		return nil
	}
	if err := newInst(1); err != nil {
		res.AddFail(label+";instantiate", err.Error())
		return res.Fails
	}
	prev := ""
	for k := range b.Hist {
		s := &b.Hist[k]
		var want interface{}
		_ = json.Unmarshal(s.Res, &want)
		fail := func(what, msg string) {
			res.Step = k + 1
			res.AddFail(fmt.Sprintf("%s;%s%s#%s", label, prev, s.Op, what), fmt.Sprintf("%s step %d %s(%d,%d) on instance %d: %s", label, k+1, s.Op, s.X, s.Y, s.I, msg))
		}
		switch s.Op {
		case "inst":
			if err := newInst(s.I); err != nil {
				fail("instantiate", err.Error())
				return res.Fails
			}
		case "close":
			if err := insts[s.I].Close(ctx); err != nil {
				fail("close", err.Error())
			}
			delete(insts, s.I)
		default:
			f := insts[s.I].ExportedFunction(s.Op)
			var args []uint64
			switch s.Op {
			case "gset", "ld", "mgrow", "tcall", "tgrow", "tsetfg":
				args = []uint64{uint64(uint32(s.X))}
			case "st", "tset":
				args = []uint64{uint64(uint32(s.X)), uint64(uint32(s.Y))}
			case "minit", "tinit":
				args = []uint64{0, 0, 2}
			}
			cctx, after := callCtx()
			out, err := f.Call(cctx, args...)
			after()
			switch w := want.(type) {
			case string:
				if w == "trap" && !isTrap(err) {
					fail("no-trap", fmt.Sprintf("returned %v (%v), the lone-instance model says trap", out, err))
				} else if w == "void" && err != nil {
					fail("error", err.Error())
				}
			case float64:
				if err != nil || len(out) != 1 || int32(out[0]) != int32(w) {
					fail("result", fmt.Sprintf("returned %v (%v), the lone-instance model says %d", out, err, int(w)))
				}
			}
		}
		// every live instance is in the state the lone-instance model predicts
		for j, o := range s.St {
			mod := insts[j+1]
			if mod == nil || !o.Alive {
				continue
			}
			call := func(name string, args ...uint64) int64 {
				cctx, after := callCtx()
				defer after()
				out, err := mod.ExportedFunction(name).Call(cctx, args...)
				if err != nil {
					return -1000
				}
				return int64(int32(out[0]))
			}
			if v := call("gget"); v != int64(o.G) {
				fail("other-global", fmt.Sprintf("instance %d has g=%d, alone it would have %d", j+1, v, o.G))
			}
			if v := call("msize"); v != int64(o.Pages) {
				fail("other-memory-size", fmt.Sprintf("instance %d has %d pages, alone it would have %d", j+1, v, o.Pages))
			}
			for addr, wv := range o.Cells {
				var a uint64
				fmt.Sscan(addr, &a)
				exp := int64(wv)
				if int(a) >= o.Pages*65536 {
					exp = -1000
				}
				if v := call("ld", a); v != exp {
					fail("other-memory", fmt.Sprintf("instance %d reads byte %d = %d, alone it would read %d", j+1, a, v, exp))
				}
			}
			for slot, ref := range o.Tab {
				exp := int64(-1000)
				if ref.Inst != 0 {
					exp = int64(ref.Inst*10 + ref.K)
				}
				if v := call("tcall", uint64(slot)); v != exp {
					fail("other-table", fmt.Sprintf("instance %d slot %d calls to %d, alone it would be %d", j+1, slot, v, exp))
				}
			}
		}
		if !res.OK {
			return res.Fails
		}
		prev = s.Op + ";"
	}
	return res.Fails
}

// Shape is the module shape all isolation / configuration histories run on.
var Shape = shape

func replayOne(id int, b *behaviour, engine string, variant int) common.Result {
	res := common.Result{ID: id, OK: true}
	ctx := context.Background()
	mk := func() wazero.RuntimeConfig {
		cfg := wazero.NewRuntimeConfigInterpreter()
		if engine == "compiler" {
			cfg = wazero.NewRuntimeConfigCompiler()
		}
		return cfg
	}
	vname := []string{"one-runtime", "capFromMax", "two-runtimes-shared-cache"}[variant]
	var rts []wazero.Runtime
	var cms []wazero.CompiledModule
	bin := ug.Build(shape)
	switch variant {
	case 0:
		rts = []wazero.Runtime{wazero.NewRuntimeWithConfig(ctx, mk())}
	case 1:
		rts = []wazero.Runtime{wazero.NewRuntimeWithConfig(ctx, mk().WithMemoryCapacityFromMax(true))}
	case 2:
		cache := wazero.NewCompilationCache()
		defer cache.Close(ctx)
		rts = []wazero.Runtime{wazero.NewRuntimeWithConfig(ctx, mk().WithCompilationCache(cache)), wazero.NewRuntimeWithConfig(ctx, mk().WithCompilationCache(cache))}
	}
	for _, rt := range rts {
		defer rt.Close(ctx)
		cm, err := rt.CompileModule(ctx, bin)
		if err != nil {
			res.AddFail("infra:compile", err.Error())
			return res
		}
		cms = append(cms, cm)
	}
	fails := ReplayWith(b, fmt.Sprintf("engine=%s;%s", engine, vname), func(i int) (api.Module, error) {
		k := (i - 1) % len(rts)
		return rts[k].InstantiateModule(ctx, cms[k], wazero.NewModuleConfig().WithName(""))
	}, func() (context.Context, func()) { return ctx, func() {} })
	for _, f := range fails {
		res.AddFail(f.Key, f.Msg)
	}
	return res
}

// Main is `driver replay-iso -in file`.
func Main(args []string) {
	lines, err := common.ReadLines(common.Arg(args, "-in", ""))
	if err != nil {
		common.Fatalf("read: %v", err)
	}
	results := make([]common.Result, len(lines))
	var wg sync.WaitGroup
	sem := make(chan struct{}, 12)
	for id, l := range lines {
		wg.Add(1)
		sem <- struct{}{}
		go func(id int, l json.RawMessage) {
			defer wg.Done()
			defer func() { <-sem }()
			var b behaviour
			if err := json.Unmarshal(l, &b); err != nil {
				common.Fatalf("behaviour %d: %v", id, err)
			}
			r := replayOne(id, &b, "interpreter", id%3)
			r2 := replayOne(id, &b, "compiler", (id+1)%3)
			for _, f := range r2.Fails {
				r.AddFail(f.Key, f.Msg)
			}
			results[id] = r
		}(id, l)
	}
	wg.Wait()
	for _, r := range results {
		common.Emit(r)
	}
	common.Flush()
}
