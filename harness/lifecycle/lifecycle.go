// Package lifecycle replays histories of spec/Lifecycle.tla: close / drop / GC in any order must never endanger
// a live instance (C09). Every history runs in a supervised child next to a twin runtime in which nothing is closed.
package lifecycle

import (
	"context"
	"encoding/json"
	"fmt"
	"runtime"
	"strings"
	"time"

	"github.com/tetratelabs/wazero"
	"github.com/tetratelabs/wazero/api"
	"github.com/tetratelabs/wazero/experimental"
	"github.com/tetratelabs/wazero/verifharness/common"
	"github.com/tetratelabs/wazero/verifharness/guard"
	"github.com/tetratelabs/wazero/verifharness/ug"
)

type act struct {
	K string `json:"k"`
	I string `json:"i"`
	J string `json:"j"`
	S int    `json:"s"`
	T string `json:"t"`
}

type step struct {
	A   act    `json:"a"`
	Res string `json:"res"`
}

type behaviour struct {
	Hist      []step `json:"hist"`
	Engine    string `json:"engine"`
	Listeners bool   `json:"listeners"`
}

var ids = map[string]int{"A": 1, "B": 2, "C": 3, "D": 4, "E": 5}

// moreRefs makes the instance evaluate ref.func many more times (the results are dropped): a reference handed out earlier
// must stay valid however many references its owner creates afterwards. No effect on the model's state.
func moreRefs(w *world, i string) {
	if m := w.mods[i]; m != nil {
		if f := m.ExportedFunction("getref"); f != nil {
			for k := 0; k < 96; k++ {
				_, _ = f.Call(w.ctx)
			}
		}
	}
}

func shapeOf(i string) ug.Shape {
	switch i {
	case "A":
		return ug.Shape{Mem: "own", MemLim: ug.Limits{Min: 1, Max: 2}, Tab: "own", TabLim: ug.Limits{Min: 4, Max: -1}, G: "own", H: "own", Inc: "own", ID: 1, FG: true}
	case "E": // imports nothing of A but its funcref global
		return ug.Shape{Priv: true, FGImp: true, ID: 5}
	case "B":
		return ug.Shape{Mem: "imp", MemLim: ug.Limits{Min: 1, Max: 2}, Tab: "imp", TabLim: ug.Limits{Min: 4, Max: -1}, Priv: true, ID: 2}
	case "C":
		return ug.Shape{Mem: "imp", MemLim: ug.Limits{Min: 1, Max: 2}, Tab: "imp", TabLim: ug.Limits{Min: 4, Max: -1}, Priv: true, ID: 3}
	}
	return ug.Shape{Priv: true, ID: 4}
}

type nopListener struct{}

func (nopListener) NewFunctionListener(api.FunctionDefinition) experimental.FunctionListener {
	return nopL{}
}

type nopL struct{}

func (nopL) Before(context.Context, api.Module, api.FunctionDefinition, []uint64, experimental.StackIterator) {
}
func (nopL) After(context.Context, api.Module, api.FunctionDefinition, []uint64) {}
func (nopL) Abort(context.Context, api.Module, api.FunctionDefinition, error)    {}

type world struct {
	ctx         context.Context
	cache       wazero.CompilationCache
	ownerClosed bool // A, the owner of the memory, was closed (in this world or its twin's history)
	rt          wazero.Runtime
	mods        map[string]api.Module
	cms         map[string]wazero.CompiledModule
}

func newWorld(engine string, listeners bool) (*world, error) {
	ctx := context.Background()
	if listeners {
		ctx = experimental.WithFunctionListenerFactory(ctx, nopListener{})
	}
	cfg := wazero.NewRuntimeConfigInterpreter()
	if engine == "compiler" {
		cfg = wazero.NewRuntimeConfigCompiler()
	}
	// A's memory (imported by B and C) comes from an allocator whose Free unmaps it: a release under a live owner faults
	ctx = experimental.WithMemoryAllocator(ctx, guard.New())
	cache := wazero.NewCompilationCache()
	w := &world{ctx: ctx, cache: cache, rt: wazero.NewRuntimeWithConfig(ctx, cfg.WithCompilationCache(cache)), mods: map[string]api.Module{}, cms: map[string]wazero.CompiledModule{}}
	return w, w.inst("A")
}

func (w *world) inst(i string) error {
	cm, err := w.rt.CompileModule(w.ctx, ug.Build(shapeOf(i)))
	if err != nil {
		return err
	}
	name := map[string]string{"A": "env", "B": "b", "C": "c", "D": "d", "E": "e"}[i]
	mod, err := w.rt.InstantiateModule(w.ctx, cm, wazero.NewModuleConfig().WithName(name))
	if err != nil {
		return err
	}
	w.mods[i], w.cms[i] = mod, cm
	return nil
}

func gc() {
	for k := 0; k < 3; k++ {
		runtime.GC()
		time.Sleep(15 * time.Millisecond)
	}
	// reuse freed heap: pointer-free objects and - from other spans - objects full of pointers, in every small size class
	var keep [][]byte
	for k := 0; k < 20000; k++ {
		keep = append(keep, make([]byte, 64+k%512))
	}
	_ = keep
	dummy := new(uint64)
	var keepP []interface{}
	for k := 0; k < 60000; k++ {
		for _, n := range []int{2, 4, 8, 12, 16, 24, 32, 48, 64, 96, 128, 192, 256, 320, 384, 448, 512, 640, 768, 896, 1024, 1536, 2048} {
			if k%(1+n/8) != 0 {
				continue
			}
			p := make([]*uint64, n)
			for i := range p {
				p[i] = dummy
			}
			keepP = append(keepP, p)
		}
	}
	runtime.KeepAlive(keepP)
	runtime.GC()
}

func norm(b *behaviour) string {
	var parts []string
	for _, s := range b.Hist {
		a := s.A
		p := a.K
		switch a.K {
		case "inst", "close", "closec", "drop":
			p += "(" + a.I + ")"
		case "tset":
			p += "(" + a.I + ".f->T)"
		case "pset":
			p += "(" + a.J + ".f->" + a.I + ".priv)"
		case "call":
			p += "(" + a.I + "," + a.T + ")"
		}
		parts = append(parts, p)
	}
	return strings.Join(parts, ";")
}

// danglingKey names the essential pattern of a use-after-collect, whatever else the history contains.
func danglingKey(b *behaviour, a act, owner map[string]string) string {
	where := fmt.Sprintf("%s/priv/%d", a.I, a.S)
	tbl := a.I + ".private-table"
	if a.T == "shared" {
		where = fmt.Sprintf("shared/%d", a.S)
		tbl = "shared-table"
	}
	return fmt.Sprintf("engine=%s;funcref-of-%s-only-in-%s;close+drop+gc;call#dangling", b.Engine, owner[where], tbl)
}

func runOne(id int, raw json.RawMessage) common.Result {
	res := common.Result{ID: id, OK: true}
	var b behaviour
	if err := json.Unmarshal(raw, &b); err != nil {
		res.AddFail("infra", err.Error())
		return res
	}
	real, err := newWorld(b.Engine, b.Listeners)
	if err != nil {
		res.AddFail("infra:world", err.Error())
		return res
	}
	twin, err := newWorld(b.Engine, b.Listeners)
	if err != nil {
		res.AddFail("infra:twin", err.Error())
		return res
	}
	key := fmt.Sprintf("engine=%s;%s", b.Engine, norm(&b))
	apply := func(w *world, a act, destructive bool) (int64, string) {
		switch a.K {
		case "inst":
			if err := w.inst(a.I); err != nil {
				return 0, "error:" + err.Error()
			}
		case "tset":
			if _, err := w.mods[a.I].ExportedFunction("tset").Call(w.ctx, uint64(a.S), 1); err != nil {
				return 0, "error:" + err.Error()
			}
			moreRefs(w, a.I)
		case "pset":
			ref, err := w.mods[a.J].ExportedFunction("getref").Call(w.ctx)
			if err != nil {
				return 0, "error:" + err.Error()
			}
			if _, err := w.mods[a.I].ExportedFunction("pset").Call(w.ctx, uint64(a.S), ref[0]); err != nil {
				return 0, "error:" + err.Error()
			}
			moreRefs(w, a.J)
		case "close":
			if a.I == "A" {
				w.ownerClosed = true
			}
			if destructive {
				_ = w.mods[a.I].Close(w.ctx)
			}
		case "closec":
			if destructive && w.cms[a.I] != nil {
				_ = w.cms[a.I].Close(w.ctx)
			}
		case "cacheclose":
			if destructive {
				_ = w.cache.Close(w.ctx)
			}
		case "drop":
			if destructive {
				delete(w.mods, a.I)
				delete(w.cms, a.I)
			}
		case "gc":
			if destructive {
				gc()
			}
		case "call":
			fn := "tcall"
			if a.T == "global" {
				out, err := w.mods[a.I].ExportedFunction("gcall").Call(w.ctx)
				if err != nil {
					if strings.Contains(err.Error(), "wasm error") {
						return 0, "trap"
					}
					return 0, "error:" + err.Error()
				}
				return int64(int32(out[0])), ""
			}
			if a.T == "priv" {
				fn = "pcall"
			}
			// the caller also reads the memory it sees (A's, own or imported): it stays A's as long as A lives
			// (not after A itself was closed: a custom allocator's Free runs when the memory's OWNER closes - the experimental API's contract)
			if f := w.mods[a.I].ExportedFunction("ld"); f != nil && !w.ownerClosed {
				if _, err := f.Call(w.ctx, 0); err != nil {
					return 0, "error:" + err.Error()
				}
			}
			out, err := w.mods[a.I].ExportedFunction(fn).Call(w.ctx, uint64(a.S))
			if err != nil {
				if strings.Contains(err.Error(), "wasm error") {
					return 0, "trap"
				}
				return 0, "error:" + err.Error()
			}
			return int64(int32(out[0])), ""
		}
		return 0, ""
	}
	owner := map[string]string{} // holder/table/slot -> instance whose function is stored there
	for k, s := range b.Hist {
		switch s.A.K {
		case "tset":
			owner[fmt.Sprintf("shared/%d", s.A.S)] = s.A.I
		case "pset":
			owner[fmt.Sprintf("%s/priv/%d", s.A.I, s.A.S)] = s.A.J
		}
		tv, terr := apply(twin, s.A, false)
		rv, rerr := apply(real, s.A, true)
		if s.A.K != "call" {
			if strings.HasPrefix(rerr, "error:") && !strings.HasPrefix(terr, "error:") && s.A.K != "inst" {
				res.AddFail(key+"#step-error", fmt.Sprintf("step %d %+v failed: %s", k+1, s.A, rerr))
			}
			continue
		}
		// a call by a live instance: works as in the twin, or fails with an ordinary error
		switch {
		case strings.HasPrefix(rerr, "error:") && (strings.Contains(rerr, "runtime error") || strings.Contains(rerr, "recovered by wazero") || strings.Contains(rerr, "BUG")):
			// a Go runtime error inside the engine is not an ordinary error: the call ran over something that is gone
			if s.Res == "UNSAFE" {
				res.AddFail(danglingKey(&b, s.A, owner), fmt.Sprintf("history %s: step %d %+v failed inside the engine: %.300s", norm(&b), k+1, s.A, rerr))
			} else {
				res.AddFail(key+"#internal-failure", fmt.Sprintf("step %d %+v failed inside the engine: %.300s", k+1, s.A, rerr))
			}
		case strings.HasPrefix(rerr, "error:"):
			// ordinary error: allowed
		case s.Res == "UNSAFE" && (rerr != terr || rv != tv):
			// the model (with the keep-alive edges the code creates) predicts that the target was collected
			res.AddFail(danglingKey(&b, s.A, owner), fmt.Sprintf("history %s: step %d %+v returned %d %q, without the closes it returns %d %q", norm(&b), k+1, s.A, rv, rerr, tv, terr))
		case rerr != terr || rv != tv:
			res.AddFail(key+"#behaviour-changed", fmt.Sprintf("step %d %+v: returned %d %q, without the closes it returns %d %q", k+1, s.A, rv, rerr, tv, terr))
		}
		if s.Res != "UNSAFE" && s.Res != "trap" && terr == "" && tv != int64(ids[s.Res]*10+1) {
			res.AddFail(key+"#model-mismatch", fmt.Sprintf("step %d %+v: the twin returns %d, the model says function of %s", k+1, s.A, tv, s.Res))
		}
	}
	real.rt.Close(real.ctx)
	twin.rt.Close(twin.ctx)
	return res
}

func Child(args []string) { common.ChildLoop(runOne) }

// Main is `driver replay-lifecycle -in file`.
func Main(args []string) {
	lines, err := common.ReadLines(common.Arg(args, "-in", ""))
	if err != nil {
		common.Fatalf("read: %v", err)
	}
	results := common.SuperviseRetry("lifecycle-child", nil, lines, 60*time.Second, 12)
	for i := range results {
		r := &results[i]
		if !r.OK && (r.Key == "crash" || r.Key == "hang") {
			var b behaviour
			_ = json.Unmarshal(lines[i], &b)
			k, msg := r.Key, r.Msg
			*r = common.Result{ID: r.ID}
			if len(msg) > 700 {
				msg = msg[:700]
			}
			last := b.Hist[len(b.Hist)-1]
			if last.Res == "UNSAFE" {
				owner := map[string]string{}
				for _, s := range b.Hist {
					if s.A.K == "tset" {
						owner[fmt.Sprintf("shared/%d", s.A.S)] = s.A.I
					} else if s.A.K == "pset" {
						owner[fmt.Sprintf("%s/priv/%d", s.A.I, s.A.S)] = s.A.J
					}
				}
				r.AddFail(danglingKey(&b, last.A, owner), "history "+norm(&b)+": process "+k+": "+msg)
			} else {
				r.AddFail(fmt.Sprintf("engine=%s;%s#process-%s", b.Engine, norm(&b), k), msg)
			}
		}
		common.Emit(*r)
	}
	common.Flush()
}
