// Package common holds the I/O conventions shared by all driver sub-commands.
package common

import (
	"bufio"
	"encoding/json"
	"fmt"
	"os"
	"strconv"
	"sync"
)

// Result is printed once per behaviour by every replay sub-command.
type Result struct {
	ID   int         `json:"id"`
	OK   bool        `json:"ok"`
	Key  string      `json:"key,omitempty"`  // normal form of the failing input (known-finding key)
	Msg  string      `json:"msg,omitempty"`  // human readable first divergence
	Step int         `json:"step,omitempty"` // index of the diverging step
	Obs  interface{} `json:"obs,omitempty"`  // observations (for trace validation / evidence)
	// Fails lists every distinct divergence of the behaviour (Key/Msg are the first one).
	Fails []Fail `json:"fails,omitempty"`
}

type Fail struct {
	Key string `json:"key"`
	Msg string `json:"msg"`
}

func (r *Result) AddFail(key, msg string) {
	for _, f := range r.Fails {
		if f.Key == key {
			return
		}
	}
	if len(r.Fails) == 0 {
		r.Key, r.Msg = key, msg
	}
	r.Fails = append(r.Fails, Fail{key, msg})
	r.OK = false
}

// ReadLines reads an ND-JSON file into raw messages.
func ReadLines(path string) ([]json.RawMessage, error) {
	f, err := os.Open(path)
	if err != nil {
		return nil, err
	}
	defer f.Close()
	var out []json.RawMessage
	sc := bufio.NewScanner(f)
	sc.Buffer(make([]byte, 1<<20), 1<<28)
	for sc.Scan() {
		b := sc.Bytes()
		if len(b) == 0 {
			continue
		}
		out = append(out, append(json.RawMessage(nil), b...))
	}
	return out, sc.Err()
}

var outMu sync.Mutex
var out = bufio.NewWriterSize(os.Stdout, 1<<16)

// Emit prints one JSON value on a line of stdout.
func Emit(v interface{}) {
	b, err := json.Marshal(v)
	if err != nil {
		panic(err)
	}
	outMu.Lock()
	out.Write(b)
	out.WriteByte('\n')
	outMu.Unlock()
}

func Flush() { outMu.Lock(); out.Flush(); outMu.Unlock() }

func Fatalf(format string, a ...interface{}) {
	Flush()
	fmt.Fprintf(os.Stderr, format+"\n", a...)
	os.Exit(3)
}

func Seed() int64 {
	s, err := strconv.ParseInt(os.Getenv("VERIF_SEED"), 10, 64)
	if err != nil || s == 0 {
		return 1
	}
	return s
}

// ArgIn returns the value following "-in" (or the given flag) in args.
func Arg(args []string, flag, def string) string {
	for i := 0; i+1 < len(args); i++ {
		if args[i] == flag {
			return args[i+1]
		}
	}
	return def
}

func HasFlag(args []string, flag string) bool {
	for _, a := range args {
		if a == flag {
			return true
		}
	}
	return false
}
