package common

import (
	"bufio"
	"bytes"
	"encoding/json"
	"fmt"
	"io"
	"os"
	"os/exec"
	"strings"
	"sync"
	"time"
)

// Supervise runs `driver <childCmd> <args...>` over items (ND-JSON on stdin). The child must call
// ChildLoop. If the child dies or hangs while an item is in flight, that item gets a Result with
// Key "crash"/"hang" (Msg holds the tail of stderr) and a new child continues with the next item.
// Results are returned in item order.
// SuperviseRetry is Supervise for drivers whose items are finite by construction: an item that did not answer in time (the
// machine may be loaded) is run again on its own with five times the limit; only what does not end then is a "hang".
func SuperviseRetry(childCmd string, args []string, items []json.RawMessage, perItem time.Duration, workers int) []Result {
	results := Supervise(childCmd, args, items, perItem, workers)
	for i := range results {
		if r := &results[i]; !r.OK && r.Key == "hang" {
			again := Supervise(childCmd, args, []json.RawMessage{items[i]}, 5*perItem, 1)
			again[0].ID = r.ID
			results[i] = again[0]
		}
	}
	return results
}

func Supervise(childCmd string, args []string, items []json.RawMessage, perItem time.Duration, workers int) []Result {
	results := make([]Result, len(items))
	done := make([]bool, len(items))
	var mu sync.Mutex
	next := 0
	take := func(n int) (lo, hi int) {
		mu.Lock()
		defer mu.Unlock()
		lo = next
		hi = lo + n
		if hi > len(items) {
			hi = len(items)
		}
		next = hi
		return
	}
	var wg sync.WaitGroup
	for w := 0; w < workers; w++ {
		wg.Add(1)
		go func() {
			defer wg.Done()
			for {
				lo, hi := take(16)
				if lo >= hi {
					return
				}
				for lo < hi {
					lo = runChild(childCmd, args, items, lo, hi, perItem, results, done)
				}
			}
		}()
	}
	wg.Wait()
	return results
}

// runChild feeds items[lo:hi] to one child and returns the index to continue from.
func runChild(childCmd string, args []string, items []json.RawMessage, lo, hi int, perItem time.Duration, results []Result, done []bool) int {
	cmd := exec.Command(os.Args[0], append([]string{childCmd}, args...)...)
	var in bytes.Buffer
	for i := lo; i < hi; i++ {
		fmt.Fprintf(&in, "%d ", i)
		in.Write(items[i])
		in.WriteByte('\n')
	}
	cmd.Stdin = &in
	var stderr bytes.Buffer
	cmd.Stderr = &stderr
	out, _ := cmd.StdoutPipe()
	if err := cmd.Start(); err != nil {
		Fatalf("cannot start child: %v", err)
	}
	lines := make(chan string, 64)
	go func() {
		sc := bufio.NewScanner(out)
		sc.Buffer(make([]byte, 1<<20), 1<<28)
		for sc.Scan() {
			lines <- sc.Text()
		}
		close(lines)
	}()
	inflight := -1
	cur := lo
	timer := time.NewTimer(perItem)
	defer timer.Stop()
	for {
		select {
		case l, ok := <-lines:
			if !ok {
				_ = cmd.Wait()
				if inflight >= 0 && !done[inflight] {
					results[inflight] = Result{ID: inflight, OK: false}
					results[inflight].AddFail("crash", "child process died while executing this input: "+tail(stderr.String(), 1200))
					done[inflight] = true
					return inflight + 1
				}
				if cur < hi && inflight < 0 && cmd.ProcessState != nil && !cmd.ProcessState.Success() {
					Fatalf("child %s failed before taking an item: %s", childCmd, tail(stderr.String(), 2000))
				}
				return hi
			}
			if strings.HasPrefix(l, "BEGIN ") {
				fmt.Sscan(l[6:], &inflight)
				if !timer.Stop() {
					select {
					case <-timer.C:
					default:
					}
				}
				timer.Reset(perItem)
				continue
			}
			if strings.HasPrefix(l, "{") && inflight >= 0 {
				var r Result
				if err := json.Unmarshal([]byte(l), &r); err == nil {
					r.ID = inflight
					results[inflight] = r
					done[inflight] = true
					cur = inflight + 1
				}
			}
		case <-timer.C:
			_ = cmd.Process.Kill()
			_ = cmd.Wait()
			if inflight >= 0 && !done[inflight] {
				results[inflight] = Result{ID: inflight, OK: false}
				results[inflight].AddFail("hang", fmt.Sprintf("no result within %v; child killed", perItem))
				done[inflight] = true
				return inflight + 1
			}
			return cur + 1
		}
	}
}

func tail(s string, n int) string {
	if len(s) > n { // the first lines name the fault, the rest are goroutine dumps
		return s[:n]
	}
	return s
}

// ChildLoop reads "<id> <json>" lines from stdin and calls f for each, printing BEGIN/result lines.
func ChildLoop(f func(id int, raw json.RawMessage) Result) {
	r := bufio.NewReaderSize(os.Stdin, 1<<20)
	for {
		line, err := r.ReadBytes('\n')
		if len(bytes.TrimSpace(line)) > 0 {
			sp := bytes.IndexByte(line, ' ')
			var id int
			fmt.Sscan(string(line[:sp]), &id)
			fmt.Printf("BEGIN %d\n", id)
			os.Stdout.Sync()
			res := f(id, json.RawMessage(bytes.TrimSpace(line[sp+1:])))
			b, _ := json.Marshal(res)
			os.Stdout.Write(append(b, '\n'))
			os.Stdout.Sync()
		}
		if err == io.EOF || err != nil {
			return
		}
	}
}
