// Package wasisafe executes the argument tuples of spec/WasiSig.tla against the real WASI functions (C15).
package wasisafe

import (
	"bytes"
	"context"
	"encoding/json"
	"errors"
	"fmt"
	"net"
	"os"
	"path/filepath"
	"runtime"
	"strings"
	"time"

	"github.com/tetratelabs/wazero"
	"github.com/tetratelabs/wazero/api"
	experimentalsock "github.com/tetratelabs/wazero/experimental/sock"
	"github.com/tetratelabs/wazero/imports/wasi_snapshot_preview1"
	"github.com/tetratelabs/wazero/internal/testing/proxy"
	"github.com/tetratelabs/wazero/internal/wasm"
	"github.com/tetratelabs/wazero/sys"
	"github.com/tetratelabs/wazero/verifharness/common"
)

type role struct {
	R string `json:"r"`
	K int    `json:"k"`
}

type item struct {
	F      string     `json:"f"`
	Sig    []role     `json:"sig"`
	Tuples [][]string `json:"tuples"`
}

const memSize = 65536

func classValue(r role, class string, idx int) uint64 {
	switch r.R {
	case "fd":
		return map[string]uint64{"file": 4, "stdin": 0, "stdout": 1, "preopen": 3, "dir": 5, "closed": 6, "neg1": 0xffffffff, "big": 0x7fffffff, "washigh": 100, "word2": 70}[class]
	case "in", "out", "res", "iovr", "iovw", "evs", "subs":
		return map[string]uint64{"valid": uint64(8192 + 2048*idx), "zero": 0, "end-4": memSize - 4, "end-1": memSize - 1, "end": memSize, "2^31": 1 << 31, "max": 0xffffffff}[class]
	case "len":
		return map[string]uint64{"8": 8, "0": 0, "1": 1, "page": memSize, "2^28": 1 << 28, "2^29": 1 << 29, "2^31-1": 1<<31 - 1, "max": 0xffffffff}[class]
	case "cnt":
		return map[string]uint64{"1": 1, "0": 0, "2": 2, "2^28": 1 << 28, "2^29": 1 << 29, "2^31-1": 1<<31 - 1, "max": 0xffffffff}[class]
	case "u64":
		return map[string]uint64{"0": 0, "1": 1, "2^63": 1 << 63, "max": ^uint64(0)}[class]
	case "flags":
		return map[string]uint64{"0": 0, "1": 1, "2": 2, "all16": 0xffff, "all32": 0xffffffff}[class]
	}
	return 0
}

type region struct{ lo, hi uint64 }

type engineEnv struct {
	rt    wazero.Runtime
	proxy wazero.CompiledModule
}

func newEngine(ctx context.Context, engine string) *engineEnv {
	cfg := wazero.NewRuntimeConfigInterpreter()
	if engine == "compiler" {
		cfg = wazero.NewRuntimeConfigCompiler()
	}
	rt := wazero.NewRuntimeWithConfig(ctx, cfg)
	wasiCompiled, err := wasi_snapshot_preview1.NewBuilder(rt).Compile(ctx)
	if err != nil {
		common.Fatalf("wasi: %v", err)
	}
	if _, err = rt.InstantiateModule(ctx, wasiCompiled, wazero.NewModuleConfig()); err != nil {
		common.Fatalf("wasi: %v", err)
	}
	cm, err := rt.CompileModule(ctx, proxy.NewModuleBinary(wasi_snapshot_preview1.ModuleName, wasiCompiled))
	if err != nil {
		common.Fatalf("proxy: %v", err)
	}
	return &engineEnv{rt, cm}
}

func fdTypes(ctx context.Context, mod api.Module) [10]int {
	var t [10]int
	f := mod.ExportedFunction("fd_fdstat_get")
	for fd := 0; fd < 10; fd++ {
		r, err := f.Call(ctx, uint64(fd), 60000)
		if err != nil || r[0] != 0 {
			t[fd] = -1
			continue
		}
		b, _ := mod.Memory().ReadByte(60000)
		t[fd] = int(b)
	}
	return t
}

func runTuple(res *common.Result, ee *engineEnv, engine string, it *item, tuple []string, base string) {
	ctx := context.Background()
	dir, _ := os.MkdirTemp(base, "t")
	defer os.RemoveAll(dir)
	_ = os.WriteFile(filepath.Join(dir, "a"), []byte("hello"), 0o644)
	_ = os.Mkdir(filepath.Join(dir, "d"), 0o755)
	_ = os.WriteFile(filepath.Join(dir, "d", "x"), []byte("x"), 0o644)
	sockWorld := strings.HasPrefix(it.F, "sock_")
	var mod api.Module
	var err error
	if sockWorld {
		// the socket functions run in a world of their own: descriptor 3 is a pre-opened TCP listener, 4 a connection
		// accepted from it whose peer has sent 8 bytes (classes: preopen = the listener, file = the connection)
		sctx := experimentalsock.WithConfig(ctx, experimentalsock.NewConfig().WithTCPListener("127.0.0.1", 0))
		mod, err = ee.rt.InstantiateModule(sctx, ee.proxy, wazero.NewModuleConfig().WithName("").WithStdin(strings.NewReader("stdin-data")))
	} else {
		mod, err = ee.rt.InstantiateModule(ctx, ee.proxy, wazero.NewModuleConfig().WithName("").
			WithFSConfig(wazero.NewFSConfig().WithDirMount(dir, "/")).WithStdin(strings.NewReader("stdin-data")))
	}
	if err != nil {
		res.AddFail("infra:instantiate", err.Error())
		return
	}
	defer mod.Close(ctx)
	mem := mod.Memory()
	call := func(name string, args ...uint64) (uint64, error) {
		r, err := mod.ExportedFunction(name).Call(ctx, args...)
		if err != nil || len(r) == 0 {
			return 0, err
		}
		return r[0], nil
	}
	if sockWorld {
		lf, ok := mod.(*wasm.ModuleInstance).Sys.FS().LookupFile(3)
		if !ok {
			res.AddFail("infra:listener", "no listener at descriptor 3")
			return
		}
		ad, ok := lf.File.(interface{ Addr() *net.TCPAddr })
		if !ok {
			res.AddFail("infra:listener", "descriptor 3 has no address")
			return
		}
		peer, err := net.DialTCP("tcp", nil, ad.Addr())
		if err != nil {
			res.AddFail("infra:dial", err.Error())
			return
		}
		defer peer.Close()
		if e, err := call("sock_accept", 3, 0, 900); err != nil || e != 0 {
			res.AddFail("infra:accept", fmt.Sprintf("%v %v", e, err))
			return
		}
		_, _ = peer.Write([]byte("PEERDATA"))
		// a second connection is pending, so that sock_accept never has to wait for one
		peer2, err := net.DialTCP("tcp", nil, ad.Addr())
		if err == nil {
			defer peer2.Close()
		}
		time.Sleep(5 * time.Millisecond)
	}
	// descriptor table: 4 = file a (rw), 5 = directory d, 6 = closed
	mem.Write(1000, []byte("a"))
	mem.Write(1010, []byte("d"))
	if !sockWorld {
		if e, err := call("path_open", 3, 0, 1000, 1, 0, 1<<1|1<<6, 0, 0, 900); err != nil || e != 0 {
			res.AddFail("infra:setup", fmt.Sprintf("open a: %v %v", e, err))
			return
		}
		call("path_open", 3, 0, 1010, 1, 2, 0, 0, 0, 900)
		call("path_open", 3, 0, 1000, 1, 0, 1<<1, 0, 0, 900)
		call("fd_close", 6)
		// ... and a history: a descriptor was moved far up (fd_renumber to 100) and closed there, so the table once was larger
		call("path_open", 3, 0, 1000, 1, 0, 1<<1, 0, 0, 900)
		call("fd_renumber", 6, 100)
		call("fd_close", 100)
	}
	// memory image
	img := make([]byte, memSize)
	for i := range img {
		img[i] = byte(i*7+3) | 1
	}
	args := make([]uint64, len(it.Sig))
	for i, r := range it.Sig {
		args[i] = classValue(r, tuple[i], i)
	}
	put := func(off uint64, b []byte) {
		if off+uint64(len(b)) <= memSize {
			copy(img[off:], b)
		}
	}
	le32 := func(v uint32) []byte { return []byte{byte(v), byte(v >> 8), byte(v >> 16), byte(v >> 24)} }
	for i, r := range it.Sig {
		switch r.R {
		case "in":
			put(args[i], append([]byte("a"), 0, 0, 0, 0, 0, 0, 0))
		case "iovr", "iovw":
			put(args[i], bytes.Join([][]byte{le32(20000), le32(32), le32(21000), le32(32)}, nil))
		case "subs":
			sub := make([]byte, 96)
			sub[16], sub[24] = 1, 1
			sub[48+16], sub[48+24] = 1, 1
			put(args[i], sub)
		}
	}
	mem.Write(0, img)
	// designated output regions
	var allowed []region
	for i, r := range it.Sig {
		v := args[i]
		switch r.R {
		case "res":
			allowed = append(allowed, region{v, v + uint64(r.K)})
		case "out":
			allowed = append(allowed, region{v, v + args[r.K-1]})
		case "evs":
			allowed = append(allowed, region{v, v + 32*args[r.K-1]})
		case "iovr":
			cnt := args[i+1]
			for j := uint64(0); j < cnt && j < 64; j++ {
				o := v + 8*j
				if o+8 > memSize {
					break
				}
				buf := uint64(img[o]) | uint64(img[o+1])<<8 | uint64(img[o+2])<<16 | uint64(img[o+3])<<24
				ln := uint64(img[o+4]) | uint64(img[o+5])<<8 | uint64(img[o+6])<<16 | uint64(img[o+7])<<24
				allowed = append(allowed, region{buf, buf + ln})
			}
		}
	}
	before := fdTypes(ctx, mod)
	mem.Write(0, img) // fdTypes used scratch space
	tuplestr := strings.Join(tuple, ",")
	dev := deviations(it, tuple)
	key := func(what string) string { return fmt.Sprintf("fn=%s;args=<%s>;post=%s", it.F, dev, what) }
	desc := fmt.Sprintf("%s %s(%s) = %v", engine, it.F, tuplestr, args)
	var ms0, ms1 runtime.MemStats
	runtime.ReadMemStats(&ms0)
	type ret struct {
		r   []uint64
		err error
	}
	done := make(chan ret, 1)
	go func() {
		r, err := mod.ExportedFunction(it.F).Call(ctx, args...)
		done <- ret{r, err}
	}()
	var out ret
	select {
	case out = <-done:
	case <-time.After(20 * time.Second):
		res.AddFail(key("Returns"), desc+": no return within 20 s")
		return
	}
	runtime.ReadMemStats(&ms1)
	if out.err != nil {
		var ee *sys.ExitError
		s := out.err.Error()
		if !errors.As(out.err, &ee) {
			what := "Outcome:error"
			if strings.Contains(s, "runtime error") {
				what = "Outcome:go-runtime-error"
			}
			res.AddFail(key(what), desc+": "+trunc(s))
			return
		}
	}
	if d := ms1.TotalAlloc - ms0.TotalAlloc; d > 32<<20 {
		res.AddFail(key("AllocBounded"), fmt.Sprintf("%s: the host allocated %d MiB during the call (guest memory: 64 KiB)", desc, d>>20))
	}
	after, _ := mem.Read(0, memSize)
	for a := uint64(0); a < memSize; a++ {
		if after[a] == img[a] {
			continue
		}
		ok := false
		for _, g := range allowed {
			if a >= g.lo && a < g.hi {
				ok = true
				break
			}
		}
		if !ok {
			res.AddFail(key("FrameCondition"), fmt.Sprintf("%s: byte %d changed (%#x -> %#x) outside the designated output regions %v", desc, a, img[a], after[a], allowed))
			break
		}
	}
	got := fdTypes(ctx, mod)
	named := map[int]bool{}
	for i, r := range it.Sig {
		if r.R == "fd" && args[i] < 10 {
			named[int(args[i])] = true
		}
	}
	newFd := -1
	for fd := 3; fd < 10; fd++ {
		if before[fd] == -1 {
			newFd = fd
			break
		}
	}
	errno := uint64(0)
	if out.err == nil && len(out.r) > 0 {
		errno = out.r[0] & 0xffffffff
	}
	for fd := 0; fd < 10; fd++ {
		if got[fd] != before[fd] && !named[fd] && !(fd == newFd && (it.F == "path_open" || it.F == "sock_accept")) {
			res.AddFail(key("TableConsistent"), fmt.Sprintf("%s: descriptor %d changed from type %d to %d although the call does not name it", desc, fd, before[fd], got[fd]))
		}
		// a call that FAILED (errno != 0) leaves every descriptor as it was, the ones it names included
		if got[fd] != before[fd] && named[fd] && errno != 0 && out.err == nil {
			res.AddFail(key("TableConsistent:failed-call"), fmt.Sprintf("%s: returned errno %d but descriptor %d changed from type %d to %d", desc, errno, fd, before[fd], got[fd]))
		}
	}
}

// deviations names the parameters that differ from the all-valid vector (the known-finding key).
func deviations(it *item, tuple []string) string {
	var d []string
	for i, r := range it.Sig {
		def := map[string]string{"fd": "file", "in": "valid", "out": "valid", "res": "valid", "iovr": "valid", "iovw": "valid", "evs": "valid", "subs": "valid",
			"len": "8", "cnt": "1", "u64": "0", "flags": "0"}[r.R]
		if r.R == "fd" && tuple[i] == "preopen" {
			continue
		}
		if tuple[i] != def {
			d = append(d, fmt.Sprintf("%d:%s=%s", i+1, r.R, tuple[i]))
		}
	}
	return strings.Join(d, ",")
}

func trunc(s string) string {
	s = strings.ReplaceAll(s, "\n", " ")
	if len(s) > 160 {
		return s[:160]
	}
	return s
}

func runItem(id int, raw json.RawMessage) common.Result {
	res := common.Result{ID: id, OK: true}
	var it item
	if err := json.Unmarshal(raw, &it); err != nil {
		res.AddFail("infra", err.Error())
		return res
	}
	ctx := context.Background()
	base, _ := os.MkdirTemp(os.Getenv("VERIF_WORK"), "ws")
	defer os.RemoveAll(base)
	n := 0
	for _, engine := range []string{"interpreter", "compiler"} {
		ee := newEngine(ctx, engine)
		// the table itself must agree with the implementation's signature
		for name, def := range ee.proxy.ExportedFunctions() {
			if name == it.F && len(def.ParamTypes()) != len(it.Sig) {
				res.AddFail("fn="+it.F+";table-arity", fmt.Sprintf("WasiSig.tla gives %s %d parameters, the implementation has %d", it.F, len(it.Sig), len(def.ParamTypes())))
				return res
			}
		}
		for _, t := range it.Tuples {
			runTuple(&res, ee, engine, &it, t, base)
			n++
		}
		ee.rt.Close(ctx)
	}
	res.Obs = map[string]int{"calls": n}
	return res
}

// Child and Main: one supervised child per function batch.
func Child(args []string) { common.ChildLoop(runItem) }

func Main(args []string) {
	lines, err := common.ReadLines(common.Arg(args, "-in", ""))
	if err != nil {
		common.Fatalf("read: %v", err)
	}
	results := common.Supervise("wasisafe-child", nil, lines, 600*time.Second, 12)
	for i := range results {
		r := &results[i]
		if !r.OK && (r.Key == "crash" || r.Key == "hang") {
			var it item
			_ = json.Unmarshal(lines[i], &it)
			msg, k := r.Msg, r.Key
			*r = common.Result{ID: r.ID}
			r.AddFail("fn="+it.F+";process-"+k, msg)
		}
		common.Emit(*r)
	}
	common.Flush()
}
