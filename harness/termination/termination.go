// Package termination assembles the guest programs of spec/Termination.tla and checks that close-on-context-done
// stops them (C07). Every run happens in a supervised child: a child that has to be killed is the violation.
package termination

import (
	"context"
	"encoding/json"
	"errors"
	"fmt"
	"sort"
	"strings"
	"time"

	"github.com/tetratelabs/wazero"
	"github.com/tetratelabs/wazero/api"
	"github.com/tetratelabs/wazero/experimental"
	"github.com/tetratelabs/wazero/internal/wasm"
	"github.com/tetratelabs/wazero/sys"
	"github.com/tetratelabs/wazero/verifharness/common"
	"github.com/tetratelabs/wazero/verifharness/wb"
)

type node struct {
	K string          `json:"k"`
	A json.RawMessage `json:"a"`
}

func (n node) target() string { var s string; _ = json.Unmarshal(n.A, &s); return s }
func (n node) index() int     { var i int; _ = json.Unmarshal(n.A, &i); return i }

type fn struct {
	Mod  string `json:"mod"`
	Body []node `json:"body"`
}

type item struct {
	Shape   string        `json:"shape"`
	Prog    map[string]fn `json:"prog"`
	Trigger string        `json:"trigger"`
	Engine  string        `json:"engine"`
}

// assemble builds the "lib" and "app" modules.
func assemble(p map[string]fn) (lib, app []byte) {
	names := make([]string, 0, len(p))
	for n := range p {
		names = append(names, n)
	}
	sort.Strings(names)
	build := func(mod string) []byte {
		m := wb.New()
		idx := map[string]uint32{}
		// imports: lib functions into app; host callbacks
		if mod == "app" {
			for _, n := range names {
				if p[n].Mod == "lib" {
					idx[n] = m.ImportFunc("lib", n, nil, nil)
				}
			}
			for _, n := range names {
				for _, nd := range p[n].Body {
					if nd.K == "host" || nd.K == "hostd" || nd.K == "hosts" {
						if _, ok := idx["host:"+nd.target()]; !ok {
							idx["host:"+nd.target()] = m.ImportFunc("host", "cb_"+nd.target(), nil, nil)
						}
					}
				}
			}
		}
		nimp := uint32(len(idx))
		var own []string
		for _, n := range names {
			if p[n].Mod == mod {
				idx[n] = nimp + uint32(len(own))
				own = append(own, n)
			}
		}
		// table with every callable function (for call_indirect)
		var tbl []wasm.Index
		slot := map[string]int{}
		for _, n := range names {
			if i, ok := idx[n]; ok {
				slot[n] = len(tbl)
				tbl = append(tbl, i)
			}
		}
		m.Table(wasm.RefTypeFuncref, uint32(len(tbl)), nil, "")
		m.Elem(wasm.ElementSegment{Mode: wasm.ElementModeActive, Type: wasm.RefTypeFuncref, OffsetExpr: wb.ConstI32(0), Init: tbl})
		tVoid := m.TypeIndex(nil, nil)
		g := m.Global(wb.I32, true, wb.ConstI32(0), "")
		for _, n := range own {
			body := []byte{}
			targets := map[int]bool{}
			for _, nd := range p[n].Body {
				if nd.K == "back" {
					targets[nd.index()] = true
				}
			}
			for i, nd := range p[n].Body {
				if targets[i+1] {
					body = append(body, wasm.OpcodeLoop, 0x40)
				}
				switch nd.K {
				case "work":
					body = append(body, wb.Cat(wb.GlobalGet(g), wb.I32Const(1), wasm.OpcodeI32Add, wb.GlobalSet(g))...)
				case "back":
					body = append(body, wb.Cat(wb.Br(0), wasm.OpcodeEnd)...)
				case "call":
					body = append(body, wb.Call(idx[nd.target()])...)
				case "calli":
					body = append(body, wb.Cat(wb.I32Const(int32(slot[nd.target()])), wb.CallIndirect(tVoid, 0))...)
				case "rcall":
					body = append(body, wb.Cat(wasm.OpcodeTailCallReturnCall, wb.U32(idx[nd.target()]))...)
				case "rcalli":
					body = append(body, wb.Cat(wb.I32Const(int32(slot[nd.target()])), wasm.OpcodeTailCallReturnCallIndirect, wb.U32(tVoid), wb.U32(0))...)
				case "host", "hostd", "hosts":
					body = append(body, wb.Call(idx["host:"+nd.target()])...)
				case "ret":
					body = append(body, wasm.OpcodeReturn)
				}
			}
			m.AddFunc(wb.Func{Body: body, Export: n})
		}
		return m.Build()
	}
	hasLib := false
	for _, f := range p {
		hasLib = hasLib || f.Mod == "lib"
	}
	if hasLib {
		lib = build("lib")
	}
	return lib, build("app")
}

func runItem(id int, raw json.RawMessage) common.Result {
	res := common.Result{ID: id, OK: true}
	var it item
	if err := json.Unmarshal(raw, &it); err != nil {
		res.AddFail("infra", err.Error())
		return res
	}
	key := func(what string) string {
		return fmt.Sprintf("engine=%s;cycle=%s;trigger=%s#%s", it.Engine, it.Shape, it.Trigger, what)
	}
	bg := context.Background()
	cfg := wazero.NewRuntimeConfigInterpreter()
	if it.Engine == "compiler" {
		cfg = wazero.NewRuntimeConfigCompiler()
	}
	cfg = cfg.WithCloseOnContextDone(true).WithCoreFeatures(api.CoreFeaturesV2 | experimental.CoreFeaturesTailCall)
	rt := wazero.NewRuntimeWithConfig(bg, cfg)
	defer rt.Close(bg)
	var app api.Module
	hb := rt.NewHostModuleBuilder("host")
	nhost := 0
	for _, f := range it.Prog {
		for _, nd := range f.Body {
			if nd.K == "host" || nd.K == "hostd" || nd.K == "hosts" {
				t, kind := nd.target(), nd.K
				hb.NewFunctionBuilder().WithFunc(func(ctx context.Context) {
					if kind == "hostd" { // the callback runs under a derived context with its own, tighter deadline
						c, cancel := context.WithTimeout(ctx, 90*time.Millisecond)
						defer cancel()
						ctx = c
					}
					_, err := app.ExportedFunction(t).Call(ctx)
					if err != nil && kind != "hosts" { // "hosts" swallows the error: its caller continues
						panic(err)
					}
				}).Export("cb_" + t)
				nhost++
			}
		}
	}
	if nhost > 0 {
		if _, err := hb.Instantiate(bg); err != nil {
			res.AddFail("infra:host", err.Error())
			return res
		}
	}
	lib, appBin := assemble(it.Prog)
	if lib != nil {
		if _, err := rt.InstantiateWithConfig(bg, lib, wazero.NewModuleConfig().WithName("lib")); err != nil {
			res.AddFail("infra:lib", err.Error())
			return res
		}
	}
	var err error
	app, err = rt.InstantiateWithConfig(bg, appBin, wazero.NewModuleConfig().WithName("app"))
	if err != nil {
		res.AddFail("infra:app", err.Error())
		return res
	}
	ctx := bg
	wantCode := uint32(0)
	custom := errors.New("custom cause")
	switch it.Trigger {
	case "deadline":
		c, cancel := context.WithTimeout(bg, 100*time.Millisecond)
		defer cancel()
		ctx, wantCode = c, sys.ExitCodeDeadlineExceeded
	case "cancel":
		c, cancel := context.WithCancel(bg)
		go func() { time.Sleep(60 * time.Millisecond); cancel() }()
		ctx, wantCode = c, sys.ExitCodeContextCanceled
	case "already-cancelled":
		c, cancel := context.WithCancel(bg)
		cancel()
		ctx, wantCode = c, sys.ExitCodeContextCanceled
	case "close":
		go func() { time.Sleep(60 * time.Millisecond); _ = app.CloseWithExitCode(bg, 7) }()
		wantCode = 7
	case "cancel-cause":
		c, cancel := context.WithCancelCause(bg)
		go func() { time.Sleep(60 * time.Millisecond); cancel(custom) }()
		ctx, wantCode = c, sys.ExitCodeContextCanceled
	case "inner-deadline": // the outer context never ends; the derived context of the host callback does
		wantCode = sys.ExitCodeDeadlineExceeded
	case "deadline-cause":
		c, cancel := context.WithTimeoutCause(bg, 100*time.Millisecond, custom)
		defer cancel()
		ctx, wantCode = c, sys.ExitCodeDeadlineExceeded
	}
	t0 := time.Now()
	_, cerr := app.ExportedFunction("main").Call(ctx)
	el := time.Since(t0)
	// reaching this point at all means the call returned (the supervisor kills a child that does not)
	var ee *sys.ExitError
	switch {
	case cerr == nil:
		res.AddFail(key("returned-without-error"), "a non-terminating guest returned normally")
	case errors.As(cerr, &ee):
		if ee.ExitCode() != wantCode {
			res.AddFail(key(fmt.Sprintf("exit-code=%d", ee.ExitCode())), fmt.Sprintf("returned exit code %d, the cause demands %d", ee.ExitCode(), wantCode))
		}
	case strings.Contains(cerr.Error(), "stack overflow"):
		// allowed for cycles that push frames
	default:
		res.AddFail(key("error-kind"), "returned "+cerr.Error())
	}
	closed := !errors.As(cerr, &ee) // only a call that ended with the exit error must leave the module closed
	for i := 0; i < 100 && !closed; i++ {
		closed = app.IsClosed()
		if !closed {
			time.Sleep(10 * time.Millisecond)
		}
	}
	if !closed {
		res.AddFail(key("module-open"), "the module is not closed after the call returned")
	}
	res.Obs = map[string]interface{}{"elapsed_ms": el.Milliseconds(), "err": fmt.Sprint(cerr)}
	return res
}

func Child(args []string) { common.ChildLoop(runItem) }

// Main is `driver run-termination -in file`.
func Main(args []string) {
	lines, err := common.ReadLines(common.Arg(args, "-in", ""))
	if err != nil {
		common.Fatalf("read: %v", err)
	}
	results := common.Supervise("termination-child", nil, lines, 8*time.Second, 14)
	for i := range results {
		r := &results[i]
		if !r.OK && (r.Key == "crash" || r.Key == "hang") {
			var it item
			_ = json.Unmarshal(lines[i], &it)
			k, msg := r.Key, r.Msg
			*r = common.Result{ID: r.ID}
			if k == "hang" {
				r.AddFail(fmt.Sprintf("engine=%s;cycle=%s#never-returns", it.Engine, it.Shape), fmt.Sprintf("%s: %s cycle, trigger %s: the call did not return within 8 s after the trigger; child killed", it.Engine, it.Shape, it.Trigger))
			} else {
				r.AddFail(fmt.Sprintf("engine=%s;cycle=%s;trigger=%s#process-died", it.Engine, it.Shape, it.Trigger), msg)
			}
		}
		common.Emit(*r)
	}
	common.Flush()
}
