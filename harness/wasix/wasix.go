// Package wasix calls WASI functions through a proxy guest: a module that imports every function of
// wasi_snapshot_preview1 and re-exports it unchanged, together with its memory.
package wasix

import (
	"context"
	"encoding/binary"
	"fmt"

	"github.com/tetratelabs/wazero"
	"github.com/tetratelabs/wazero/api"
	"github.com/tetratelabs/wazero/imports/wasi_snapshot_preview1"
	"github.com/tetratelabs/wazero/internal/testing/proxy"
	"github.com/tetratelabs/wazero/internal/wasip1"
)

type Env struct {
	Ctx context.Context
	Rt  wazero.Runtime
	Mod api.Module
	Mem api.Memory
	// CallHook, when set, replaces the call (used to plan a sequence of calls and to read back its outputs)
	CallHook func(name string, args []uint64) (uint32, error)
}

// New creates a runtime, instantiates WASI and the proxy guest configured by mc.
func New(ctx context.Context, engine string, mc wazero.ModuleConfig) (*Env, error) {
	cfg := wazero.NewRuntimeConfigInterpreter()
	if engine == "compiler" {
		cfg = wazero.NewRuntimeConfigCompiler()
	}
	return NewWithConfig(ctx, cfg, mc)
}

func NewWithConfig(ctx context.Context, cfg wazero.RuntimeConfig, mc wazero.ModuleConfig) (*Env, error) {
	rt := wazero.NewRuntimeWithConfig(ctx, cfg)
	wasiCompiled, err := wasi_snapshot_preview1.NewBuilder(rt).Compile(ctx)
	if err != nil {
		return nil, err
	}
	if _, err = rt.InstantiateModule(ctx, wasiCompiled, wazero.NewModuleConfig()); err != nil {
		return nil, err
	}
	bin := proxy.NewModuleBinary(wasi_snapshot_preview1.ModuleName, wasiCompiled)
	// the caller's ModuleConfig VALUE is used as it is (no derived copy): reusing one value for several
	// instantiations is part of what is tested
	mod, err := rt.InstantiateWithConfig(ctx, bin, mc)
	if err != nil {
		return nil, err
	}
	return &Env{Ctx: ctx, Rt: rt, Mod: mod, Mem: mod.Memory()}, nil
}

func (e *Env) Close() { _ = e.Rt.Close(e.Ctx) }

// Call invokes the WASI function; returns the errno, or an error (trap, Go runtime error, exit).
func (e *Env) Call(name string, args ...uint64) (uint32, error) {
	if e.CallHook != nil {
		return e.CallHook(name, args)
	}
	f := e.Mod.ExportedFunction(name)
	if f == nil {
		return 0, fmt.Errorf("no such WASI function %q", name)
	}
	res, err := f.Call(e.Ctx, args...)
	if err != nil {
		return 0, err
	}
	if len(res) == 0 {
		return 0, nil
	}
	return uint32(res[0]), nil
}

func Errno(e uint32) string { return wasip1.ErrnoName(e) }

func (e *Env) PutString(off uint32, s string) (uint64, uint64) {
	e.Mem.Write(off, []byte(s))
	return uint64(off), uint64(len(s))
}

func (e *Env) U32(off uint32) uint32 { v, _ := e.Mem.ReadUint32Le(off); return v }
func (e *Env) U64(off uint32) uint64 { v, _ := e.Mem.ReadUint64Le(off); return v }

// Iovec writes one iovec {buf, len} at off.
func (e *Env) Iovec(off, buf, n uint32) {
	var b [8]byte
	binary.LittleEndian.PutUint32(b[:], buf)
	binary.LittleEndian.PutUint32(b[4:], n)
	e.Mem.Write(off, b[:])
}
