package wexec

// Module-level index spaces (spec/ModuleIndex.tla): every case is built into a binary exactly as the model describes it and the
// verdict of CompileModule is compared with the model's; accepted modules are instantiated and their exports called.

import (
	"context"
	"encoding/json"
	"fmt"
	"strings"
	"time"

	"github.com/tetratelabs/wazero"
	"github.com/tetratelabs/wazero/api"
	"github.com/tetratelabs/wazero/internal/leb128"
	"github.com/tetratelabs/wazero/internal/wasm"
	"github.com/tetratelabs/wazero/verifharness/common"
	"github.com/tetratelabs/wazero/verifharness/wb"
)

type miCase struct {
	NTypes    int    `json:"ntypes"`
	ImpTypes  []int  `json:"imptypes"`
	FTypes    []int  `json:"ftypes"`
	NCode     int    `json:"ncode"`
	Table     bool   `json:"table"`
	Mem       bool   `json:"mem"`
	Glob      string `json:"glob"`
	Data      string `json:"data"`
	DataCount int    `json:"datacount"`
	Elem      struct {
		Mode string `json:"mode"`
		Tbl  int    `json:"tbl"`
		Fs   []int  `json:"fs"`
	} `json:"elem"`
	Exports []struct {
		N string `json:"n"`
		K string `json:"k"`
		I int    `json:"i"`
	} `json:"exports"`
	Start  int `json:"start"`
	Layout struct {
		K   string `json:"k"`
		Sec int    `json:"sec"`
	} `json:"layout"`
	Body struct {
		Fn int    `json:"fn"`
		K  string `json:"k"`
		I  int    `json:"i"`
		I2 int    `json:"i2"`
	} `json:"body"`
	Valid bool `json:"valid"`
}

// typeIdxOf: the declared type index of function f, or -1 when f is outside the function index space.
func (c *miCase) typeIdxOf(f int) int {
	if f < 0 {
		return -1
	}
	if f < len(c.ImpTypes) {
		return c.ImpTypes[f]
	}
	if f -= len(c.ImpTypes); f < len(c.FTypes) {
		return c.FTypes[f]
	}
	return -1
}

// pushParams / dropResults for a type index the module really defines (type 0 = []->[], type 1 = [i32]->[i32]).
func (c *miCase) pushParams(t int) []byte {
	if t == 1 && t < c.NTypes {
		return wb.I32Const(0)
	}
	return nil
}

func (c *miCase) dropResults(t int) []byte {
	if t == 1 && t < c.NTypes {
		return []byte{wasm.OpcodeDrop}
	}
	return nil
}

func (c *miCase) instr(self int) []byte {
	b := c.Body
	i, i2 := uint32(b.I), uint32(b.I2)
	zero := wb.I32Const(0)
	drop := []byte{wasm.OpcodeDrop}
	switch b.K {
	case "call":
		t := c.typeIdxOf(b.I)
		return wb.Cat(c.pushParams(t), wb.Call(i), c.dropResults(t))
	case "return_call":
		t := c.typeIdxOf(b.I)
		return wb.Cat(c.pushParams(t), []byte{wasm.OpcodeTailCallReturnCall}, wb.U32(i))
	case "call_indirect":
		return wb.Cat(c.pushParams(b.I), zero, wb.CallIndirect(i, i2), c.dropResults(b.I))
	case "return_call_indirect":
		return wb.Cat(c.pushParams(b.I), zero, []byte{wasm.OpcodeTailCallReturnCallIndirect}, wb.U32(i), wb.U32(i2))
	case "global.get":
		return wb.Cat(wb.GlobalGet(i), drop)
	case "global.set":
		return wb.Cat(zero, wb.GlobalSet(i))
	case "local.get":
		return wb.Cat(wb.LocalGet(i), drop)
	case "local.set":
		return wb.Cat(zero, wb.LocalSet(i))
	case "ref.func":
		return wb.Cat([]byte{wasm.OpcodeRefFunc}, wb.U32(i), drop)
	case "table.get":
		return wb.Cat(zero, []byte{wasm.OpcodeTableGet}, wb.U32(i), drop)
	case "table.size":
		return wb.Cat([]byte{wasm.OpcodeMiscPrefix, wasm.OpcodeMiscTableSize}, wb.U32(i), drop)
	case "memory.size":
		return wb.Cat([]byte{wasm.OpcodeMemorySize, 0}, drop)
	case "i32.load":
		return wb.Cat(zero, []byte{wasm.OpcodeI32Load}, wb.MemArg(2, 0), drop)
	case "data.drop":
		return wb.Cat([]byte{wasm.OpcodeMiscPrefix, wasm.OpcodeMiscDataDrop}, wb.U32(i))
	case "memory.init":
		return wb.Cat(zero, zero, zero, []byte{wasm.OpcodeMiscPrefix, wasm.OpcodeMiscMemoryInit}, wb.U32(i), []byte{0})
	case "elem.drop":
		return wb.Cat([]byte{wasm.OpcodeMiscPrefix, wasm.OpcodeMiscElemDrop}, wb.U32(i))
	case "table.init":
		return wb.Cat(zero, zero, zero, []byte{wasm.OpcodeMiscPrefix, wasm.OpcodeMiscTableInit}, wb.U32(i), wb.U32(i2))
	case "br":
		var res []byte
		if self == 1 && self < c.NTypes {
			res = zero
		}
		return wb.Cat([]byte{wasm.OpcodeBlock, 0x40}, res, wb.Br(i), []byte{wasm.OpcodeEnd})
	}
	return nil
}

func (c *miCase) build() []byte {
	m := wb.New()
	m.M.TypeSection = []wasm.FunctionType{{}}
	if c.NTypes > 1 {
		m.M.TypeSection = append(m.M.TypeSection, wasm.FunctionType{Params: []wasm.ValueType{wb.I32}, Results: []wasm.ValueType{wb.I32}})
	}
	for k, t := range c.ImpTypes {
		m.M.ImportSection = append(m.M.ImportSection, wasm.Import{Type: wasm.ExternTypeFunc, Module: "env", Name: fmt.Sprintf("h%d", k), DescFunc: uint32(t)})
	}
	for _, t := range c.FTypes {
		m.M.FunctionSection = append(m.M.FunctionSection, uint32(t))
	}
	for j := 0; j < c.NCode; j++ {
		self := 0
		if j < len(c.FTypes) {
			self = c.FTypes[j]
		}
		var body []byte
		if c.Body.Fn == j+1 {
			body = c.instr(self)
		}
		if self == 1 && self < c.NTypes {
			body = wb.Cat(body, wb.LocalGet(0))
		}
		m.M.CodeSection = append(m.M.CodeSection, wasm.Code{LocalTypes: []wasm.ValueType{wb.I32}, Body: append(body, wasm.OpcodeEnd)})
	}
	if c.Table {
		m.Table(wasm.RefTypeFuncref, 1, nil, "")
	}
	if c.Mem {
		one := uint32(1)
		m.Memory(1, &one, "")
	}
	switch c.Glob {
	case "const":
		m.Global(wb.I32, false, wb.ConstI32(7), "")
	case "mut":
		m.Global(wb.I32, true, wb.ConstI32(7), "")
	}
	for _, e := range c.Exports {
		t := map[string]wasm.ExternType{"func": wasm.ExternTypeFunc, "table": wasm.ExternTypeTable, "mem": wasm.ExternTypeMemory, "global": wasm.ExternTypeGlobal}[e.K]
		m.Export(e.N, t, uint32(e.I))
	}
	if c.Start >= 0 {
		m.Start(uint32(c.Start))
	}
	if c.Elem.Mode != "none" {
		seg := wasm.ElementSegment{Type: wasm.RefTypeFuncref}
		for _, f := range c.Elem.Fs {
			seg.Init = append(seg.Init, uint32(f))
		}
		if c.Elem.Mode == "active" {
			seg.Mode, seg.TableIndex, seg.OffsetExpr = wasm.ElementModeActive, uint32(c.Elem.Tbl), wb.ConstI32(0)
		} else {
			seg.Mode = wasm.ElementModePassive
		}
		m.Elem(seg)
	}
	switch c.Data {
	case "passive":
		m.M.DataSection = append(m.M.DataSection, wasm.DataSegment{Passive: true, Init: []byte("x")})
	case "active":
		m.M.DataSection = append(m.M.DataSection, wasm.DataSegment{OffsetExpression: wb.ConstI32(0), Init: []byte("x")})
	}
	if c.DataCount >= 0 {
		n := uint32(c.DataCount)
		m.M.DataCountSection = &n
	}
	return c.relayout(m.Build())
}

// relayout applies the case's layout to the encoded module: a copy of one section right after it, one section swapped
// with the one after it, or custom sections everywhere.
func (c *miCase) relayout(bin []byte) []byte {
	if c.Layout.K == "none" || c.Layout.K == "" {
		return bin
	}
	var secs [][]byte
	for p := 8; p < len(bin); {
		size, n, _ := leb128.LoadUint32(bin[p+1:])
		end := p + 1 + int(n) + int(size)
		secs = append(secs, bin[p:end])
		p = end
	}
	out := append([]byte{}, bin[:8]...)
	custom := []byte{0, 3, 1, 'x', 7}
	for i := 0; i < len(secs); i++ {
		s := secs[i]
		switch {
		case c.Layout.K == "custom":
			out = append(append(out, custom...), s...)
		case c.Layout.K == "dup" && int(s[0]) == c.Layout.Sec:
			out = append(append(out, s...), s...)
		case c.Layout.K == "move" && int(s[0]) == c.Layout.Sec && i+1 < len(secs):
			out = append(append(out, secs[i+1]...), s...)
			i++
		default:
			out = append(out, s...)
		}
	}
	if c.Layout.K == "custom" {
		out = append(out, custom...)
	}
	return out
}

// loops: executing the module would not end (a function tail-calling itself - not interruptible, the C07 finding); it is still
// compiled, and instantiated when it has no start.
func (c *miCase) loops() bool {
	self := len(c.ImpTypes) + c.Body.Fn - 1
	switch c.Body.K {
	case "return_call":
		return c.Body.I == self
	case "return_call_indirect": // table[0] is the function itself
		return c.Elem.Mode == "active" && len(c.Elem.Fs) > 0 && c.Elem.Fs[0] == self
	}
	return false
}

func modIndexOne(id int, raw json.RawMessage) common.Result {
	res := common.Result{ID: id, OK: true}
	var c miCase
	if err := json.Unmarshal(raw, &c); err != nil {
		res.AddFail("infra", err.Error())
		return res
	}
	bin := c.build()
	label := fmt.Sprintf("module-index;body=%s(%d,%d)@f%d", c.Body.K, c.Body.I, c.Body.I2, c.Body.Fn)
	if c.Layout.K != "none" && c.Layout.K != "" {
		label = "module-layout;section-order-or-multiplicity" // one cause (the decoder does not track section order), one key
		if c.Layout.K == "custom" {
			label = "module-layout;custom-sections-everywhere"
		}
	}
	internal := func(err error) bool {
		return err != nil && (strings.HasPrefix(err.Error(), "PANIC") || strings.Contains(err.Error(), "runtime error") || strings.Contains(err.Error(), "BUG"))
	}
	for _, engine := range []string{"interpreter", "compiler"} {
		cfg := wazero.NewRuntimeConfigInterpreter()
		if engine == "compiler" {
			cfg = wazero.NewRuntimeConfigCompiler()
		}
		ctx, cancel := context.WithTimeout(context.Background(), 5*time.Second)
		rt := wazero.NewRuntimeWithConfig(ctx, cfg.WithCoreFeatures(allFeatures).WithCloseOnContextDone(true))
		var cm wazero.CompiledModule
		var err error
		func() {
			defer func() {
				if r := recover(); r != nil {
					err = fmt.Errorf("PANIC: %v", r)
				}
			}()
			cm, err = rt.CompileModule(ctx, bin)
		}()
		switch {
		case internal(err):
			res.AddFail(label+";engine="+engine+"#compile-internal-failure", fmt.Sprintf("CompileModule(%x): %s", bin, trunc(err.Error())))
		case c.Valid && err != nil:
			res.AddFail(label+";engine="+engine+"#valid-rejected", fmt.Sprintf("valid by the specification's rules, rejected: %s (%x)", trunc(err.Error()), bin))
		case !c.Valid && err == nil:
			res.AddFail(label+";engine="+engine+"#invalid-accepted", fmt.Sprintf("invalid by the specification's rules (layout %s section %d), accepted (%x)", c.Layout.K, c.Layout.Sec, bin))
		}
		if err == nil && !(c.loops() && c.Start >= 0) {
			// whatever was accepted must instantiate and run without an internal failure
			func() {
				defer func() {
					if r := recover(); r != nil {
						err = fmt.Errorf("PANIC: %v", r)
					}
				}()
				hb := rt.NewHostModuleBuilder("env")
				for k := range c.ImpTypes {
					hb.NewFunctionBuilder().WithFunc(func() {}).Export(fmt.Sprintf("h%d", k))
				}
				if _, err = hb.Instantiate(ctx); err != nil {
					return
				}
				var mod api.Module
				if mod, err = rt.InstantiateModule(ctx, cm, wazero.NewModuleConfig().WithName("m")); err != nil || c.loops() {
					return
				}
				for name, def := range mod.ExportedFunctionDefinitions() {
					args := make([]uint64, len(def.ParamTypes()))
					var e error
					func() {
						defer func() {
							if r := recover(); r != nil {
								e = fmt.Errorf("PANIC: %v", r)
							}
						}()
						_, e = mod.ExportedFunction(name).Call(ctx, args...)
					}()
					if _, _, imported := def.Import(); imported && engine == "compiler" && e != nil && strings.Contains(e.Error(), "PANIC: runtime error: index out of range") {
						// one cause, one key (listed finding): an export that names an imported HOST function
						res.AddFail("engine=compiler;export-of-imported-host-function;ExportedFunction#panics",
							fmt.Sprintf("%s: module exports its import %s: api.Module.ExportedFunction panics on the compiler: %v", label, name, e))
						continue
					}
					if internal(e) {
						err = e
						return
					}
				}
			}()
			if c.Start >= 0 && c.Start < len(c.ImpTypes) && engine == "compiler" && err != nil && strings.Contains(err.Error(), "PANIC: runtime error: index out of range") {
				// the same cause through the start section (listed finding)
				res.AddFail("engine=compiler;start-is-imported-host-function;Instantiate#panics",
					fmt.Sprintf("%s: the start function is an imported host function: Instantiate panics on the compiler: %v (%x)", label, err, bin))
			} else if internal(err) {
				res.AddFail(label+";engine="+engine+"#accepted-module-internal-failure", fmt.Sprintf("%s (%x)", trunc(err.Error()), bin))
			}
		}
		rt.Close(ctx)
		cancel()
	}
	return res
}

func ChildModIndex(args []string) { common.ChildLoop(modIndexOne) }
func MainModIndex(args []string)  { supervised("wexec-modindex-child", args, "modindex") }
