// Package wexec executes generated modules: differentially on both engines (C01) and through the
// compile / instantiate / run pipeline for validity judgements and byte-level mutations (C03).
package wexec

import (
	"bytes"
	"context"
	"encoding/json"
	"fmt"
	"math"
	"math/rand"
	"runtime"
	"strings"
	"time"

	"github.com/tetratelabs/wazero"
	"github.com/tetratelabs/wazero/api"
	"github.com/tetratelabs/wazero/experimental"
	"github.com/tetratelabs/wazero/internal/leb128"
	"github.com/tetratelabs/wazero/internal/wasm"
	"github.com/tetratelabs/wazero/verifharness/common"
	"github.com/tetratelabs/wazero/verifharness/wb"
	"github.com/tetratelabs/wazero/verifharness/wgen"
)

type item struct {
	Bodies []wgen.Body `json:"bodies"`
	Seed   int64       `json:"seed"`
	Mutate int         `json:"mutate"` // C03: number of byte-level mutants to feed to CompileModule
}

var argPools = map[string][]uint64{
	"i32": {0, 1, 0xffffffff, 0x80000000, 0x7fffffff, 7, 65528, 65536, 31, 32, 65535, 65521, 65532},
	"i64": {0, 1, 0xffffffffffffffff, 0x8000000000000000, 0x7fffffffffffffff, 63, 64, 0x100000000},
	"f32": {0, 0x80000000, 0x3f800000, 0x7f800000, 0xff800000, 0x7fc00000, 0x7fa00001, 0x4f000000, 0xcf000001, 1},
	"f64": {0, 0x8000000000000000, 0x3ff0000000000000, 0x7ff0000000000000, 0x7ff8000000000000, 0x7ff4000000000001, 0x41e0000000000000, 0xc1e0000000200000, 0x43e0000000000000, 1},
}

func args(sig wgen.Sig, round int, rng *rand.Rand) []uint64 {
	var out []uint64
	for i, t := range sig.P {
		if t == "v128" {
			lo := argPools["i64"][(i+round)%len(argPools["i64"])]
			hi := argPools["f64"][(i+2*round)%len(argPools["f64"])]
			out = append(out, lo, hi)
			continue
		}
		p := argPools[t]
		if round == 0 {
			out = append(out, 0)
		} else {
			out = append(out, p[(i*3+round+rng.Intn(2))%len(p)])
		}
	}
	return out
}

func isNaN32(v uint32) bool { return v&0x7f800000 == 0x7f800000 && v&0x007fffff != 0 }
func isNaN64(v uint64) bool {
	return v&0x7ff0000000000000 == 0x7ff0000000000000 && v&0x000fffffffffffff != 0
}

// sameValue compares two raw slots of type t; NaN payloads are left open by the specification.
func sameValue(t string, a, b uint64) bool {
	switch t {
	case "i32":
		return uint32(a) == uint32(b)
	case "f32":
		return uint32(a) == uint32(b) || (isNaN32(uint32(a)) && isNaN32(uint32(b)))
	case "f64":
		return a == b || (isNaN64(a) && isNaN64(b))
	}
	return a == b
}

// sameBits64 compares 8 bytes that may hold float lanes.
func sameBits64(a, b uint64) bool {
	if a == b {
		return true
	}
	if isNaN64(a) && isNaN64(b) {
		return true
	}
	lo := uint32(a) == uint32(b) || (isNaN32(uint32(a)) && isNaN32(uint32(b)))
	hi := uint32(a>>32) == uint32(b>>32) || (isNaN32(uint32(a>>32)) && isNaN32(uint32(b>>32)))
	return lo && hi
}

func errKind(err error) string {
	if err == nil {
		return ""
	}
	s := err.Error()
	for _, k := range []string{"unreachable", "integer divide by zero", "integer overflow", "invalid conversion to integer", "out of bounds memory access",
		"invalid table access", "indirect call type mismatch", "stack overflow", "unaligned atomic"} {
		if strings.Contains(s, k) {
			return k
		}
	}
	if strings.Contains(s, "runtime error") || strings.Contains(s, "BUG") {
		return "INTERNAL:" + trunc(s)
	}
	return "other:" + trunc(s)
}

func trunc(s string) string {
	s = strings.ReplaceAll(s, "\n", " ")
	if len(s) > 140 {
		return s[:140]
	}
	return s
}

type inst struct {
	rt  wazero.Runtime
	mod api.Module
	log *[]string // host calls: name and arguments, in order
}

// features of the generated modules: everything wazero implements
const allFeatures = api.CoreFeaturesV2 | experimental.CoreFeaturesThreads | experimental.CoreFeaturesTailCall

// addHost instantiates "env": the host functions of wgen.HostPool record their calls and return values derived from the arguments.
func addHost(ctx context.Context, rt wazero.Runtime) (*[]string, error) {
	// the host functions of wgen.HostPool: they record their calls and return values derived from the arguments
	log := &[]string{}
	rec := func(name string, a ...uint64) { *log = append(*log, fmt.Sprintf("%s%x", name, a)) }
	_, err := rt.NewHostModuleBuilder("env").
		NewFunctionBuilder().WithGoFunction(api.GoFunc(func(_ context.Context, st []uint64) {
		rec("h0", uint64(uint32(st[0])), st[1])
		st[0] = st[1]*3 + uint64(uint32(st[0]))
	}), []api.ValueType{api.ValueTypeI32, api.ValueTypeI64}, []api.ValueType{api.ValueTypeI64}).Export("h0").
		NewFunctionBuilder().WithGoFunction(api.GoFunc(func(_ context.Context, st []uint64) {
		x, y := uint64(uint32(st[0])), st[1]
		if isNaN32(uint32(x)) {
			x = 0x7fc00000
		}
		if isNaN64(y) {
			y = 0x7ff8000000000000
		}
		rec("h1", x, y)
		st[0] = st[1]
	}), []api.ValueType{api.ValueTypeF32, api.ValueTypeF64}, []api.ValueType{api.ValueTypeF64}).Export("h1").
		NewFunctionBuilder().WithGoFunction(api.GoFunc(func(_ context.Context, st []uint64) {
		rec("h2", uint64(uint32(st[0])))
	}), []api.ValueType{api.ValueTypeI32}, nil).Export("h2").
		NewFunctionBuilder().WithGoFunction(api.GoFunc(func(_ context.Context, st []uint64) {
		rec("h3")
		st[0] = uint64(len(*log))
	}), nil, []api.ValueType{api.ValueTypeI32}).Export("h3").
		Instantiate(ctx)
	return log, err
}

// guardLoops makes calls interruptible (the shrinker may cut the decrement out of a counted loop).
var guardLoops bool

func newInst(ctx context.Context, engine string, bin []byte) (*inst, error) {
	cfg := wazero.NewRuntimeConfigInterpreter()
	if engine == "compiler" {
		cfg = wazero.NewRuntimeConfigCompiler()
	}
	if guardLoops {
		cfg = cfg.WithCloseOnContextDone(true)
	}
	cfg = cfg.WithCoreFeatures(allFeatures)
	rt := wazero.NewRuntimeWithConfig(ctx, cfg)
	log, err := addHost(ctx, rt)
	if err != nil {
		rt.Close(ctx)
		return nil, err
	}
	mod, err := rt.InstantiateWithConfig(ctx, bin, wazero.NewModuleConfig())
	if err != nil {
		rt.Close(ctx)
		return nil, err
	}
	return &inst{rt, mod, log}, nil
}

func opsOf(b wgen.Body) string {
	seen := map[string]bool{}
	var names []string
	for _, in := range b.Code {
		if !seen[in.Op] && len(names) < 6 && !strings.HasSuffix(in.Op, ".const") && !strings.HasPrefix(in.Op, "local.") && in.Op != "drop" && in.Op != "end" {
			seen[in.Op] = true
			names = append(names, in.Op)
		}
	}
	return strings.Join(names, ",")
}

// Diff runs one module on both engines and compares every observable after every call.
func diffOne(id int, raw json.RawMessage) (res common.Result) {
	res = common.Result{ID: id, OK: true}
	var it item
	if err := json.Unmarshal(raw, &it); err != nil {
		res.AddFail("infra", err.Error())
		return res
	}
	rng := rand.New(rand.NewSource(it.Seed))
	raws := wgen.Concretize(it.Bodies, rng)
	res = diffModule(id, wgen.AssembleRaw(raws), it, func(fi int) string { return opsOf(it.Bodies[fi]) })
	if res.OK || !wgen.HasFuzzyNaN(raws) {
		return res
	}
	for _, f := range res.Fails {
		if !strings.HasPrefix(f.Key, "diff#") {
			return res // a listed finding or an internal failure: not a matter of NaN bits
		}
	}
	// The engines may differ in the payload and sign of NaNs produced by float arithmetic (left open by the specification), and
	// the program may turn those bits into anything (extract_lane, reinterpret, stores read back as integers). Decide by the
	// variant that replaces every such NaN by the canonical one: if that agrees on both engines, the divergence is permitted.
	res2 := diffModule(id, wgen.AssembleRaw(wgen.Canonicalize(raws)), it, func(fi int) string { return opsOf(it.Bodies[fi]) })
	still := false
	for _, f := range res2.Fails {
		if strings.HasPrefix(f.Key, "diff#") {
			still = true
		}
	}
	if !still {
		obs, _ := res2.Obs.(map[string]int)
		if obs == nil {
			obs = map[string]int{}
		}
		obs["divergences-attributed-to-unspecified-NaN-bits"]++
		res2.Obs = obs
		return res2
	}
	return res
}

func diffModule(id int, m *wgen.Module, it item, ops func(int) string) (res common.Result) {
	res = common.Result{ID: id, OK: true}
	ctx := context.Background()
	if guardLoops {
		c, cancel := context.WithTimeout(ctx, 3*time.Second)
		defer cancel()
		ctx = c
	}
	a, err := newInst(ctx, "interpreter", m.Bin)
	if err != nil {
		res.AddFail("valid-module-rejected", "interpreter: "+trunc(err.Error()))
		return res
	}
	defer a.rt.Close(ctx)
	b, err := newInst(ctx, "compiler", m.Bin)
	if err != nil {
		res.AddFail("valid-module-rejected", "compiler: "+trunc(err.Error()))
		return res
	}
	defer b.rt.Close(ctx)
	arng := rand.New(rand.NewSource(it.Seed + 1))
	stats := map[string]int{}
	var known []common.Fail // divergences listed as known findings do not end the comparison
	defer func() {
		res.Obs = stats
		if len(known) > 0 {
			res.AddFail(known[0].Key, known[0].Msg)
		}
	}()
	for round := 0; round < 6; round++ {
		for fi, name := range m.Exports {
			sig := m.Sigs[fi]
			av := args(sig, round, arng)
			ra, ea := a.mod.ExportedFunction(name).Call(ctx, av...)
			rb, eb := b.mod.ExportedFunction(name).Call(ctx, av...)
			ka, kb := errKind(ea), errKind(eb)
			stats["calls"]++
			if ka != "" {
				stats["trap:"+ka]++
			}
			fail := func(what, msg string) {
				res.AddFail(fmt.Sprintf("diff#%s;ops=%s", what, ops(fi)), fmt.Sprintf("function %s%v args %x: %s", name, sig, av, msg))
			}
			if strings.HasPrefix(ka, "INTERNAL") || strings.HasPrefix(kb, "INTERNAL") {
				fail("internal-failure", fmt.Sprintf("interpreter: %q compiler: %q", ka, kb))
				return res
			}
			if ka == "stack overflow" || kb == "stack overflow" {
				continue
			}
			if ka == "unaligned atomic" && kb == "out of bounds memory access" {
				// one cause, one key: an atomic access that is both misaligned and out of bounds (the engines order the two checks
				// differently); both calls trapped, so everything else is still compared
				known = append(known, common.Fail{Key: "engine=compiler;atomic-access-misaligned-and-out-of-bounds#trap-kind=out-of-bounds",
					Msg: fmt.Sprintf("function %s%v args %x: interpreter ends with %q, compiler with %q", name, sig, av, ka, kb)})
				kb = ka
			}
			if ka != kb {
				fail("trap-kind", fmt.Sprintf("interpreter ends with %q, compiler with %q", ka, kb))
				return res
			}
			if ka == "" {
				k := 0
				for _, t := range sig.R {
					if t == "v128" {
						if !sameBits64(ra[k], rb[k]) || !sameBits64(ra[k+1], rb[k+1]) {
							fail("result", fmt.Sprintf("v128 result: interpreter %016x%016x compiler %016x%016x", ra[k+1], ra[k], rb[k+1], rb[k]))
						}
						k += 2
						continue
					}
					if !sameValue(t, ra[k], rb[k]) {
						fail("result", fmt.Sprintf("%s result: interpreter %#x compiler %#x", t, ra[k], rb[k]))
					}
					k++
				}
			}
			// globals
			for _, g := range []string{"g_i32", "g_i64", "g_f32", "g_f64"} {
				va, vb := a.mod.ExportedGlobal(g).Get(), b.mod.ExportedGlobal(g).Get()
				if !sameValue(g[2:], va, vb) {
					fail("global", fmt.Sprintf("%s: interpreter %#x compiler %#x", g, va, vb))
				}
			}
			// host calls: the same functions with the same arguments in the same order
			if la, lb := strings.Join(*a.log, " "), strings.Join(*b.log, " "); la != lb {
				fail("host-calls", fmt.Sprintf("sequences of host calls differ: interpreter [%s] compiler [%s]", trunc(la), trunc(lb)))
				return res
			}
			*a.log, *b.log = (*a.log)[:0], (*b.log)[:0]
			// tables (size and null-map of the writable ones)
			if ta, tb := a.mod.ExportedFunction("tstate"), b.mod.ExportedFunction("tstate"); ta != nil && tb != nil {
				xa, e1 := ta.Call(ctx)
				xb, e2 := tb.Call(ctx)
				if e1 != nil || e2 != nil || xa[0] != xb[0] {
					fail("tables", fmt.Sprintf("table sizes / null-maps differ: interpreter %#x (%v) compiler %#x (%v)", xa, e1, xb, e2))
					return res
				}
			}
			// memory
			ma, mb := a.mod.Memory(), b.mod.Memory()
			if ma.Size() != mb.Size() {
				fail("memory-size", fmt.Sprintf("interpreter %d compiler %d bytes", ma.Size(), mb.Size()))
				return res
			}
			ba, _ := ma.Read(0, ma.Size())
			bb, _ := mb.Read(0, mb.Size())
			if !bytes.Equal(ba, bb) {
				for o := 0; o+8 <= len(ba); o += 8 {
					x, y := leU64(ba[o:]), leU64(bb[o:])
					if !sameBits64(x, y) && !unalignedNaN(ba, bb, o) {
						fail("memory", fmt.Sprintf("byte %d.. differs: interpreter %016x compiler %016x", o, x, y))
						return res
					}
				}
			}
			if !res.OK {
				return res
			}
		}
	}
	return res
}

func leU64(b []byte) uint64 {
	var v uint64
	for i := 7; i >= 0; i-- {
		v = v<<8 | uint64(b[i])
	}
	return v
}

// unalignedNaN: a float stored at an unaligned address: accept if every differing byte lies in a 4/8-byte window that is NaN on both sides.
func unalignedNaN(a, b []byte, o int) bool {
	for s := o - 7; s <= o+7; s++ {
		if s < 0 || s+8 > len(a) {
			continue
		}
		if isNaN64(leU64(a[s:])) && isNaN64(leU64(b[s:])) && bytes.Equal(a[o:min(o+8, s)], b[o:min(o+8, s)]) {
			return true
		}
		x, y := uint32(leU64(a[s:])), uint32(leU64(b[s:]))
		if isNaN32(x) && isNaN32(y) {
			return true
		}
	}
	return false
}

func min(a, b int) int {
	if a < b {
		return a
	}
	return b
}

// compileOne: validity judgement and byte-level mutations (C03).
func compileOne(id int, raw json.RawMessage) common.Result {
	res := common.Result{ID: id, OK: true}
	var it item
	if err := json.Unmarshal(raw, &it); err != nil {
		res.AddFail("infra", err.Error())
		return res
	}
	ctx := context.Background()
	rng := rand.New(rand.NewSource(it.Seed))
	m := wgen.Assemble(it.Bodies, rng)
	bad := ""
	for _, b := range it.Bodies {
		if b.Bad != "" {
			bad = b.Bad
		}
	}
	run := func(engine string, bin []byte, label string, mustAccept, mustReject bool) {
		cfg := wazero.NewRuntimeConfigInterpreter()
		if engine == "compiler" {
			cfg = wazero.NewRuntimeConfigCompiler()
		}
		// mutated code may loop for ever: that is the guest's right; the calls below run under a deadline
		rt := wazero.NewRuntimeWithConfig(ctx, cfg.WithCloseOnContextDone(true).WithCoreFeatures(allFeatures))
		defer rt.Close(ctx)
		if _, err := addHost(ctx, rt); err != nil {
			res.AddFail("infra", "host module: "+err.Error())
			return
		}
		var ms0, ms1 runtime.MemStats
		runtime.ReadMemStats(&ms0)
		t0 := time.Now()
		var cm wazero.CompiledModule
		var err error
		func() {
			defer func() {
				if r := recover(); r != nil {
					err = fmt.Errorf("PANIC: %v", r)
				}
			}()
			cm, err = rt.CompileModule(ctx, bin)
		}()
		el := time.Since(t0)
		runtime.ReadMemStats(&ms1)
		key := func(what string) string { return fmt.Sprintf("%s;engine=%s#%s", label, engine, what) }
		if err != nil && strings.HasPrefix(err.Error(), "PANIC") {
			res.AddFail(key("compile-panics"), trunc(err.Error()))
			return
		}
		if el > 20*time.Second {
			res.AddFail(key("compile-slow"), fmt.Sprintf("CompileModule took %v for %d bytes", el, len(bin)))
		}
		if d := ms1.TotalAlloc - ms0.TotalAlloc; d > 256<<20+uint64(len(bin))*4096 {
			res.AddFail(key("compile-allocates"), fmt.Sprintf("CompileModule allocated %d MiB for %d bytes of input", d>>20, len(bin)))
		}
		if mustReject && err == nil {
			res.AddFail(key("accepted"), fmt.Sprintf("a module with %s was accepted", bad))
			return
		}
		if mustAccept && err != nil {
			res.AddFail(key("rejected"), "a module valid by construction was rejected: "+trunc(err.Error()))
			return
		}
		if err != nil {
			return
		}
		// accepted: it must instantiate and execute without an internal failure
		var mod api.Module
		func() {
			defer func() {
				if r := recover(); r != nil {
					err = fmt.Errorf("PANIC: %v", r)
				}
			}()
			mod, err = rt.InstantiateModule(ctx, cm, wazero.NewModuleConfig())
		}()
		if err != nil {
			if strings.HasPrefix(err.Error(), "PANIC") || strings.Contains(err.Error(), "runtime error") || strings.Contains(err.Error(), "BUG") {
				res.AddFail(key("instantiate-internal-failure"), trunc(err.Error()))
			}
			return
		}
		for name, def := range mod.ExportedFunctionDefinitions() {
			n := 0
			for _, t := range def.ParamTypes() {
				n++
				if t == 0x7b {
					n++
				}
			}
			cctx, cancel := context.WithTimeout(ctx, 2*time.Second)
			var err error
			func() {
				defer func() {
					if r := recover(); r != nil {
						err = fmt.Errorf("PANIC: %v", r)
					}
				}()
				_, err = mod.ExportedFunction(name).Call(cctx, make([]uint64, n)...)
			}()
			cancel()
			if _, _, imported := def.Import(); imported && engine == "compiler" && err != nil && strings.Contains(err.Error(), "PANIC: runtime error: index out of range") {
				// one cause, one key (listed finding): an export that names an imported HOST function
				res.AddFail("engine=compiler;export-of-imported-host-function;ExportedFunction#panics",
					fmt.Sprintf("%s: module exports its import %s: api.Module.ExportedFunction panics on the compiler: %v", label, name, err))
				continue
			}
			if err != nil && strings.HasPrefix(err.Error(), "PANIC") {
				res.AddFail(key("run-panics"), fmt.Sprintf("%s: %s", name, trunc(err.Error())))
				continue
			}
			if k := errKind(err); strings.HasPrefix(k, "INTERNAL") {
				res.AddFail(key("run-internal-failure"), fmt.Sprintf("%s: %s", name, k))
			}
		}
	}
	for _, engine := range []string{"interpreter", "compiler"} {
		label := "valid"
		if bad != "" {
			label = "invalid:" + strings.ReplaceAll(bad, " ", "-")
		}
		run(engine, m.Bin, label, bad == "", bad != "")
	}
	// byte-level mutations of the (valid) binary: totality only
	if bad == "" && it.Mutate > 0 {
		mr := rand.New(rand.NewSource(it.Seed + 7))
		for k := 0; k < it.Mutate; k++ {
			mut := append([]byte{}, m.Bin...)
			kind := "truncated"
			switch k % 4 {
			case 0:
				mut = mut[:mr.Intn(len(mut))]
			case 1:
				kind = "byte-flipped"
				mut[8+mr.Intn(len(mut)-8)] ^= byte(1 << mr.Intn(8))
			case 2:
				kind = "leb-inflated"
				mut[8+mr.Intn(len(mut)-8)] = 0xff
			case 3:
				kind = "byte-replaced"
				mut[8+mr.Intn(len(mut)-8)] = byte(mr.Intn(256))
			}
			run([]string{"interpreter", "compiler"}[k%2], mut, "mutant:"+kind, false, false)
		}
	}
	if bad == "" && it.Mutate > 0 {
		for k, mut := range structMutants(m.Bin) {
			run([]string{"interpreter", "compiler"}[k%2], mut, "mutant:size-field", false, false)
		}
	}
	_ = math.Pi
	return res
}

// structMutants rewrites size and count fields of the binary's structure: every section's size (-1, +1, 0), the
// code section's entry count (+1, -1) and every code entry's size field (0 .. 20 and size-1), keeping all other bytes.
func structMutants(bin []byte) [][]byte {
	var out [][]byte
	patch := func(at, oldLen int, v uint32) {
		nb := leb128.EncodeUint32(v)
		m := append(append(append([]byte{}, bin[:at]...), nb...), bin[at+oldLen:]...)
		out = append(out, m)
	}
	p := 8
	for p < len(bin) {
		id := bin[p]
		size, n, err := leb128.LoadUint32(bin[p+1:])
		if err != nil {
			break
		}
		sizeAt := p + 1
		body := sizeAt + int(n)
		if body+int(size) > len(bin) {
			break
		}
		patch(sizeAt, int(n), size-1)
		patch(sizeAt, int(n), size+1)
		patch(sizeAt, int(n), 0)
		if id == 10 { // code section
			cnt, cn, err := leb128.LoadUint32(bin[body:])
			if err == nil {
				patch(body, int(cn), cnt+1)
				if cnt > 0 {
					patch(body, int(cn), cnt-1)
				}
				q := body + int(cn)
				for e := uint32(0); e < cnt && q < body+int(size); e++ {
					es, en, err := leb128.LoadUint32(bin[q:])
					if err != nil {
						break
					}
					if e >= cnt-2 { // the generated functions come last
						for v := uint32(0); v <= 20 && v < es; v++ {
							patch(q, int(en), v)
						}
						patch(q, int(en), es-1)
						patch(q, int(en), es+1)
					}
					q += int(en) + int(es)
				}
			}
		}
		p = body + int(size)
	}
	return out
}

func ChildDiff(args []string)    { common.ChildLoop(diffOne) }
func ChildCompile(args []string) { common.ChildLoop(compileOne) }

func supervised(child string, args []string, what string) {
	lines, err := common.ReadLines(common.Arg(args, "-in", ""))
	if err != nil {
		common.Fatalf("read: %v", err)
	}
	results := common.SuperviseRetry(child, nil, lines, 120*time.Second, 14)
	for i := range results {
		r := &results[i]
		if !r.OK && (r.Key == "crash" || r.Key == "hang") {
			var it item
			_ = json.Unmarshal(lines[i], &it)
			ops := ""
			if len(it.Bodies) > 0 {
				ops = opsOf(it.Bodies[len(it.Bodies)-1])
			}
			k, msg := r.Key, r.Msg
			*r = common.Result{ID: r.ID}
			r.AddFail(fmt.Sprintf("%s#process-%s;ops=%s", what, k, ops), msg)
		}
		common.Emit(*r)
	}
	common.Flush()
}

func MainDiff(args []string)    { supervised("wexec-diff-child", args, "diff") }
func MainCompile(args []string) { supervised("wexec-compile-child", args, "compile") }

// ---------------------------------------------------------------------------------------- constant expressions

type gimp struct {
	T   string `json:"t"`
	Mut bool   `json:"mut"`
}

type ceCase struct {
	NFuncs   int    `json:"nfuncs"`
	GImports []gimp `json:"gimports"`
	Expr     struct {
		K string `json:"k"`
		I int    `json:"i"`
	} `json:"expr"`
	Ctx struct {
		C string `json:"c"`
		T string `json:"t"`
	} `json:"ctx"`
	Valid bool `json:"valid"`
}

func refOrNum(t string) wasm.ValueType {
	switch t {
	case "funcref":
		return wasm.ValueTypeFuncref
	case "externref":
		return wasm.ValueTypeExternref
	}
	return wgen.VT(t)
}

func constExprOne(id int, raw json.RawMessage) common.Result {
	res := common.Result{ID: id, OK: true}
	var c ceCase
	if err := json.Unmarshal(raw, &c); err != nil {
		res.AddFail("infra", err.Error())
		return res
	}
	ctx := context.Background()
	// provider of the imported globals
	prov := wb.New()
	for i, g := range c.GImports {
		init := wb.ConstI32(1)
		switch g.T {
		case "i64":
			init = wb.ConstI64(1)
		case "funcref":
			init = wb.ConstRefNull(wasm.RefTypeFuncref)
		}
		prov.Global(refOrNum(g.T), g.Mut, init, fmt.Sprintf("g%d", i))
	}
	m := wb.New()
	for i, g := range c.GImports {
		m.ImportGlobal("env", fmt.Sprintf("g%d", i), refOrNum(g.T), g.Mut)
	}
	one := uint32(1)
	m.Memory(1, &one, "")
	m.Table(wasm.RefTypeFuncref, 4, nil, "")
	for i := 0; i < c.NFuncs; i++ {
		m.AddFunc(wb.Func{Results: []wasm.ValueType{wb.I32}, Body: wb.I32Const(int32(i)), Export: fmt.Sprintf("f%d", i)})
	}
	var e wasm.ConstantExpression
	switch c.Expr.K {
	case "i32.const":
		e = wb.ConstI32(1)
	case "i64.const":
		e = wb.ConstI64(1)
	case "f32.const":
		e = wasm.ConstantExpression{Opcode: wasm.OpcodeF32Const, Data: []byte{0, 0, 0x80, 0x3f}}
	case "f64.const":
		e = wasm.ConstantExpression{Opcode: wasm.OpcodeF64Const, Data: []byte{0, 0, 0, 0, 0, 0, 0xf0, 0x3f}}
	case "global.get":
		e = wb.ConstGlobalGet(uint32(c.Expr.I))
	case "ref.func":
		e = wb.ConstRefFunc(uint32(c.Expr.I))
	case "ref.null":
		e = wb.ConstRefNull([]wasm.RefType{wasm.RefTypeFuncref, wasm.RefTypeExternref}[c.Expr.I])
	}
	switch c.Ctx.C {
	case "global":
		m.Global(refOrNum(c.Ctx.T), false, e, "x")
	case "data":
		m.Data(wasm.DataSegment{OffsetExpression: e, Init: []byte("x")})
	case "elem":
		m.Elem(wasm.ElementSegment{Mode: wasm.ElementModeActive, Type: wasm.RefTypeFuncref, OffsetExpr: e})
	}
	bin := m.Build()
	label := fmt.Sprintf("constexpr;ctx=%s:%s;expr=%s(%d);nfuncs=%d;gimports=%d", c.Ctx.C, c.Ctx.T, c.Expr.K, c.Expr.I, c.NFuncs, len(c.GImports))
	if len(c.GImports) > 0 && c.Expr.K == "global.get" && c.Expr.I < len(c.GImports) && c.GImports[c.Expr.I].Mut {
		label += ";mutable"
	}
	for _, engine := range []string{"interpreter", "compiler"} {
		cfg := wazero.NewRuntimeConfigInterpreter()
		if engine == "compiler" {
			cfg = wazero.NewRuntimeConfigCompiler()
		}
		rt := wazero.NewRuntimeWithConfig(ctx, cfg)
		if len(c.GImports) > 0 {
			if _, err := rt.InstantiateWithConfig(ctx, prov.Build(), wazero.NewModuleConfig().WithName("env")); err != nil {
				res.AddFail("infra:provider", err.Error())
				rt.Close(ctx)
				continue
			}
		}
		var err error
		func() {
			defer func() {
				if r := recover(); r != nil {
					err = fmt.Errorf("PANIC: %v", r)
				}
			}()
			_, err = rt.InstantiateWithConfig(ctx, bin, wazero.NewModuleConfig().WithName("m"))
		}()
		switch {
		case err != nil && (strings.HasPrefix(err.Error(), "PANIC") || strings.Contains(err.Error(), "runtime error")):
			res.AddFail(label+";engine="+engine+"#internal-failure", trunc(err.Error()))
		case c.Valid && err != nil:
			res.AddFail(label+";engine="+engine+"#valid-rejected", "valid by the specification's rules, rejected: "+trunc(err.Error()))
		case !c.Valid && err == nil:
			res.AddFail(label+";engine="+engine+"#invalid-accepted", "invalid by the specification's rules, accepted and instantiated")
		}
		rt.Close(ctx)
	}
	return res
}

func ChildConstExpr(args []string) { common.ChildLoop(constExprOne) }
func MainConstExpr(args []string)  { supervised("wexec-constexpr-child", args, "constexpr") }
