package wexec

import (
	"encoding/json"
	"fmt"
	"math/rand"
	"os"
	"strings"

	"github.com/tetratelabs/wazero/verifharness/common"
	"github.com/tetratelabs/wazero/verifharness/wgen"
)

// diffRaw runs concretised bodies on both engines; returns the kind of the first divergence ("" = none, "invalid" = rejected).
func diffRaw(raws []wgen.RawBody, seed int64) (string, string) {
	m := wgen.AssembleRaw(raws)
	var it item
	it.Seed = seed
	res := diffModule(0, m, it, func(fi int) string { return "" })
	if res.OK {
		return "", ""
	}
	k := res.Key
	if i := strings.Index(k, ";"); i >= 0 {
		k = k[:i]
	}
	if strings.HasPrefix(k, "valid-module-rejected") {
		return "invalid", res.Msg
	}
	return k, res.Msg
}

// Shrink is `driver wexec-shrink -in replay.json`: a triage aid, delta debugging over encoded instructions.
func Shrink(args []string) {
	raw, err := os.ReadFile(common.Arg(args, "-in", ""))
	if err != nil {
		common.Fatalf("read: %v", err)
	}
	var rep struct {
		Replay item `json:"replay"`
	}
	if err := json.Unmarshal(raw, &rep); err != nil {
		common.Fatalf("json: %v", err)
	}
	it := rep.Replay
	guardLoops = true
	raws := wgen.Concretize(it.Bodies, rand.New(rand.NewSource(it.Seed)))
	want, msg := diffRaw(raws, it.Seed)
	fmt.Println("original:", want, msg)
	show := func() {
		for fi, r := range raws {
			fmt.Printf("f%d %v -> %v\n", fi, r.Params, r.Results)
			for i, n := range r.Names {
				fmt.Printf("   %-28s % x\n", n, r.Instrs[i])
			}
		}
	}
	if want == "" || want == "invalid" {
		show()
		return
	}
	try := func(cand []wgen.RawBody) bool {
		defer func() { recover() }()
		k, m := diffRaw(cand, it.Seed)
		return k == want && !strings.Contains(m, "module closed") && !strings.Contains(m, "deadline")
	}
	clone := func() []wgen.RawBody {
		out := make([]wgen.RawBody, len(raws))
		for i, r := range raws {
			out[i] = r
			out[i].Instrs = append([][]byte{}, r.Instrs...)
			out[i].Names = append([]string{}, r.Names...)
		}
		return out
	}
	for changed := true; changed; {
		changed = false
		for fi := range raws {
			for size := len(raws[fi].Instrs) / 2; size >= 1; size /= 2 {
				for lo := 0; lo+size <= len(raws[fi].Instrs); {
					c := clone()
					c[fi].Instrs = append(c[fi].Instrs[:lo:lo], c[fi].Instrs[lo+size:]...)
					c[fi].Names = append(c[fi].Names[:lo:lo], c[fi].Names[lo+size:]...)
					if try(c) {
						raws = c
						changed = true
					} else {
						lo++
					}
				}
			}
		}
	}
	_, msg = diffRaw(raws, it.Seed)
	fmt.Println("minimal:", want, msg)
	for fi, r := range raws {
		fmt.Printf("f%d %v -> %v\n", fi, r.Params, r.Results)
		for i, n := range r.Names {
			fmt.Printf("   %-28s % x\n", n, r.Instrs[i])
		}
	}
}
