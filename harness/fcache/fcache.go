// Package fcache binds spec/FileCache.tla to wazero's on-disk compilation cache (C13).
package fcache

import (
	"bytes"
	"context"
	"encoding/hex"
	"encoding/json"
	"fmt"
	"math/rand"
	"os"
	"os/exec"
	"path/filepath"
	"runtime"
	"strconv"
	"strings"
	"sync"
	"time"

	"github.com/tetratelabs/wazero"
	"github.com/tetratelabs/wazero/internal/filecache"
	"github.com/tetratelabs/wazero/internal/leb128"
	"github.com/tetratelabs/wazero/internal/testing/dwarftestdata"
	"github.com/tetratelabs/wazero/internal/wasm"
	"github.com/tetratelabs/wazero/verifharness/common"
	"github.com/tetratelabs/wazero/verifharness/wb"
)

// module k1: 3 functions; k2: 40 functions; k3: 12 functions with loops. run(x) sums all of them.
// debugSections returns the .debug_* custom sections of a real binary with DWARF line information.
func debugSections() []byte {
	bin := dwarftestdata.ZigWasm
	var out []byte
	for p := 8; p < len(bin); {
		id := bin[p]
		size, n, err := leb128.LoadUint32(bin[p+1:])
		if err != nil {
			break
		}
		end := p + 1 + int(n) + int(size)
		if id == 0 {
			nameLen, m, _ := leb128.LoadUint32(bin[p+1+int(n):])
			name := string(bin[p+1+int(n)+int(m) : p+1+int(n)+int(m)+int(nameLen)])
			if strings.HasPrefix(name, ".debug_") {
				out = append(out, bin[p:end]...)
			}
		}
		p = end
	}
	return out
}

func moduleBytes(k string) []byte {
	if k == "k4" { // k1 with DWARF sections: the compiled entry then carries a source map (and ends with it)
		return append(moduleBytes("k1"), debugSections()...)
	}
	n := 3
	if k == "k2" {
		n = 40
	}
	if k == "k3" {
		n = 12
	}
	m := wb.New()
	var run []byte
	for i := 0; i < n; i++ {
		body := wb.Cat(wb.LocalGet(0), wb.I32Const(int32(i+3)), wasm.OpcodeI32Mul, wb.I32Const(int32(i)), wasm.OpcodeI32Add)
		if k == "k3" { // some control flow and a loop so that the function bodies are bigger
			body = wb.Cat(wb.LocalGet(0), wb.I32Const(int32(i+3)), wasm.OpcodeI32Mul, wb.I32Const(int32(i)), wasm.OpcodeI32Add,
				wb.LocalSet(1),
				wasm.OpcodeBlock, 0x40, wasm.OpcodeLoop, 0x40,
				wb.LocalGet(1), wb.I32Const(1), wasm.OpcodeI32Add, wb.LocalTee(1), wb.I32Const(1000), wasm.OpcodeI32GeU, wb.BrIf(1),
				wb.Br(0), wasm.OpcodeEnd, wasm.OpcodeEnd, wb.LocalGet(1))
		}
		m.AddFunc(wb.Func{Params: []wasm.ValueType{wb.I32}, Results: []wasm.ValueType{wb.I32}, Locals: []wasm.ValueType{wb.I32}, Body: body})
		run = append(run, wb.Cat(wb.LocalGet(0), wb.Call(uint32(i)))...)
		if i > 0 {
			run = append(run, wasm.OpcodeI32Add)
		}
	}
	m.AddFunc(wb.Func{Params: []wasm.ValueType{wb.I32}, Results: []wasm.ValueType{wb.I32}, Body: run, Export: "run"})
	return m.Build()
}

var expectCache = map[string]uint64{}

// expected result of run(7): what the interpreter (which has no cache) computes.
func expected(k string) uint64 {
	if v, ok := expectCache[k]; ok {
		return v
	}
	ctx := context.Background()
	rt := wazero.NewRuntimeWithConfig(ctx, wazero.NewRuntimeConfigInterpreter())
	defer rt.Close(ctx)
	mod, err := rt.Instantiate(ctx, moduleBytes(k))
	if err != nil {
		common.Fatalf("oracle instantiate: %v", err)
	}
	res, err := mod.ExportedFunction("run").Call(ctx, 7)
	if err != nil {
		common.Fatalf("oracle run: %v", err)
	}
	expectCache[k] = res[0]
	return res[0]
}

type outcome struct {
	Compile string `json:"compile"` // ok | err:<text> | panic:<text>
	Result  string `json:"result"`  // decimal | err:<text> | panic
	Correct bool   `json:"correct"`
}

// compileAndRun compiles module k with a cache directory and runs it.
func compileAndRun(dir, k string) (out outcome) {
	defer func() {
		if r := recover(); r != nil {
			if out.Compile == "" {
				out.Compile = fmt.Sprintf("panic:%v", r)
			} else {
				out.Result = fmt.Sprintf("panic:%v", r)
			}
		}
	}()
	ctx := context.Background()
	bin, expect := moduleBytes(k), expected(k)
	cache, err := wazero.NewCompilationCacheWithDir(dir)
	if err != nil {
		out.Compile = "err:cache:" + err.Error()
		return
	}
	defer cache.Close(ctx)
	rt := wazero.NewRuntimeWithConfig(ctx, wazero.NewRuntimeConfigCompiler().WithCompilationCache(cache))
	defer rt.Close(ctx)
	cm, err := rt.CompileModule(ctx, bin)
	if err != nil {
		out.Compile = "err:" + err.Error()
		return
	}
	out.Compile = "ok"
	mod, err := rt.InstantiateModule(ctx, cm, wazero.NewModuleConfig().WithName(""))
	if err != nil {
		out.Result = "err:" + err.Error()
		return
	}
	res, err := mod.ExportedFunction("run").Call(ctx, 7)
	if err != nil {
		out.Result = "err:" + err.Error()
		return
	}
	out.Result = strconv.FormatUint(res[0], 10)
	out.Correct = res[0] == expect
	return
}

// Child is `driver fc-child -dir D -mod K`; crash points come from the environment.
func Child(args []string) {
	o := compileAndRun(common.Arg(args, "-dir", ""), common.Arg(args, "-mod", "k1"))
	common.Emit(o)
	common.Flush()
}

func runChild(dir, k string, env ...string) (o outcome, exit int, stderr string) {
	cmd := exec.Command(os.Args[0], "fc-child", "-dir", dir, "-mod", k)
	cmd.Env = append(os.Environ(), env...)
	var so, se bytes.Buffer
	cmd.Stdout, cmd.Stderr = &so, &se
	done := make(chan error, 1)
	if err := cmd.Start(); err != nil {
		return o, -1, err.Error()
	}
	go func() { done <- cmd.Wait() }()
	select {
	case <-done:
	case <-time.After(60 * time.Second):
		_ = cmd.Process.Kill()
		<-done
		return o, -2, "timeout"
	}
	exit = cmd.ProcessState.ExitCode()
	_ = json.Unmarshal(bytes.TrimSpace(so.Bytes()), &o)
	return o, exit, se.String()
}

// entries lists the cache directory: final entries (name -> content) and temp files.
func entries(dir string) (final map[string][]byte, temps []string) {
	final = map[string][]byte{}
	_ = filepath.Walk(dir, func(p string, info os.FileInfo, err error) error {
		if err != nil || info.IsDir() {
			return nil
		}
		if strings.HasSuffix(p, ".tmp") {
			temps = append(temps, p)
			return nil
		}
		b, _ := os.ReadFile(p)
		final[p] = b
		return nil
	})
	return
}

// reference compiles module k in a scratch directory (in a child process) and returns (relative path, bytes).
func reference(base, k string) (string, []byte) {
	dir := filepath.Join(base, "ref-"+k)
	_ = os.RemoveAll(dir)
	_ = os.MkdirAll(dir, 0o755)
	o, exit, se := runChild(dir, k)
	if exit != 0 || o.Compile != "ok" || !o.Correct {
		common.Fatalf("reference compile of %s failed: %+v exit=%d %s", k, o, exit, se)
	}
	fin, _ := entries(dir)
	if len(fin) != 1 {
		common.Fatalf("reference compile of %s left %d entries", k, len(fin))
	}
	for p, b := range fin {
		rel, _ := filepath.Rel(dir, p)
		return rel, b
	}
	return "", nil
}

// ---------------------------------------------------------------------------------- process replay

type hstep struct {
	A       string `json:"a"`
	W       string `json:"w"`
	At      string `json:"at"`
	Written int    `json:"written"`
	Key     string `json:"key"`
	Res     string `json:"res"`
}

type behaviour struct {
	Hist  []hstep           `json:"hist"`
	Final map[string]string `json:"final"`
	N     int               `json:"n"`
}

// crashPoint maps the model's crash state to a hook point.
func crashPoint(s hstep, n, size int) string {
	switch s.At {
	case "writing":
		if s.Written == 0 {
			return "after-create"
		}
		if s.Written >= n {
			return "after-copy"
		}
		return fmt.Sprintf("mid-copy:%d", (size*s.Written)/n)
	case "synced":
		return "after-sync"
	case "closed":
		return "after-close"
	}
	return "?"
}

func checkDir(res *common.Result, key string, dir, rel string, ref []byte, want string) {
	fin, _ := entries(dir)
	b, ok := fin[filepath.Join(dir, rel)]
	got := "absent"
	if ok {
		got = "partial"
		if bytes.Equal(b, ref) {
			got = "complete"
		}
	}
	if len(fin) > 1 || (len(fin) == 1 && !ok) {
		res.AddFail(key+"#unexpected-entry", fmt.Sprintf("cache directory holds unexpected final entries: %d", len(fin)))
	}
	if got != want {
		res.AddFail(key+"#final="+got, fmt.Sprintf("entry under the final name is %s (%d bytes of %d), the model says %s", got, len(b), len(ref), want))
	}
}

// ReplayProc is `driver fc-replay -in file`: single-writer histories with real processes.
func ReplayProc(args []string) {
	lines, err := common.ReadLines(common.Arg(args, "-in", ""))
	if err != nil {
		common.Fatalf("read: %v", err)
	}
	base, _ := os.MkdirTemp(os.Getenv("VERIF_WORK"), "fc")
	defer os.RemoveAll(base)
	refs := map[string][]byte{}
	rels := map[string]string{}
	for _, k := range []string{"k1", "k3"} {
		rels[k], refs[k] = reference(base, k)
	}
	for id, l := range lines {
		var b behaviour
		if err := json.Unmarshal(l, &b); err != nil {
			common.Fatalf("behaviour %d: %v", id, err)
		}
		res := common.Result{ID: id, OK: true}
		for _, k := range []string{"k1", "k3"} {
			dir := filepath.Join(base, fmt.Sprintf("h%d-%s", id, k))
			_ = os.MkdirAll(dir, 0o755)
			// the writer's steps are one process; where it crashes is given by the crash step (if any)
			crash := ""
			nw := 0
			for _, s := range b.Hist {
				if s.A == "write" {
					nw++
				}
			}
			key := "writer"
			wrote := false
			readBefore := false
			for _, s := range b.Hist {
				switch s.A {
				case "create":
					if wrote {
						continue
					}
					wrote = true
					for _, c := range b.Hist {
						if c.A == "crash" {
							crash = crashPoint(c, b.N, len(refs[k]))
						}
					}
					env := []string{}
					if crash != "" {
						env = append(env, "VERIF_FC_CRASH="+crash)
						key = "crash@" + strings.Split(crash, ":")[0]
					}
					o, exit, se := runChild(dir, k, env...)
					if crash != "" && exit != 77 && readBefore {
						// the reader already added the entry: this writer hits the cache and never calls Add
					} else if crash != "" && exit != 77 {
						res.AddFail(key+"#crash-point-not-reached", fmt.Sprintf("crash point %s was not reached (exit %d) %s", crash, exit, se))
					}
					if crash == "" && (exit != 0 || o.Compile != "ok" || !o.Correct) {
						res.AddFail(key+"#writer-failed", fmt.Sprintf("writer process failed: %+v exit=%d %.300s", o, exit, se))
					}
				case "read":
					if !wrote {
						readBefore = true
					}
					o, exit, se := runChild(dir, k)
					switch {
					case exit != 0:
						res.AddFail(key+";read#process-died", fmt.Sprintf("reader process died (exit %d): %.400s", exit, se))
					case s.Res == "reject" && o.Compile == "ok":
						res.AddFail(key+";read#accepted-partial", "an incomplete entry was accepted")
					case s.Res != "reject" && o.Compile != "ok":
						res.AddFail(key+";read#"+trunc(o.Compile), fmt.Sprintf("reader could not compile although the model says %s: %s", s.Res, o.Compile))
					case o.Compile == "ok" && !o.Correct:
						res.AddFail(key+";read#wrong-result", fmt.Sprintf("module compiled from the cache directory computes %s", o.Result))
					}
				}
			}
			checkDir(&res, key, dir, rels[k], refs[k], b.Final["k1"])
			_ = os.RemoveAll(dir)
		}
		common.Emit(res)
	}
	common.Flush()
}

func trunc(s string) string {
	s = strings.Map(func(r rune) rune {
		if r == ' ' || r == '\n' {
			return '_'
		}
		return r
	}, s)
	if len(s) > 40 {
		s = s[:40]
	}
	return s
}

// ---------------------------------------------------------------------------------- gate replay

func goid() int64 {
	var buf [64]byte
	n := runtime.Stack(buf[:], false)
	s := buf[len("goroutine "):n]
	i := bytes.IndexByte(s, ' ')
	id, _ := strconv.ParseInt(string(s[:i]), 10, 64)
	return id
}

type gwriter struct {
	reached chan string
	release chan struct{}
	done    chan error
}

// ReplayGate is `driver fc-gate -in file`: two writers of one key, interleaved step by step in-process.
func ReplayGate(args []string) {
	lines, err := common.ReadLines(common.Arg(args, "-in", ""))
	if err != nil {
		common.Fatalf("read: %v", err)
	}
	base, _ := os.MkdirTemp(os.Getenv("VERIF_WORK"), "fcg")
	defer os.RemoveAll(base)
	rel, ref := reference(base, "k1")
	var key filecache.Key
	kb, err := hex.DecodeString(filepath.Base(rel))
	if err != nil || len(kb) != len(key) {
		common.Fatalf("unexpected entry name %q", rel)
	}
	copy(key[:], kb)
	var mu sync.Mutex
	writers := map[int64]*gwriter{}
	stopAt := map[string]bool{"after-create": true, "after-copy": true, "after-sync": true, "after-close": true, "after-rename": true}
	filecache.VerifHook = func(point string) {
		mu.Lock()
		w := writers[goid()]
		mu.Unlock()
		if w == nil || !stopAt[point] {
			return
		}
		w.reached <- point
		<-w.release
	}
	defer func() { filecache.VerifHook = nil }()
	want := map[string]string{"create": "after-create", "write": "after-copy", "sync": "after-sync", "close": "after-close", "rename": "after-rename"}
	for id, l := range lines {
		var b behaviour
		if err := json.Unmarshal(l, &b); err != nil {
			common.Fatalf("behaviour %d: %v", id, err)
		}
		res := common.Result{ID: id, OK: true}
		dir := filepath.Join(base, fmt.Sprintf("g%d", id))
		sub := filepath.Join(dir, filepath.Dir(rel))
		_ = os.MkdirAll(sub, 0o755)
		fc := filecache.New(sub)
		ws := map[string]*gwriter{}
		norm := ""
		for si, s := range b.Hist {
			norm += s.A[:2] + s.W + ";"
			switch s.A {
			case "create":
				w := &gwriter{reached: make(chan string, 1), release: make(chan struct{}), done: make(chan error, 1)}
				ws[s.W] = w
				started := make(chan struct{})
				go func() {
					mu.Lock()
					writers[goid()] = w
					mu.Unlock()
					close(started)
					w.done <- fc.Add(key, bytes.NewReader(ref))
				}()
				<-started
				if p := waitPoint(w); p != "after-create" {
					res.AddFail("gate#order:"+p, fmt.Sprintf("step %d: writer %s reached %q instead of after-create", si, s.W, p))
				}
			case "write", "sync", "close", "rename":
				w := ws[s.W]
				w.release <- struct{}{}
				if p := waitPoint(w); p != want[s.A] {
					res.AddFail("gate#order:"+p, fmt.Sprintf("step %d: after releasing writer %s for %q it reached %q", si, s.W, s.A, p))
				}
				if s.A == "rename" {
					w.release <- struct{}{}
					if err := <-w.done; err != nil {
						res.AddFail("gate#add-error", fmt.Sprintf("writer %s: Add returned %v", s.W, err))
					}
				}
			case "crash":
				// the goroutine stays blocked at its current point for ever: same directory effect as a dead process
			case "read":
				o := compileAndRun(dir, "k1")
				switch {
				case s.Res == "reject" && o.Compile == "ok":
					res.AddFail("gate;read#accepted-partial", "an incomplete entry was accepted")
				case s.Res != "reject" && o.Compile != "ok":
					res.AddFail("gate;read#"+trunc(o.Compile), fmt.Sprintf("history %s: reader could not compile although the model says %s: %s", norm, s.Res, o.Compile))
				case o.Compile == "ok" && !o.Correct:
					res.AddFail("gate;read#wrong-result", fmt.Sprintf("history %s: module compiled from the cache directory computes %s", norm, o.Result))
				}
			}
			if !res.OK {
				break
			}
		}
		if res.OK {
			checkDir(&res, "gate", dir, rel, ref, b.Final["k1"])
			if !res.OK {
				res.Msg = "history " + norm + ": " + res.Msg
			}
		}
		mu.Lock()
		for g, w := range writers {
			for _, mine := range ws {
				if w == mine {
					delete(writers, g)
				}
			}
		}
		mu.Unlock()
		common.Emit(res)
		_ = os.RemoveAll(dir)
	}
	common.Flush()
}

func waitPoint(w *gwriter) string {
	select {
	case p := <-w.reached:
		return p
	case err := <-w.done:
		w.done <- err
		return fmt.Sprintf("returned(%v)", err)
	case <-time.After(20 * time.Second):
		return "timeout"
	}
}

// ---------------------------------------------------------------------------------- truncation, versions

// Trunc is `driver fc-trunc [-stride n]`: every truncation length and version edits of real entries.
func Trunc(args []string) {
	base, _ := os.MkdirTemp(os.Getenv("VERIF_WORK"), "fct")
	defer os.RemoveAll(base)
	stride, _ := strconv.Atoi(common.Arg(args, "-stride", "1"))
	id := 0
	for _, k := range []string{"k1", "k3", "k4"} {
		rel, ref := reference(base, k)
		try := func(name string, content []byte, wantFresh bool) {
			res := common.Result{ID: id, OK: true}
			id++
			dir := filepath.Join(base, "t")
			_ = os.RemoveAll(dir)
			_ = os.MkdirAll(filepath.Join(dir, filepath.Dir(rel)), 0o755)
			_ = os.WriteFile(filepath.Join(dir, rel), content, 0o644)
			o, exit, se := runChild(dir, k)
			switch {
			case exit != 0:
				res.AddFail(name+"#process-died", fmt.Sprintf("%s of %s: process died (exit %d): %.300s", name, k, exit, se))
			case strings.HasPrefix(o.Compile, "panic"):
				res.AddFail(name+"#panic", fmt.Sprintf("%s of %s: %s", name, k, o.Compile))
			case o.Compile == "ok" && !o.Correct:
				res.AddFail(name+"#executed", fmt.Sprintf("%s of %s was accepted and the module computes %s", name, k, o.Result))
			case o.Compile == "ok":
				// accepted: then the bad entry must have been discarded and replaced by a complete one
				fin, _ := entries(dir)
				if b, ok := fin[filepath.Join(dir, rel)]; ok && !bytes.Equal(b, ref) {
					res.AddFail(name+"#kept", fmt.Sprintf("%s of %s: compile succeeded but the bad entry is still under the final name", name, k))
				}
			case wantFresh:
				res.AddFail(name+"#not-recompiled", fmt.Sprintf("%s of %s: expected discard and fresh compilation, got %s", name, k, o.Compile))
			}
			res.Obs = map[string]string{"case": name, "compile": trunc(o.Compile)}
			common.Emit(res)
		}
		for n := 0; n < len(ref); n += stride {
			region := "truncated"
			if k == "k4" && n < len(ref)-96 && n%29 != 0 { // the entry with a source map: every length near the end, a stride elsewhere
				continue
			}
			try(region, ref[:n], false)
		}
		// version edits: header is magic(6) | len(1) | version | ...
		vlen := int(ref[6])
		edit := func(f func(b []byte) []byte) []byte { return f(append([]byte{}, ref...)) }
		try("version-changed", edit(func(b []byte) []byte { b[7] ^= 0x01; return b }), true)
		try("version-last-char", edit(func(b []byte) []byte { b[6+vlen] ^= 0x01; return b }), true)
		try("version-shorter", edit(func(b []byte) []byte { b[6] = byte(vlen - 1); return append(b[:7+vlen-1], b[7+vlen:]...) }), true)
		try("version-longer", edit(func(b []byte) []byte {
			b[6] = byte(vlen + 1)
			return append(b[:7+vlen], append([]byte{'x'}, b[7+vlen:]...)...)
		}), true)
		try("version-len-huge", edit(func(b []byte) []byte { b[6] = 255; return b }), true)
		try("empty", []byte{}, false)
	}
	common.Flush()
}

// ---------------------------------------------------------------------------------- determinism

// Determinism is `driver fc-det -n N`: the same module compiled in N fresh processes under different
// scheduling conditions yields byte-identical entries under the same name.
func Determinism(args []string) {
	n, _ := strconv.Atoi(common.Arg(args, "-n", "4"))
	base, _ := os.MkdirTemp(os.Getenv("VERIF_WORK"), "fcd")
	defer os.RemoveAll(base)
	id := 0
	for _, k := range []string{"k1", "k2", "k3", "k4"} {
		res := common.Result{ID: id, OK: true}
		id++
		rel0, ref0 := reference(base, k)
		for i := 0; i < n; i++ {
			dir := filepath.Join(base, fmt.Sprintf("d-%s-%d", k, i))
			_ = os.MkdirAll(dir, 0o755)
			env := []string{fmt.Sprintf("GOMAXPROCS=%d", []int{1, 2, 16, 5}[i%4])}
			if i%2 == 1 { // compile another module first ("after other modules")
				runChild(dir, map[string]string{"k1": "k2", "k2": "k3", "k3": "k1"}[k], env...)
			}
			o, exit, se := runChild(dir, k, env...)
			if exit != 0 || o.Compile != "ok" || !o.Correct {
				res.AddFail("determinism#compile-failed", fmt.Sprintf("%s: %+v exit=%d %.200s", k, o, exit, se))
				continue
			}
			fin, _ := entries(dir)
			b, ok := fin[filepath.Join(dir, rel0)]
			if !ok {
				res.AddFail("determinism#name", fmt.Sprintf("%s: entry name differs between processes", k))
			} else if !bytes.Equal(b, ref0) {
				res.AddFail("determinism#bytes", fmt.Sprintf("%s: entry bytes differ between processes (%d vs %d bytes)", k, len(b), len(ref0)))
			}
		}
		common.Emit(res)
	}
	common.Flush()
}

// ConcurrentModules is `driver fc-conc -rounds N`: DIFFERENT modules compiled concurrently by one process into one cache
// directory; every entry must be byte-identical to the one a lone compilation of its module produces (determinism also
// means: what is stored under a module's key is that module's code). The hook at "after-create" delays the copy a little
// so that serialisation of one module and the writing of another overlap.
func ConcurrentModules(args []string) {
	rounds, _ := strconv.Atoi(common.Arg(args, "-rounds", "25"))
	base, _ := os.MkdirTemp(os.Getenv("VERIF_WORK"), "fcc")
	defer os.RemoveAll(base)
	keys := []string{"k1", "k2", "k3", "k4"}
	refs := map[string][]byte{}
	rels := map[string]string{}
	for _, k := range keys {
		rels[k], refs[k] = reference(base, k)
	}
	filecache.VerifHook = func(point string) {
		if point == "after-create" {
			time.Sleep(time.Duration(200+rand.Intn(1800)) * time.Microsecond)
		}
	}
	defer func() { filecache.VerifHook = nil }()
	res := common.Result{ID: 0, OK: true}
	ctx := context.Background()
	for r := 0; r < rounds; r++ {
		dir := filepath.Join(base, fmt.Sprintf("c%d", r))
		_ = os.MkdirAll(dir, 0o755)
		cache, err := wazero.NewCompilationCacheWithDir(dir)
		if err != nil {
			common.Fatalf("cache: %v", err)
		}
		rt := wazero.NewRuntimeWithConfig(ctx, wazero.NewRuntimeConfigCompiler().WithCompilationCache(cache))
		var wg sync.WaitGroup
		var mu sync.Mutex
		for rep := 0; rep < 2; rep++ {
			for _, k := range keys {
				wg.Add(1)
				go func(k string) {
					defer wg.Done()
					if _, err := rt.CompileModule(ctx, moduleBytes(k)); err != nil {
						mu.Lock()
						res.AddFail("concurrent-modules#compile", k+": "+err.Error())
						mu.Unlock()
					}
				}(k)
			}
		}
		wg.Wait()
		rt.Close(ctx)
		cache.Close(ctx)
		fin, _ := entries(dir)
		for _, k := range keys {
			b, ok := fin[filepath.Join(dir, rels[k])]
			if !ok {
				res.AddFail("concurrent-modules#missing", fmt.Sprintf("round %d: no entry for %s", r, k))
			} else if !bytes.Equal(b, refs[k]) {
				other := "none of the modules"
				for _, k2 := range keys {
					if bytes.Equal(b, refs[k2]) {
						other = k2
					}
				}
				res.AddFail("concurrent-modules#bytes", fmt.Sprintf("round %d: the entry under the key of %s differs from a lone compilation of %s (%d vs %d bytes; it equals the entry of %s)", r, k, k, len(b), len(refs[k]), other))
			}
		}
	}
	common.Emit(res)
	common.Flush()
}

// TracePoints is `driver fc-points -out file`: records the order of hook points of one real Add.
func TracePoints(args []string) {
	base, _ := os.MkdirTemp(os.Getenv("VERIF_WORK"), "fcp")
	defer os.RemoveAll(base)
	out := common.Arg(args, "-out", "points.ndjson")
	var all bytes.Buffer
	for i, k := range []string{"k1", "k3", "k2"} {
		tf := filepath.Join(base, "trace-"+k)
		dir := filepath.Join(base, "p-"+k)
		_ = os.MkdirAll(dir, 0o755)
		_, exit, se := runChild(dir, k, "VERIF_FC_TRACE="+tf, "VERIF_FC_CRASH=mid-copy:1000000000")
		if exit != 0 {
			common.Fatalf("fc-points child failed: %s", se)
		}
		b, _ := os.ReadFile(tf)
		if i > 0 {
			all.WriteString(`{"ev":"reset"}` + "\n")
		}
		for _, p := range strings.Fields(string(b)) {
			fmt.Fprintf(&all, `{"ev":%q,"w":"w1"}`+"\n", p)
		}
	}
	_ = os.WriteFile(out, all.Bytes(), 0o644)
	common.Emit(map[string]int{"events": bytes.Count(all.Bytes(), []byte("\n"))})
	common.Flush()
}
