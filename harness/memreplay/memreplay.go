// Package memreplay replays behaviours of spec/Memory.tla on real memories (C14).
package memreplay

import (
	"bytes"
	"context"
	"encoding/json"
	"fmt"
	"runtime/debug"
	"strings"
	"sync"

	"github.com/tetratelabs/wazero"
	"github.com/tetratelabs/wazero/api"
	"github.com/tetratelabs/wazero/experimental"
	"github.com/tetratelabs/wazero/internal/wasm"
	"github.com/tetratelabs/wazero/verifharness/common"
	"github.com/tetratelabs/wazero/verifharness/guard"
	"github.com/tetratelabs/wazero/verifharness/wb"
)

type op struct {
	Op    string `json:"op"`
	D     int    `json:"d"`
	Base  string `json:"base"`
	Delta int    `json:"delta"`
	Len   int    `json:"len"`
}

type step struct {
	Op  op `json:"op"`
	Exp struct {
		OK   bool `json:"ok"`
		Prev int  `json:"prev"`
	} `json:"exp"`
	Pages int `json:"pages"`
}

type behaviour struct {
	Cfg struct {
		Min        int  `json:"min"`
		Max        int  `json:"max"`
		Limit      int  `json:"limit"`
		CapFromMax bool `json:"capFromMax"`
	} `json:"cfg"`
	Accepted bool   `json:"accepted"`
	Hist     []step `json:"hist"`
	Scale    int    `json:"scale"` // pages per unit
	TopU     int    `json:"topu"`
	Heavy    bool   `json:"heavy"`    // reaches sizes whose copying growth is expensive
	HeavyDef bool   `json:"heavydef"` // run it with the default allocator all the same
}

func guestModule(min uint32, max *uint32) []byte { return guestModuleKind(min, max, false) }

// guestModuleKind: shared = the memory is declared shared (threads feature; needs a maximum).
func guestModuleKind(min uint32, max *uint32, shared bool) []byte {
	m := wb.New()
	m.Memory(min, max, "mem")
	m.M.MemorySection.IsShared = shared
	i32, i64 := []wasm.ValueType{wb.I32}, []wasm.ValueType{wb.I64}
	m.AddFunc(wb.Func{Params: i32, Results: i32, Body: wb.Cat(wb.LocalGet(0), wasm.OpcodeMemoryGrow, 0), Export: "grow"})
	m.AddFunc(wb.Func{Results: i32, Body: wb.Cat(wasm.OpcodeMemorySize, 0), Export: "size"})
	m.AddFunc(wb.Func{Params: []wasm.ValueType{wb.I32, wb.I32}, Body: wb.Cat(wb.LocalGet(0), wb.LocalGet(1), wasm.OpcodeI32Store8, wb.MemArg(0, 0)), Export: "st8"})
	m.AddFunc(wb.Func{Params: i32, Results: i32, Body: wb.Cat(wb.LocalGet(0), wasm.OpcodeI32Load8U, wb.MemArg(0, 0)), Export: "ld8"})
	m.AddFunc(wb.Func{Params: i32, Results: i32, Body: wb.Cat(wb.LocalGet(0), wasm.OpcodeI32Load, wb.MemArg(0, 0)), Export: "ld32"})
	m.AddFunc(wb.Func{Params: i32, Results: i64, Body: wb.Cat(wb.LocalGet(0), wasm.OpcodeI64Load, wb.MemArg(0, 0)), Export: "ld64"})
	return m.Build()
}

// callerModule has a one-page memory of its own and forwards to the target's grow/size.
func callerModule(ownPages uint32) []byte {
	m := wb.New()
	i32 := []wasm.ValueType{wb.I32}
	g := m.ImportFunc("target", "grow", i32, i32)
	sz := m.ImportFunc("target", "size", nil, i32)
	one := uint32(1)
	three := uint32(3)
	_ = one
	m.Memory(ownPages, &three, "mem")
	m.AddFunc(wb.Func{Params: i32, Results: i32, Body: wb.Cat(wb.LocalGet(0), wb.Call(g)), Export: "xgrow"})
	m.AddFunc(wb.Func{Results: i32, Body: wb.Cat(wb.Call(sz)), Export: "xsize"})
	m.AddFunc(wb.Func{Results: i32, Body: wb.Cat(wasm.OpcodeMemorySize, 0), Export: "ownsize"})
	return m.Build()
}

func addrOf(b *behaviour, pages int, base string, delta int) (uint64, bool) {
	var u int
	switch base {
	case "zero":
		u = 0
	case "size":
		u = pages
	case "last":
		u = pages - 1
	case "top":
		u = b.TopU
	}
	a := int64(u)*int64(b.Scale)*65536 + int64(delta)
	if a < 0 || a > 0xffffffff {
		return 0, false
	}
	return uint64(a), true
}

func isOOB(err error) bool {
	return err != nil && strings.Contains(err.Error(), "out of bounds memory access")
}

func keyOf(b *behaviour, engine, alloc string, s *step, pages int, what string) string {
	class := "pages<65536"
	if pages*b.Scale >= 65536 || s.Pages*b.Scale >= 65536 {
		class = "pages=65536"
	}
	o := s.Op.Op
	if s.Op.Base != "" {
		o += ":" + s.Op.Base
	}
	switch {
	case what == "views" || ((s.Op.Op == "gsize" || s.Op.Op == "xsize") && what == "value"):
		// the guest's memory.size disagrees with the host view, whatever operation preceded
		return fmt.Sprintf("engine=%s;%s;guest-sees-length-0", engine, class)
	case strings.HasPrefix(s.Op.Op, "g") && strings.HasSuffix(what, "ok=false"):
		// in-bounds guest access traps: the same truncated length feeds the bounds checks
		return fmt.Sprintf("engine=%s;%s;guest-sees-length-0", engine, class)
	case s.Op.Op == "hsize" && what == "bytes":
		return fmt.Sprintf("engine=any;%s;api.Memory.Size", class)
	}
	return fmt.Sprintf("engine=%s;%s;op=%s#%s", engine, class, o, what)
}

func replayOne(id int, b *behaviour) common.Result {
	res := common.Result{ID: id, OK: true}
	ctx := context.Background()
	scale := uint32(b.Scale)
	min := uint32(b.Cfg.Min) * scale
	var maxp *uint32
	if b.Cfg.Max >= 0 {
		v := uint32(b.Cfg.Max) * scale
		if b.Cfg.Max > b.TopU { // "one more than 4 GiB": invalid whatever the scale
			v = 65537
		}
		maxp = &v
	}
	limit := uint32(b.Cfg.Limit) * scale
	bin := guestModule(min, maxp)
	for _, engine := range []string{"interpreter", "compiler"} {
		for _, alloc := range []string{"default", "guard", "default+shared"} {
			shared := alloc == "default+shared"
			if shared {
				// the same behaviour on a memory declared shared (Memory.tla does not distinguish: sizes, growth and contents follow
				// the same rules; the buffer is allocated for the maximum at once, so page scale and accepted declarations only)
				if maxp == nil || b.Scale != 1 || !b.Accepted || b.Cfg.Max > b.Cfg.Limit || b.Cfg.Max > 64 || b.Heavy {
					continue
				}
				bin = guestModuleKind(min, maxp, true)
			} else {
				bin = guestModule(min, maxp)
			}
			if alloc == "guard" && b.Cfg.CapFromMax && !b.Heavy {
				continue // capacity hints are meaningless to the guard allocator; covered by default
			}
			if alloc == "default" && b.Heavy && !b.HeavyDef {
				continue // copying growth of multi-GiB memories: only for a sample
			}
			cfg := wazero.NewRuntimeConfigInterpreter()
			if engine == "compiler" {
				cfg = wazero.NewRuntimeConfigCompiler()
			}
			cfg = cfg.WithMemoryLimitPages(limit).WithMemoryCapacityFromMax(b.Cfg.CapFromMax)
			if shared {
				cfg = cfg.WithCoreFeatures(api.CoreFeaturesV2 | experimental.CoreFeaturesThreads)
			}
			rt := wazero.NewRuntimeWithConfig(ctx, cfg)
			ictx := ctx
			if alloc == "guard" {
				ictx = experimental.WithMemoryAllocator(ctx, guard.New())
			}
			mod, err := rt.InstantiateWithConfig(ictx, bin, wazero.NewModuleConfig().WithName("target"))
			if shared && err != nil { // acceptance of a shared declaration is not what is being compared here
				rt.Close(ctx)
				continue
			}
			pre := fmt.Sprintf("engine=%s;alloc=%s;decl#", engine, alloc)
			if (err == nil) != b.Accepted {
				big := "small"
				if b.Scale > 1 {
					big = "4GiB-scale"
				}
				cm := ""
				if b.Cfg.CapFromMax {
					cm = ";capFromMax"
				}
				lim := "max<=limit"
				if b.Cfg.Max > b.Cfg.Limit {
					lim = "max>limit"
				}
				res.AddFail(fmt.Sprintf("decl;%s;%s%s#accepted=%v", big, lim, cm, err == nil),
					fmt.Sprintf("%smemory (min %d, max %v pages) under limit %d capFromMax=%v: accepted=%v (%v), the model says %v",
						pre, min, fmtMax(maxp), limit, b.Cfg.CapFromMax, err == nil, err, b.Accepted))
				rt.Close(ctx)
				continue
			}
			if err != nil {
				rt.Close(ctx)
				continue
			}
			own := uint32(1)
			if limit == 0 { // under a limit of zero pages no memory may have a page: the caller's own memory is empty
				own = 0
			}
			caller, err := rt.InstantiateWithConfig(ctx, callerModule(own), wazero.NewModuleConfig().WithName("caller"))
			if err != nil {
				common.Fatalf("caller module: %v", err)
			}
			runHist(&res, b, engine, alloc, mod, caller)
			rt.Close(ctx)
		}
	}
	return res
}

func fmtMax(m *uint32) string {
	if m == nil {
		return "none"
	}
	return fmt.Sprint(*m)
}

func runHist(res *common.Result, b *behaviour, engine, alloc string, mod, caller api.Module) {
	ctx := context.Background()
	mem := mod.Memory()
	scale := uint64(b.Scale)
	pages := b.Cfg.Min
	call := func(name string, args ...uint64) ([]uint64, error) {
		return mod.ExportedFunction(name).Call(ctx, args...)
	}
	for k := range b.Hist {
		s := &b.Hist[k]
		fail := func(what, msg string) {
			res.Step = k + 1
			res.AddFail(keyOf(b, engine, alloc, s, pages, what), fmt.Sprintf("%s/%s step %d %+v at %d units (x%d pages): %s", engine, alloc, k+1, s.Op, pages, b.Scale, msg))
		}
		switch s.Op.Op {
		case "ggrow", "hgrow", "xgrow":
			var d uint64
			switch s.Op.D {
			case -1:
				d = uint64(s.Pages-pages) * scale
				if !s.Exp.OK {
					panic("rem must succeed")
				}
			case -2: // one PAGE more than what remains
				eff := effMax(b)
				d = uint64(eff-pages)*scale + 1
			case -3:
				d = 65536
			default:
				d = uint64(s.Op.D) * scale
			}
			var prev uint64
			var ok bool
			if s.Op.Op == "xgrow" {
				r, err := caller.ExportedFunction("xgrow").Call(ctx, d)
				if err != nil {
					fail("error", err.Error())
					return
				}
				ok = uint32(r[0]) != 0xffffffff
				prev = r[0]
			} else if s.Op.Op == "ggrow" {
				r, err := call("grow", d)
				if err != nil {
					fail("error", err.Error())
					return
				}
				ok = uint32(r[0]) != 0xffffffff
				prev = r[0]
			} else {
				p, o := mem.Grow(uint32(d))
				prev, ok = uint64(p), o
			}
			if ok != s.Exp.OK {
				fail(fmt.Sprintf("ok=%v", ok), fmt.Sprintf("grow by %d pages returned ok=%v, the model says %v", d, ok, s.Exp.OK))
				return
			}
			if ok && prev != uint64(s.Exp.Prev)*scale {
				fail("prev", fmt.Sprintf("grow returned previous size %d pages, the model says %d", prev, uint64(s.Exp.Prev)*scale))
			}
		case "xsize":
			r, err := caller.ExportedFunction("xsize").Call(ctx)
			if err != nil || r[0] != uint64(s.Exp.Prev)*scale {
				fail("value", fmt.Sprintf("memory.size reached through an importing instance = %v (%v), the model says %d pages", r, err, uint64(s.Exp.Prev)*scale))
			}
		case "gsize":
			r, err := call("size")
			if err != nil || r[0] != uint64(s.Exp.Prev)*scale {
				fail("value", fmt.Sprintf("memory.size = %v (%v), the model says %d pages", r, err, uint64(s.Exp.Prev)*scale))
			}
		case "hsize":
			want := uint64(s.Exp.Prev) * scale * 65536
			if got := uint64(mem.Size()); got != want {
				fail("bytes", fmt.Sprintf("api.Memory.Size() = %d, the model says %d bytes", got, want))
			}
		case "happend":
			// a view of the last bytes of the memory, appended to by the host: a page and a bit of 0x2d
			size := uint64(mem.Size())
			if n := uint64(8); size >= n {
				if view, ok := mem.Read(uint32(size-n), uint32(n)); ok {
					view = append(view, bytes.Repeat([]byte{0x2d}, 65536+16)...)
					_ = view
				}
			}
		case "gput", "hput", "gget", "hget":
			a, expressible := addrOf(b, pages, s.Op.Base, 0)
			if !expressible {
				continue
			}
			var ok bool
			var val uint64
			switch s.Op.Op {
			case "gput":
				_, err := call("st8", a, uint64(s.Exp.Prev))
				ok = err == nil
				if err != nil && !isOOB(err) {
					fail("error", err.Error())
				}
				if !s.Exp.OK && ok { // the model did not hand out a tag: undo is impossible; report
					fail("ok=true", "store beyond the size did not trap")
					return
				}
			case "hput":
				v := byte(s.Exp.Prev)
				ok = mem.WriteByte(uint32(a), v)
			case "gget":
				r, err := call("ld8", a)
				ok = err == nil
				if err != nil && !isOOB(err) {
					fail("error", err.Error())
				}
				if ok {
					val = r[0]
				}
			case "hget":
				v, o := mem.ReadByte(uint32(a))
				ok, val = o, uint64(v)
			}
			if ok != s.Exp.OK {
				fail(fmt.Sprintf("ok=%v", ok), fmt.Sprintf("access at %d: ok=%v, the model says %v", a, ok, s.Exp.OK))
				return
			}
			if ok && (s.Op.Op == "gget" || s.Op.Op == "hget") && val != uint64(s.Exp.Prev) {
				fail("content", fmt.Sprintf("byte at %d is %d, the model says %d", a, val, s.Exp.Prev))
			}
		case "gedge", "hedge":
			a, expressible := addrOf(b, pages, s.Op.Base, s.Op.Delta)
			if !expressible {
				continue
			}
			oks := map[string]bool{}
			if s.Op.Op == "gedge" {
				name := map[int]string{1: "ld8", 4: "ld32", 8: "ld64"}[s.Op.Len]
				if name == "" {
					continue
				}
				_, err := call(name, a)
				if err != nil && !isOOB(err) {
					fail("error", err.Error())
				}
				oks[name] = err == nil
			} else {
				switch s.Op.Len {
				case 0:
					_, oks["Read0"] = mem.Read(uint32(a), 0)
					oks["Write0"] = mem.Write(uint32(a), nil)
				case 1:
					var v byte
					v, oks["ReadByte"] = mem.ReadByte(uint32(a))
					if oks["ReadByte"] {
						oks["WriteByte"] = mem.WriteByte(uint32(a), v)
					}
					_, oks["Read1"] = mem.Read(uint32(a), 1)
				case 2:
					var v uint16
					v, oks["ReadUint16Le"] = mem.ReadUint16Le(uint32(a))
					oks["WriteUint16Le"] = mem.WriteUint16Le(uint32(a), v)
				case 4:
					var v uint32
					v, oks["ReadUint32Le"] = mem.ReadUint32Le(uint32(a))
					_, oks["ReadFloat32Le"] = mem.ReadFloat32Le(uint32(a))
					oks["WriteUint32Le"] = mem.WriteUint32Le(uint32(a), v)
				case 8:
					var v uint64
					v, oks["ReadUint64Le"] = mem.ReadUint64Le(uint32(a))
					_, oks["ReadFloat64Le"] = mem.ReadFloat64Le(uint32(a))
					oks["WriteUint64Le"] = mem.WriteUint64Le(uint32(a), v)
					oks["WriteString"] = mem.WriteString(uint32(a), "\x00\x00\x00\x00\x00\x00\x00\x00") || !oks["ReadUint64Le"]
					if oks["ReadUint64Le"] {
						oks["WriteUint64Le"] = mem.WriteUint64Le(uint32(a), v)
					}
				}
			}
			if s.Op.Op == "hedge" && s.Op.Len >= 1 { // the generic accessors with the same length
				var bs []byte
				bs, oks["Read"] = mem.Read(uint32(a), uint32(s.Op.Len))
				if oks["Read"] {
					oks["Write"] = mem.Write(uint32(a), append([]byte{}, bs...))
				} else {
					oks["Write"] = mem.Write(uint32(a), make([]byte, s.Op.Len))
				}
			}
			for name, ok := range oks {
				if name == "WriteString" {
					continue
				}
				if ok != s.Exp.OK {
					fail(fmt.Sprintf("%s:ok=%v", name, ok), fmt.Sprintf("%s of %d bytes at %d (size %d pages): ok=%v, the model says %v", name, s.Op.Len, a, uint64(pages)*scale, ok, s.Exp.OK))
				}
			}
		}
		pages = s.Pages
		// all views agree after every step
		r, err := call("size")
		hp, _ := mem.Grow(0)
		wantOwn := uint64(1)
		if b.Cfg.Limit == 0 {
			wantOwn = 0
		}
		if own, err := caller.ExportedFunction("ownsize").Call(ctx); err != nil || own[0] != wantOwn || uint64(caller.Memory().Size()) != wantOwn*65536 {
			fail("other-memory", fmt.Sprintf("the calling instance's own memory changed: memory.size=%v (%v) host bytes=%d, expected %d page(s)", own, err, caller.Memory().Size(), wantOwn))
			return
		}
		if err != nil || r[0] != uint64(pages)*scale || uint64(hp) != uint64(pages)*scale {
			fail("views", fmt.Sprintf("after the step memory.size=%v (%v), host pages=%d, the model says %d", r, err, hp, uint64(pages)*scale))
			return
		}
	}
}

func effMax(b *behaviour) int {
	m := b.Cfg.Max
	if m < 0 {
		m = b.TopU
	}
	if b.Cfg.Limit < m {
		m = b.Cfg.Limit
	}
	return m
}

// Concurrent is `driver memory-concurrent -rounds N`: concurrent Grow(1) calls on a shared memory must be
// linearizable w.r.t. Memory.tla's Grow: previous sizes pairwise distinct and consecutive, final size = start + #ok.
func Concurrent(args []string) {
	rounds := 300
	fmt.Sscan(common.Arg(args, "-rounds", "300"), &rounds)
	res := common.Result{ID: 0, OK: true}
	ctx := context.Background()
	for _, engine := range []string{"interpreter", "compiler"} {
		cfg := wazero.NewRuntimeConfigInterpreter()
		if engine == "compiler" {
			cfg = wazero.NewRuntimeConfigCompiler()
		}
		cfg = cfg.WithCoreFeatures(api.CoreFeaturesV2 | experimental.CoreFeaturesThreads)
		rt := wazero.NewRuntimeWithConfig(ctx, cfg)
		m := wb.New()
		max := uint32(4000)
		m.Memory(1, &max, "mem")
		m.M.MemorySection.IsShared = true
		mod, err := rt.InstantiateWithConfig(ctx, m.Build(), wazero.NewModuleConfig())
		if err != nil {
			common.Fatalf("shared memory module: %v", err)
		}
		mem := mod.Memory()
		const k = 4
		for r := 0; r < rounds && res.OK; r++ {
			start, _ := mem.Grow(0)
			prevs := make([]uint32, k)
			oks := make([]bool, k)
			var wg sync.WaitGroup
			gate := make(chan struct{})
			for g := 0; g < k; g++ {
				wg.Add(1)
				go func(g int) {
					defer wg.Done()
					<-gate
					prevs[g], oks[g] = mem.Grow(1)
				}(g)
			}
			close(gate)
			wg.Wait()
			end, _ := mem.Grow(0)
			seen := map[uint32]bool{}
			n := uint32(0)
			for g := 0; g < k; g++ {
				if !oks[g] {
					continue
				}
				n++
				if seen[prevs[g]] || prevs[g] < start || prevs[g] >= start+k {
					res.AddFail("engine=any;shared;concurrent-grow#prev", fmt.Sprintf("%s round %d: concurrent Grow(1) calls from %d pages returned previous sizes %v: not a linearization of sequential grows", engine, r, start, prevs))
				}
				seen[prevs[g]] = true
			}
			if end != start+n {
				res.AddFail("engine=any;shared;concurrent-grow#final", fmt.Sprintf("%s round %d: %d successful Grow(1) calls from %d pages ended at %d pages", engine, r, n, start, end))
			}
		}
		rt.Close(ctx)
	}
	common.Emit(res)
	common.Flush()
}

// Main is `driver replay-memory -in file`.
func Main(args []string) {
	lines, err := common.ReadLines(common.Arg(args, "-in", ""))
	if err != nil {
		common.Fatalf("read: %v", err)
	}
	results := make([]common.Result, len(lines))
	var wg sync.WaitGroup
	sem := make(chan struct{}, 12)
	var heavy []int
	behs := make([]behaviour, len(lines))
	for id, l := range lines {
		if err := json.Unmarshal(l, &behs[id]); err != nil {
			common.Fatalf("behaviour %d: %v", id, err)
		}
		if behs[id].Heavy {
			heavy = append(heavy, id)
			continue
		}
		wg.Add(1)
		sem <- struct{}{}
		go func(id int) {
			defer wg.Done()
			results[id] = replayOne(id, &behs[id])
			<-sem
		}(id)
	}
	wg.Wait()
	for _, id := range heavy { // one at a time: each may reserve several GiB
		results[id] = replayOne(id, &behs[id])
		debug.FreeOSMemory()
	}
	for _, r := range results {
		common.Emit(r)
	}
	common.Flush()
}
