package numeric

import (
	"context"
	"encoding/binary"
	"fmt"
	"math/rand"

	"github.com/tetratelabs/wazero"
	"github.com/tetratelabs/wazero/api"
	"github.com/tetratelabs/wazero/internal/wasm"
	"github.com/tetratelabs/wazero/verifharness/wb"
)

// vecDesc maps a vector definition of Numeric.tla (VecEval) to the instruction.
type vecDesc struct {
	spec string // op name in VecEval
	w    int    // lane width handed to VecEval
	wasm string
	form string // operands: "v", "vv", "vvv", "vs" (vector, i32 count), "vvi" (shuffle immediate), "s" (scalar), "vi" (lane immediate), "vsi"
	st   string // scalar operand type for "s" / "vsi"
	res  string // "v128", "i32", "i64"
	fl   int    // float lane width of the operands (0 = integer lanes)
}

func vecOps() []vecDesc {
	var out []vecDesc
	shapes := []struct {
		name string
		w    int
	}{{"i8x16", 8}, {"i16x8", 16}, {"i32x4", 32}, {"i64x2", 64}}
	for _, s := range shapes {
		out = append(out, vecDesc{spec: "vshl", w: s.w, wasm: s.name + ".shl", form: "vs", res: "v128"},
			vecDesc{spec: "vshr_s", w: s.w, wasm: s.name + ".shr_s", form: "vs", res: "v128"},
			vecDesc{spec: "vshr_u", w: s.w, wasm: s.name + ".shr_u", form: "vs", res: "v128"},
			vecDesc{spec: "bitmask", w: s.w, wasm: s.name + ".bitmask", form: "v", res: "i32"},
			vecDesc{spec: "all_true", w: s.w, wasm: s.name + ".all_true", form: "v", res: "i32"})
		st := "i32"
		if s.w == 64 {
			st = "i64"
		}
		out = append(out, vecDesc{spec: "splat", w: s.w, wasm: s.name + ".splat", form: "s", st: st, res: "v128"},
			vecDesc{spec: "replace", w: s.w, wasm: s.name + ".replace_lane", form: "vsi", st: st, res: "v128"})
		if s.w <= 16 {
			out = append(out, vecDesc{spec: "extract_s", w: s.w, wasm: s.name + ".extract_lane_s", form: "vi", res: "i32"},
				vecDesc{spec: "extract_u", w: s.w, wasm: s.name + ".extract_lane_u", form: "vi", res: "i32"})
		} else {
			out = append(out, vecDesc{spec: "extract_u", w: s.w, wasm: s.name + ".extract_lane", form: "vi", res: st})
		}
	}
	out = append(out, vecDesc{spec: "splat", w: 32, wasm: "f32x4.splat", form: "s", st: "f32", res: "v128"},
		vecDesc{spec: "splat", w: 64, wasm: "f64x2.splat", form: "s", st: "f64", res: "v128"},
		vecDesc{spec: "replace", w: 32, wasm: "f32x4.replace_lane", form: "vsi", st: "f32", res: "v128"},
		vecDesc{spec: "replace", w: 64, wasm: "f64x2.replace_lane", form: "vsi", st: "f64", res: "v128"},
		vecDesc{spec: "extract_u", w: 32, wasm: "f32x4.extract_lane", form: "vi", res: "f32"},
		vecDesc{spec: "extract_u", w: 64, wasm: "f64x2.extract_lane", form: "vi", res: "f64"})
	for _, p := range []struct {
		to, from string
		w        int
	}{{"i16x8", "i8x16", 8}, {"i32x4", "i16x8", 16}, {"i64x2", "i32x4", 32}} {
		for _, sg := range []string{"s", "u"} {
			out = append(out, vecDesc{spec: "extend_low_" + sg, w: p.w, wasm: p.to + ".extend_low_" + p.from + "_" + sg, form: "v", res: "v128"},
				vecDesc{spec: "extend_high_" + sg, w: p.w, wasm: p.to + ".extend_high_" + p.from + "_" + sg, form: "v", res: "v128"},
				vecDesc{spec: "extmul_low_" + sg, w: p.w, wasm: p.to + ".extmul_low_" + p.from + "_" + sg, form: "vv", res: "v128"},
				vecDesc{spec: "extmul_high_" + sg, w: p.w, wasm: p.to + ".extmul_high_" + p.from + "_" + sg, form: "vv", res: "v128"})
			if p.w <= 16 {
				out = append(out, vecDesc{spec: "extadd_" + sg, w: p.w, wasm: p.to + ".extadd_pairwise_" + p.from + "_" + sg, form: "v", res: "v128"},
					vecDesc{spec: "narrow_" + sg, w: 2 * p.w, wasm: p.from + ".narrow_" + p.to + "_" + sg, form: "vv", res: "v128"})
			}
		}
	}
	out = append(out, vecDesc{spec: "dot", w: 16, wasm: "i32x4.dot_i16x8_s", form: "vv", res: "v128"},
		vecDesc{spec: "q15mulr", w: 16, wasm: "i16x8.q15mulr_sat_s", form: "vv", res: "v128"},
		vecDesc{spec: "any_true", w: 8, wasm: "v128.any_true", form: "v", res: "i32"},
		vecDesc{spec: "swizzle", w: 8, wasm: "i8x16.swizzle", form: "vv", res: "v128"},
		vecDesc{spec: "shuffle", w: 8, wasm: "i8x16.shuffle", form: "vvi", res: "v128"},
		vecDesc{spec: "bitselect", w: 8, wasm: "v128.bitselect", form: "vvv", res: "v128"},
		vecDesc{spec: "andnot", w: 8, wasm: "v128.andnot", form: "vv", res: "v128"},
		vecDesc{spec: "vand", w: 8, wasm: "v128.and", form: "vv", res: "v128"},
		vecDesc{spec: "vor", w: 8, wasm: "v128.or", form: "vv", res: "v128"},
		vecDesc{spec: "vxor", w: 8, wasm: "v128.xor", form: "vv", res: "v128"},
		vecDesc{spec: "vnot", w: 8, wasm: "v128.not", form: "v", res: "v128"},
		vecDesc{spec: "pmin", w: 32, wasm: "f32x4.pmin", form: "vv", res: "v128", fl: 32},
		vecDesc{spec: "pmax", w: 32, wasm: "f32x4.pmax", form: "vv", res: "v128", fl: 32},
		vecDesc{spec: "pmin", w: 64, wasm: "f64x2.pmin", form: "vv", res: "v128", fl: 64},
		vecDesc{spec: "pmax", w: 64, wasm: "f64x2.pmax", form: "vv", res: "v128", fl: 64},
		vecDesc{spec: "convert_low_s", w: 32, wasm: "f64x2.convert_low_i32x4_s", form: "v", res: "v128"},
		vecDesc{spec: "convert_low_u", w: 32, wasm: "f64x2.convert_low_i32x4_u", form: "v", res: "v128"},
		vecDesc{spec: "trunc_sat_zero_s", w: 64, wasm: "i32x4.trunc_sat_f64x2_s_zero", form: "v", res: "v128", fl: 64},
		vecDesc{spec: "trunc_sat_zero_u", w: 64, wasm: "i32x4.trunc_sat_f64x2_u_zero", form: "v", res: "v128", fl: 64},
		vecDesc{spec: "demote_zero", w: 64, wasm: "f32x4.demote_f64x2_zero", form: "v", res: "v128", fl: 64},
		vecDesc{spec: "promote_low", w: 32, wasm: "f64x2.promote_low_f32x4", form: "v", res: "v128", fl: 32})
	return out
}

// vecPool builds 128-bit operands whose lanes (of width w bits; fl != 0: float lanes) are boundary values.
func vecPool(w, fl int, rng *rand.Rand, n int) [][]int {
	t := map[int]string{8: "i8", 16: "i16", 32: "i32", 64: "i64"}[w]
	var lanes []uint64
	if fl != 0 {
		lanes = floatPool(map[int]string{32: "f32", 64: "f64"}[fl], rng)
	} else {
		lanes = intPool(t, rng, false)
	}
	nl := 128 / w
	var out [][]int
	for i := 0; i < n; i++ {
		v := make([]int, 0, 16)
		for k := 0; k < nl; k++ {
			var x uint64
			switch i % 4 {
			case 0: // consecutive pool entries
				x = lanes[(i/4*nl+k)%len(lanes)]
			case 1: // one pool entry in every lane
				x = lanes[(i/4)%len(lanes)]
			case 2: // strided
				x = lanes[(i+k*5)%len(lanes)]
			default:
				x = lanes[rng.Intn(len(lanes))]
			}
			v = append(v, toBytes(x, w/8)...)
		}
		out = append(out, v)
	}
	return out
}

func vecCases(rng *rand.Rand, emit func(c Case)) {
	for _, d := range vecOps() {
		mk := func(a, b, c []int) {
			if b == nil {
				b = []int{}
			}
			if c == nil {
				c = []int{}
			}
			emit(Case{Op: d.spec, T: "v128", W: d.w, A: a, B: b, C: c, Wasm: d.wasm})
		}
		pw := d.w
		if d.spec == "narrow_s" || d.spec == "narrow_u" || d.spec == "dot" || d.spec == "q15mulr" {
			pw = d.w
		}
		va := vecPool(pw, d.fl, rng, 10+2*nRand)
		vb := vecPool(pw, d.fl, rng, 6+nRand)
		switch d.form {
		case "v":
			for _, a := range va {
				mk(a, nil, nil)
			}
		case "vv":
			if d.spec == "swizzle" { // indices around 16
				vb = nil
				for i := 0; i < 8; i++ {
					v := make([]int, 16)
					for k := range v {
						v[k] = []int{0, 1, 15, 16, 17, 31, 32, 128, 255, rng.Intn(16), rng.Intn(256)}[rng.Intn(11)]
					}
					vb = append(vb, v)
				}
			}
			for _, a := range va {
				for _, b := range vb {
					mk(a, b, nil)
				}
			}
		case "vvv":
			for i, a := range va {
				for j, b := range vb {
					mk(a, b, va[(i+j+1)%len(va)])
				}
			}
		case "vs":
			for _, a := range va {
				for _, cnt := range []uint32{0, 1, uint32(d.w) - 1, uint32(d.w), uint32(d.w) + 1, 7, 0xffffffff, 0x80000000 + 3, uint32(d.w) / 2, 32, 33, 96, 16, 8} {
					mk(a, nil, toBytes(uint64(cnt), 4))
				}
			}
		case "vvi":
			for i := 0; i < 12+4*nRand; i++ {
				imm := make([]int, 16)
				for k := range imm {
					switch i % 3 {
					case 0:
						imm[k] = rng.Intn(32)
					case 1:
						imm[k] = (k*7 + i) % 32
					default:
						imm[k] = []int{0, 15, 16, 31}[rng.Intn(4)]
					}
				}
				mk(va[i%len(va)], vb[i%len(vb)], imm)
			}
		case "s":
			var pool []uint64
			if d.st[0] == 'f' {
				pool = floatPool(d.st, rng)
			} else {
				pool = intPool(d.st, rng, false)
			}
			for _, x := range pool {
				mk(toBytes(x, width(d.st)), nil, nil)
			}
		case "vi":
			for i, a := range va {
				mk(a, nil, []int{i % (128 / d.w)})
			}
			for k := 0; k < 128/d.w; k++ {
				mk(va[k%len(va)], nil, []int{k})
			}
		case "vsi":
			var pool []uint64
			if d.st[0] == 'f' {
				pool = floatPool(d.st, rng)
			} else {
				pool = intPool(d.st, rng, false)
			}
			for i, x := range pool {
				mk(va[i%len(va)], toBytes(x, width(d.st)), []int{i % (128 / d.w)})
			}
		}
	}
}

// ---- execution of vector cases

func v128Load(off int32) []byte {
	return wb.Cat(wb.I32Const(off), wasm.OpcodeVecPrefix, wasm.OpcodeVecV128Load, wb.MemArg(0, 0))
}

func bytesOf(b []int) []byte {
	out := make([]byte, len(b))
	for i, x := range b {
		out[i] = byte(x)
	}
	return out
}

// checkVector runs the vector cases of one instruction on one engine; operands in memory and as parameters.
func checkVector(ctx context.Context, rt wazero.Runtime, d vecDesc, cases []Case, exp map[int]Expected, engine string,
	fail func(c Case, form, what, msg string), nexec *int,
) {
	byImm := map[string][]Case{}
	var order []string
	for _, c := range cases {
		k := ""
		if d.form == "vvi" || d.form == "vi" || d.form == "vsi" {
			k = fmt.Sprint(c.C)
		}
		if byImm[k] == nil {
			order = append(order, k)
		}
		byImm[k] = append(byImm[k], c)
	}
	one := uint32(1)
	for _, k := range order {
		group := byImm[k]
		op := opBytes(d.wasm)
		switch d.form {
		case "vvi":
			op = append(op, bytesOf(group[0].C)...)
		case "vi", "vsi":
			op = append(op, byte(group[0].C[0]))
		}
		m := wb.New()
		m.Memory(1, &one, "mem")
		var mem, par []byte
		var params []wasm.ValueType
		scalarLoad := func(t string, off int32) []byte { return wb.Cat(wb.I32Const(off), loadOf(t), wb.MemArg(0, 0)) }
		switch d.form {
		case "v", "vi":
			mem, par, params = v128Load(0), wb.LocalGet(0), []wasm.ValueType{wb.V128}
		case "vv", "vvi":
			mem, par, params = wb.Cat(v128Load(0), v128Load(16)), wb.Cat(wb.LocalGet(0), wb.LocalGet(1)), []wasm.ValueType{wb.V128, wb.V128}
		case "vvv":
			mem, par = wb.Cat(v128Load(0), v128Load(16), v128Load(32)), wb.Cat(wb.LocalGet(0), wb.LocalGet(1), wb.LocalGet(2))
			params = []wasm.ValueType{wb.V128, wb.V128, wb.V128}
		case "vs":
			mem, par, params = wb.Cat(v128Load(0), scalarLoad("i32", 32)), wb.Cat(wb.LocalGet(0), wb.LocalGet(1)), []wasm.ValueType{wb.V128, wb.I32}
		case "s":
			mem, par, params = scalarLoad(d.st, 0), wb.LocalGet(0), []wasm.ValueType{vt(d.st)}
		case "vsi":
			mem, par, params = wb.Cat(v128Load(0), scalarLoad(d.st, 16)), wb.Cat(wb.LocalGet(0), wb.LocalGet(1)), []wasm.ValueType{wb.V128, vt(d.st)}
		}
		var results []wasm.ValueType
		tailV := []byte{}
		if d.res == "v128" { // the result is stored, so that no v128 crosses the boundary in the memory form
			mem = append(wb.I32Const(64), mem...)
			tailV = wb.Cat(wasm.OpcodeVecPrefix, wasm.OpcodeVecV128Store, wb.MemArg(0, 0))
			m.AddFunc(wb.Func{Body: wb.Cat(mem, op, tailV), Export: "m"})
			m.AddFunc(wb.Func{Params: params, Results: []wasm.ValueType{wb.V128}, Body: wb.Cat(par, op), Export: "p"})
		} else {
			results = []wasm.ValueType{vt(d.res)}
			m.AddFunc(wb.Func{Results: results, Body: wb.Cat(mem, op), Export: "m"})
			m.AddFunc(wb.Func{Params: params, Results: results, Body: wb.Cat(par, op), Export: "p"})
		}
		forms := []string{"memory", "params"}
		if d.form == "vs" { // the count as a constant in the body (what compilers special-case): one function per distinct count
			forms = append(forms, "const-count")
			done := map[uint32]bool{}
			for _, c := range group {
				cnt := binary.LittleEndian.Uint32(bytesOf(c.C))
				if !done[cnt] {
					done[cnt] = true
					m.AddFunc(wb.Func{Params: []wasm.ValueType{wb.V128}, Results: []wasm.ValueType{wb.V128},
						Body: wb.Cat(wb.LocalGet(0), wb.I32Const(int32(cnt)), op), Export: fmt.Sprintf("k%d", cnt)})
				}
			}
		}
		mod, err := rt.InstantiateWithConfig(ctx, m.Build(), wazero.NewModuleConfig().WithName(""))
		if err != nil {
			panic(fmt.Sprintf("%s: %v", d.wasm, err))
		}
		for _, c := range group {
			e, ok := exp[c.ID]
			if !ok {
				continue
			}
			buf := make([]byte, 80)
			copy(buf, bytesOf(c.A))
			switch d.form {
			case "vs":
				copy(buf[32:], bytesOf(c.C))
			case "vvv":
				copy(buf[16:], bytesOf(c.B))
				copy(buf[32:], bytesOf(c.C))
			default:
				copy(buf[16:], bytesOf(c.B))
			}
			var args []uint64
			le := binary.LittleEndian
			switch d.form {
			case "v", "vi":
				args = []uint64{le.Uint64(buf), le.Uint64(buf[8:])}
			case "vv", "vvi":
				args = []uint64{le.Uint64(buf), le.Uint64(buf[8:]), le.Uint64(buf[16:]), le.Uint64(buf[24:])}
			case "vvv":
				args = []uint64{le.Uint64(buf), le.Uint64(buf[8:]), le.Uint64(buf[16:]), le.Uint64(buf[24:]), le.Uint64(buf[32:]), le.Uint64(buf[40:])}
			case "vs":
				args = []uint64{le.Uint64(buf), le.Uint64(buf[8:]), uint64(le.Uint32(buf[32:]))}
			case "s":
				args = []uint64{le.Uint64(buf)}
				if width(d.st) == 4 {
					args[0] = uint64(le.Uint32(buf))
				}
			case "vsi":
				args = []uint64{le.Uint64(buf), le.Uint64(buf[8:]), le.Uint64(buf[16:])}
				if width(d.st) == 4 {
					args[2] = uint64(le.Uint32(buf[16:]))
				}
			}
			for _, form := range forms {
				*nexec++
				var got []byte
				var r []uint64
				var err error
				if form == "memory" {
					mod.Memory().Write(0, buf)
					r, err = mod.ExportedFunction("m").Call(ctx)
					if d.res == "v128" {
						got, _ = mod.Memory().Read(64, 16)
					}
				} else {
					if form == "const-count" {
						r, err = mod.ExportedFunction(fmt.Sprintf("k%d", uint32(args[2]))).Call(ctx, args[:2]...)
					} else {
						r, err = mod.ExportedFunction("p").Call(ctx, args...)
					}
					if d.res == "v128" && err == nil {
						got = make([]byte, 16)
						le.PutUint64(got, r[0])
						le.PutUint64(got[8:], r[1])
					}
				}
				if err != nil {
					fail(c, "vector-"+form, "trap", "trapped: "+err.Error())
					continue
				}
				want := bytesOf(e.V)
				if d.res != "v128" {
					got = make([]byte, len(want))
					for i := range got {
						got[i] = byte(r[0] >> (8 * uint(i)))
					}
				}
				// lanes the specification leaves as "some NaN"
				okv := len(got) == len(want)
				for i := 0; okv && i < len(want); i++ {
					lane := -1
					if e.LW > 0 {
						lane = i / (e.LW / 8)
					}
					isNaNLane := false
					for _, l := range e.NL {
						if l == lane {
							isNaNLane = true
						}
					}
					if isNaNLane {
						lo := lane * e.LW / 8
						var v uint64
						for j := e.LW/8 - 1; j >= 0; j-- {
							v = v<<8 | uint64(got[lo+j])
						}
						if !isNaN(map[int]string{32: "f32", 64: "f64"}[e.LW], v) {
							okv = false
						}
						i = lo + e.LW/8 - 1
						continue
					}
					if got[i] != want[i] {
						okv = false
					}
				}
				if !okv {
					fail(c, "vector-"+form, "value", fmt.Sprintf("returned % x, the specification says % x (NaN lanes %v)", got, want, e.NL))
				}
			}
		}
		mod.Close(ctx)
	}
}

var _ api.Module
