// Package numeric compares what both engines compute for single numeric instructions with the results
// TLC computed from spec/Numeric.tla (C05).
package numeric

import (
	"context"
	"encoding/binary"
	"encoding/json"
	"fmt"
	"math"
	"math/rand"
	"os"
	"strings"

	"github.com/tetratelabs/wazero"
	"github.com/tetratelabs/wazero/internal/wasm"
	"github.com/tetratelabs/wazero/verifharness/common"
	"github.com/tetratelabs/wazero/verifharness/wb"
	"github.com/tetratelabs/wazero/verifharness/wgen"
)

// Case is one scalar evaluation (also a lane of a vector evaluation).
type Case struct {
	ID int    `json:"id"`
	Op string `json:"op"` // name in Numeric.tla
	T  string `json:"t"`  // operand type: i8 i16 i32 i64 f32 f64
	A  []int  `json:"a"`
	B  []int  `json:"b"`
	// vector cases (t = "v128"): lane width, third operand / scalar / immediate bytes, instruction name
	W    int    `json:"w"`
	C    []int  `json:"c"`
	Wasm string `json:"wasm"`
}

type Expected struct {
	ID   int    `json:"id"`
	V    []int  `json:"v"`
	Trap string `json:"trap"`
	NaN  bool   `json:"nan"`
	NL   []int  `json:"nl"` // vector result: lanes that are "some NaN"
	LW   int    `json:"lw"` // ... of this width
}

// instruction descriptor: how the spec operation maps to WebAssembly
type opDesc struct {
	spec   string // op name in Numeric.tla
	t      string // operand type
	wasm   string // scalar instruction, "" if none
	res    string // result type of the scalar instruction
	binary bool
	vec    string // vector instruction applying the op lane-wise, "" if none
	vecRes string // lane type of the vector result ("" = same as t)
	heavy  bool
}

func width(t string) int {
	return map[string]int{"i8": 1, "i16": 2, "i32": 4, "i64": 8, "f32": 4, "f64": 8}[t]
}

func ops() []opDesc {
	var out []opDesc
	shape := map[string]string{"i8": "i8x16", "i16": "i16x8", "i32": "i32x4", "i64": "i64x2", "f32": "f32x4", "f64": "f64x2"}
	for _, t := range []string{"i32", "i64"} {
		for _, o := range []string{"add", "sub", "mul", "and", "or", "xor", "shl", "shr_u", "shr_s", "rotl", "rotr", "div_u", "rem_u", "div_s", "rem_s"} {
			d := opDesc{spec: o, t: t, wasm: t + "." + o, res: t, binary: true, heavy: strings.HasPrefix(o, "div") || strings.HasPrefix(o, "rem") || o == "mul"}
			if o == "add" || o == "sub" || o == "mul" {
				d.vec = shape[t] + "." + o
			}
			out = append(out, d)
		}
		for _, o := range []string{"eq", "ne", "lt_u", "gt_u", "le_u", "ge_u", "lt_s", "gt_s", "le_s", "ge_s"} {
			d := opDesc{spec: o, t: t, wasm: t + "." + o, res: "i32", binary: true}
			if t == "i32" || !strings.HasSuffix(o, "_u") {
				v := o
				if t == "i64" {
					v = strings.TrimSuffix(o, "_s")
				}
				d.vec = shape[t] + "." + v
			}
			out = append(out, d)
		}
		for _, o := range []string{"clz", "ctz", "popcnt"} {
			out = append(out, opDesc{spec: o, t: t, wasm: t + "." + o, res: t})
		}
		out = append(out, opDesc{spec: "eqz", t: t, wasm: t + ".eqz", res: "i32"})
		out = append(out, opDesc{spec: "extend8_s", t: t, wasm: t + ".extend8_s", res: t}, opDesc{spec: "extend16_s", t: t, wasm: t + ".extend16_s", res: t})
		out = append(out, opDesc{spec: "abs", t: t, vec: shape[t] + ".abs"}, opDesc{spec: "neg", t: t, vec: shape[t] + ".neg"})
	}
	out = append(out, opDesc{spec: "extend32_s", t: "i64", wasm: "i64.extend32_s", res: "i64"}, opDesc{spec: "wrap_i64", t: "i64", wasm: "i32.wrap_i64", res: "i32"},
		opDesc{spec: "extend_i32_s", t: "i32", wasm: "i64.extend_i32_s", res: "i64"}, opDesc{spec: "extend_i32_u", t: "i32", wasm: "i64.extend_i32_u", res: "i64"})
	for _, t := range []string{"i32", "i64"}[:1] {
		for _, o := range []string{"min_s", "min_u", "max_s", "max_u"} {
			out = append(out, opDesc{spec: o, t: t, binary: true, vec: shape[t] + "." + o})
		}
	}
	for _, t := range []string{"i8", "i16"} {
		for _, o := range []string{"add", "sub", "add_sat_s", "add_sat_u", "sub_sat_s", "sub_sat_u", "min_s", "min_u", "max_s", "max_u", "avgr_u",
			"eq", "ne", "lt_s", "lt_u", "gt_s", "gt_u", "le_s", "le_u", "ge_s", "ge_u"} {
			out = append(out, opDesc{spec: o, t: t, binary: true, vec: shape[t] + "." + o})
		}
		out = append(out, opDesc{spec: "abs", t: t, vec: shape[t] + ".abs"}, opDesc{spec: "neg", t: t, vec: shape[t] + ".neg"})
	}
	out = append(out, opDesc{spec: "mul", t: "i16", binary: true, vec: "i16x8.mul", heavy: true}, opDesc{spec: "popcnt", t: "i8", vec: "i8x16.popcnt"})
	for _, t := range []string{"f32", "f64"} {
		for _, o := range []string{"eq", "ne", "lt", "gt", "le", "ge"} {
			out = append(out, opDesc{spec: o, t: t, wasm: t + "." + o, res: "i32", binary: true, vec: shape[t] + "." + o})
		}
		for _, o := range []string{"min", "max", "copysign"} {
			d := opDesc{spec: o, t: t, wasm: t + "." + o, res: t, binary: true}
			if o != "copysign" {
				d.vec = shape[t] + "." + o
			}
			out = append(out, d)
		}
		for _, o := range []string{"abs", "neg", "ceil", "floor", "trunc", "nearest"} {
			out = append(out, opDesc{spec: o, t: t, wasm: t + "." + o, res: t, vec: shape[t] + "." + o})
		}
		// IEEE arithmetic (bit-level definitions are slow to evaluate: smaller operand tables)
		for _, o := range []string{"add", "sub", "mul", "div"} {
			out = append(out, opDesc{spec: o, t: t, wasm: t + "." + o, res: t, binary: true, vec: shape[t] + "." + o, heavy: true})
		}
		out = append(out, opDesc{spec: "sqrt", t: t, wasm: t + ".sqrt", res: t, vec: shape[t] + ".sqrt", heavy: true})
		for _, it := range []string{"32", "64"} {
			for _, sg := range []string{"s", "u"} {
				out = append(out, opDesc{spec: "trunc_" + sg + it, t: t, wasm: "i" + it + ".trunc_" + t + "_" + sg, res: "i" + it})
				d := opDesc{spec: "trunc_sat_" + sg + it, t: t, wasm: "i" + it + ".trunc_sat_" + t + "_" + sg, res: "i" + it}
				if t == "f32" && it == "32" {
					d.vec, d.vecRes = "i32x4.trunc_sat_f32x4_"+sg, "i32"
				}
				out = append(out, d)
			}
		}
	}
	for _, it := range []string{"i32", "i64"} {
		for _, ft := range []string{"f32", "f64"} {
			for _, sg := range []string{"s", "u"} {
				d := opDesc{spec: "convert_" + sg + "_" + ft, t: it, wasm: ft + ".convert_" + it + "_" + sg, res: ft}
				if it == "i32" && ft == "f32" {
					d.vec, d.vecRes = "f32x4.convert_i32x4_"+sg, "f32"
				}
				out = append(out, d)
			}
		}
	}
	out = append(out, opDesc{spec: "promote", t: "f32", wasm: "f64.promote_f32", res: "f64"}, opDesc{spec: "demote", t: "f64", wasm: "f32.demote_f64", res: "f32"})
	return out
}

// ---- operand pools

// nRand is the number of random values added to each operand pool (numeric-cases -rand N).
var nRand = 3

func intPool(t string, rng *rand.Rand, heavy bool) []uint64 {
	n := uint(width(t) * 8)
	mask := ^uint64(0)
	if n < 64 {
		mask = 1<<n - 1
	}
	p := []uint64{0, 1, 2, mask, mask - 1, 1 << (n - 1), 1<<(n-1) - 1, 1<<(n-1) + 1, 1 << (n / 2), 0x5555555555555555 & mask, 0xaaaaaaaaaaaaaaaa & mask, uint64(n), uint64(n + 1), 7, 3}
	if n == 64 { // around what fits a sign-extended 32-bit immediate
		p = append(p, 0xffffffff00000005, 0xffffffff7fffffff, 0xffffffff80000000, 0x00000000ffffffff, 0x0000000080000000, 0x000000007fffffff, 0xfffffffeffffffff)
	}
	for i := 0; i < nRand; i++ {
		p = append(p, rng.Uint64()&mask)
	}
	if heavy {
		return append(p[:9], p[len(p)-2:]...)
	}
	return p
}

func f32bits(f float32) uint64 { return uint64(math.Float32bits(f)) }
func f64bits(f float64) uint64 { return math.Float64bits(f) }

func floatPool(t string, rng *rand.Rand) []uint64 {
	if t == "f32" {
		p := []uint64{0, 0x80000000, f32bits(1), f32bits(-1), f32bits(0.5), f32bits(-0.5), f32bits(1.5), f32bits(2.5), f32bits(-2.5), f32bits(3.5), f32bits(0.49999997), f32bits(-0.75),
			0x7f800000, 0xff800000, 0x7fc00000, 0x7fa00001, 0xffc00001, 1, 0x007fffff, 0x00800000, 0x7f7fffff, 0xff7fffff,
			f32bits(2147483648), f32bits(2147483520), f32bits(-2147483648), f32bits(-2147483904), f32bits(4294967296), f32bits(4294967040), f32bits(-0.99999994),
			f32bits(9223372036854775808), f32bits(9223371487098961920), f32bits(-9223372036854775808), f32bits(18446744073709551616), f32bits(18446742974197923840),
			f32bits(8388608.0), f32bits(8388607.5), f32bits(4194304.5), f32bits(16777216), f32bits(-8388609)}
		for i := 0; i < nRand; i++ {
			p = append(p, uint64(rng.Uint32()))
			p = append(p, uint64(rng.Uint32()&0x807fffff|uint32(rng.Intn(70)+100)<<23)) // exponents near the integer range
		}
		return p
	}
	p := []uint64{0, 0x8000000000000000, f64bits(1), f64bits(-1), f64bits(0.5), f64bits(-0.5), f64bits(1.5), f64bits(2.5), f64bits(-2.5), f64bits(3.5), f64bits(0.49999999999999994), f64bits(-0.75),
		0x7ff0000000000000, 0xfff0000000000000, 0x7ff8000000000000, 0x7ff4000000000001, 0xfff8000000000001, 1, 0x000fffffffffffff, 0x0010000000000000, 0x7fefffffffffffff, 0xffefffffffffffff,
		f64bits(2147483648), f64bits(2147483647.5), f64bits(2147483647.9999998), f64bits(-2147483648), f64bits(-2147483648.5), f64bits(-2147483648.9999995), f64bits(-2147483649),
		f64bits(4294967296), f64bits(4294967295.5), f64bits(4294967295.9999995), f64bits(-0.9999999999999999), f64bits(-1),
		f64bits(9223372036854775808), f64bits(9223372036854774784), f64bits(-9223372036854775808), f64bits(-9223372036854777856), f64bits(18446744073709551616), f64bits(18446744073709549568),
		f64bits(4503599627370496), f64bits(4503599627370495.5), f64bits(2251799813685248.5), f64bits(9007199254740992),
		// demote boundaries: max f32, just above (rounds to inf / to max), f32 min normal / subnormal neighbourhood
		f64bits(3.4028234663852886e+38), f64bits(3.4028235677973366e+38), f64bits(3.4028235677973362e+38), f64bits(1.1754943508222875e-38), f64bits(1.1754942807573643e-38),
		f64bits(1.401298464324817e-45), f64bits(7.006492321624085e-46), f64bits(7.006492321624087e-46), f64bits(1e-50), f64bits(1.0000000596046448), f64bits(1.0000000596046447), f64bits(1.0000001788139343)}
	for i := 0; i < nRand; i++ {
		p = append(p, rng.Uint64())
		p = append(p, rng.Uint64()&0x800fffffffffffff|uint64(rng.Intn(140)+950)<<52) // exponents near the integer and f32 ranges
	}
	return p
}

// integers whose conversion to float needs rounding at bit 24 / 53 in every position class
func convertPool(t string, rng *rand.Rand) []uint64 {
	p := intPool(t, rng, false)
	n := uint(width(t) * 8)
	for _, keep := range []uint{24, 53} {
		for _, top := range []uint{n - 1, n - 2, keep + 1, keep} {
			if top >= n || top < keep {
				continue
			}
			drop := top + 1 - keep
			if drop == 0 {
				continue
			}
			base := uint64(1) << top
			half := uint64(1) << (drop - 1)
			ulp := uint64(1) << drop
			for _, lowbits := range []uint64{half, half + 1, half - 1, ulp + half, ulp + half + 1, ulp - 1} {
				p = append(p, base|lowbits, base|(uint64(rng.Int63())&(base-1)&^(ulp-1))|lowbits)
			}
		}
	}
	mask := ^uint64(0)
	if n < 64 {
		mask = 1<<n - 1
	}
	for i := range p {
		p[i] &= mask
	}
	return p
}

func toBytes(v uint64, w int) []int {
	out := make([]int, w)
	for i := 0; i < w; i++ {
		out[i] = int(byte(v >> (8 * uint(i))))
	}
	return out
}

func fromBytes(b []int) uint64 {
	var v uint64
	for i := len(b) - 1; i >= 0; i-- {
		v = v<<8 | uint64(b[i])
	}
	return v
}

// Cases is `driver numeric-cases -out file`: writes the operand table for TLC.
func Cases(args []string) {
	rng := rand.New(rand.NewSource(common.Seed()))
	fmt.Sscan(common.Arg(args, "-rand", "3"), &nRand)
	f, err := os.Create(common.Arg(args, "-out", "cases.ndjson"))
	if err != nil {
		common.Fatalf("create: %v", err)
	}
	defer f.Close()
	id := 0
	emit := func(d opDesc, a, b uint64) {
		id++
		c := Case{ID: id, Op: d.spec, T: d.t, A: toBytes(a, width(d.t)), B: []int{}, C: []int{}}
		if d.binary {
			c.B = toBytes(b, width(d.t))
		}
		j, _ := json.Marshal(c)
		f.Write(append(j, '\n'))
	}
	for _, d := range ops() {
		var pa []uint64
		switch {
		case d.t[0] == 'f':
			pa = floatPool(d.t, rng)
		case strings.HasPrefix(d.spec, "convert"):
			pa = convertPool(d.t, rng)
		default:
			pa = intPool(d.t, rng, d.heavy)
		}
		if !d.binary {
			for _, a := range pa {
				emit(d, a, 0)
			}
			continue
		}
		pb := pa
		if d.t[0] == 'f' && d.heavy { // arithmetic: every left operand against a rotating dozen of right operands
			for i, a := range pa {
				for k := 0; k < 12; k++ {
					emit(d, a, pa[(i*7+k*5+len(d.spec))%len(pa)])
				}
			}
			continue
		}
		if d.t[0] == 'f' && len(pa) > 24 { // float binaries: a subset of right operands
			pb = append(append([]uint64{}, pa[:18]...), pa[len(pa)-2*nRand:]...)
		}
		for _, a := range pa {
			for _, b := range pb {
				emit(d, a, b)
			}
		}
	}
	scalar := id
	vecCases(rng, func(c Case) {
		id++
		c.ID = id
		j, _ := json.Marshal(c)
		f.Write(append(j, '\n'))
	})
	common.Emit(map[string]int{"cases": id, "scalar": scalar, "vector": id - scalar})
	common.Flush()
}

// ---- execution

func vt(t string) wasm.ValueType {
	return map[string]wasm.ValueType{"i32": wb.I32, "i64": wb.I64, "f32": wb.F32, "f64": wb.F64}[t]
}

func constInstr(t string, v uint64) []byte {
	switch t {
	case "i32":
		return wb.I32Const(int32(uint32(v)))
	case "i64":
		return wb.I64Const(int64(v))
	case "f32":
		b := make([]byte, 4)
		binary.LittleEndian.PutUint32(b, uint32(v))
		return append([]byte{wasm.OpcodeF32Const}, b...)
	}
	b := make([]byte, 8)
	binary.LittleEndian.PutUint64(b, v)
	return append([]byte{wasm.OpcodeF64Const}, b...)
}

func opBytes(name string) []byte {
	// wazero's instruction table names the i8x16 saturating subtractions without "sat"
	if alias, ok := map[string]string{"i8x16.sub_sat_s": "i8x16.sub_s", "i8x16.sub_sat_u": "i8x16.sub_u", "f32.convert_i64_u": "f32.convert_i64u", "i8x16.shuffle": "v128.shuffle"}[name]; ok {
		name = alias
	}
	return wgen.Opcode(name)
}

func loadOf(t string) []byte {
	return map[string][]byte{"i32": {wasm.OpcodeI32Load}, "i64": {wasm.OpcodeI64Load}, "f32": {wasm.OpcodeF32Load}, "f64": {wasm.OpcodeF64Load}}[t]
}

type group struct {
	d     opDesc
	cases []Case
}

func classify(err error) string {
	s := err.Error()
	for _, k := range []string{"integer divide by zero", "integer overflow", "invalid conversion to integer"} {
		if strings.Contains(s, k) {
			return k
		}
	}
	return "other:" + s
}

func isNaN(t string, v uint64) bool {
	if t == "f32" {
		return uint32(v)&0x7f800000 == 0x7f800000 && uint32(v)&0x007fffff != 0
	}
	return v&0x7ff0000000000000 == 0x7ff0000000000000 && v&0x000fffffffffffff != 0
}

// Check is `driver numeric-check -cases file -expected file`.
func Check(args []string) {
	lines, err := common.ReadLines(common.Arg(args, "-cases", ""))
	if err != nil {
		common.Fatalf("cases: %v", err)
	}
	exl, err := common.ReadLines(common.Arg(args, "-expected", ""))
	if err != nil {
		common.Fatalf("expected: %v", err)
	}
	exp := map[int]Expected{}
	for _, l := range exl {
		var e Expected
		if err := json.Unmarshal(l, &e); err != nil {
			common.Fatalf("expected line: %v", err)
		}
		exp[e.ID] = e
	}
	byOp := map[string]*group{}
	descs := map[string]opDesc{}
	for _, d := range ops() {
		descs[d.spec+"/"+d.t] = d
	}
	var order []string
	vecGroups := map[string][]Case{}
	for _, l := range lines {
		var c Case
		_ = json.Unmarshal(l, &c)
		if c.T == "v128" {
			vecGroups[c.Wasm] = append(vecGroups[c.Wasm], c)
			continue
		}
		k := c.Op + "/" + c.T
		if byOp[k] == nil {
			byOp[k] = &group{d: descs[k]}
			order = append(order, k)
		}
		byOp[k].cases = append(byOp[k].cases, c)
	}
	type failure struct {
		Key  string `json:"key"`
		Msg  string `json:"msg"`
		Case int    `json:"case"`
	}
	var res struct {
		Fails []failure   `json:"fails"`
		Obs   interface{} `json:"obs"`
	}
	seen := map[string]bool{}
	ctx := context.Background()
	nexec := 0
	for _, k := range order {
		g := byOp[k]
		d := g.d
		for _, engine := range []string{"interpreter", "compiler"} {
			cfg := wazero.NewRuntimeConfigInterpreter()
			if engine == "compiler" {
				cfg = wazero.NewRuntimeConfigCompiler()
			}
			rt := wazero.NewRuntimeWithConfig(ctx, cfg)
			fail := func(c Case, form, what, msg string) {
				key := fmt.Sprintf("op=%s;t=%s;engine=%s;form=%s#%s", d.spec, d.t, engine, form, what)
				if seen[key] {
					return
				}
				seen[key] = true
				res.Fails = append(res.Fails, failure{Case: c.ID, Key: key, Msg: fmt.Sprintf("%s %s(%x, %x) [%s, %s operands]: %s", engine, nameOf(d), fromBytes(c.A), fromBytes(c.B), d.t, form, msg)})
			}
			compare := func(c Case, form string, got uint64, gerr error, resT string) {
				nexec++
				e, ok := exp[c.ID]
				if !ok {
					return
				}
				switch {
				case e.Trap != "":
					if gerr == nil {
						fail(c, form, "no-trap", fmt.Sprintf("returned %#x, the specification says trap: %s", got, e.Trap))
					} else if classify(gerr) != e.Trap {
						fail(c, form, "trap-kind", fmt.Sprintf("trapped with %q, the specification says %q", classify(gerr), e.Trap))
					}
				case gerr != nil:
					fail(c, form, "trap", fmt.Sprintf("trapped (%s), the specification says a value", classify(gerr)))
				case e.NaN:
					if !isNaN(resT, got) {
						fail(c, form, "value", fmt.Sprintf("returned %#x, the specification says NaN", got))
					}
				default:
					want := fromBytes(e.V)
					if resT == "i32" || resT == "f32" {
						got &= 0xffffffff
					}
					if got != want {
						fail(c, form, "value", fmt.Sprintf("returned %#x, the specification says %#x", got, want))
					}
				}
			}
			// scalar forms: parameters, and operands loaded from memory
			if d.wasm != "" {
				m := wb.New()
				one := uint32(1)
				m.Memory(1, &one, "mem")
				params := []wasm.ValueType{vt(d.t)}
				body := wb.LocalGet(0)
				mbody := wb.Cat(wb.I32Const(0), loadOf(d.t), wb.MemArg(0, 0))
				if d.binary {
					params = append(params, vt(d.t))
					body = append(body, wb.LocalGet(1)...)
					mbody = append(mbody, wb.Cat(wb.I32Const(8), loadOf(d.t), wb.MemArg(0, 0))...)
				}
				body = append(body, opBytes(d.wasm)...)
				mbody = append(mbody, opBytes(d.wasm)...)
				m.AddFunc(wb.Func{Params: params, Results: []wasm.ValueType{vt(d.res)}, Body: body, Export: "p"})
				m.AddFunc(wb.Func{Results: []wasm.ValueType{vt(d.res)}, Body: mbody, Export: "m"})
				mod, err := rt.Instantiate(ctx, m.Build())
				if err != nil {
					common.Fatalf("%s: %v", d.wasm, err)
				}
				for _, c := range g.cases {
					a := []uint64{fromBytes(c.A)}
					if d.binary {
						a = append(a, fromBytes(c.B))
					}
					r, err := mod.ExportedFunction("p").Call(ctx, a...)
					var v uint64
					if err == nil {
						v = r[0]
					}
					compare(c, "params", v, err, d.res)
					mod.Memory().WriteUint64Le(0, a[0])
					if d.binary {
						mod.Memory().WriteUint64Le(8, a[1])
					}
					r, err = mod.ExportedFunction("m").Call(ctx)
					v = 0
					if err == nil {
						v = r[0]
					}
					compare(c, "memory", v, err, d.res)
				}
				// constant operands (constant folding paths): one function per case, in batches
				for lo := 0; lo < len(g.cases); lo += 64 {
					hi := lo + 64
					if hi > len(g.cases) {
						hi = len(g.cases)
					}
					cm := wb.New()
					for i, c := range g.cases[lo:hi] {
						b := constInstr(d.t, fromBytes(c.A))
						if d.binary {
							b = append(b, constInstr(d.t, fromBytes(c.B))...)
						}
						cm.AddFunc(wb.Func{Results: []wasm.ValueType{vt(d.res)}, Body: append(b, opBytes(d.wasm)...), Export: fmt.Sprintf("c%d", i)})
						if d.binary { // one operand a constant, the other the caller's: what an immediate-operand encoding sees
							cm.AddFunc(wb.Func{Params: []wasm.ValueType{vt(d.t)}, Results: []wasm.ValueType{vt(d.res)},
								Body: wb.Cat(wb.LocalGet(0), constInstr(d.t, fromBytes(c.B)), opBytes(d.wasm)), Export: fmt.Sprintf("pc%d", i)})
							cm.AddFunc(wb.Func{Params: []wasm.ValueType{vt(d.t)}, Results: []wasm.ValueType{vt(d.res)},
								Body: wb.Cat(constInstr(d.t, fromBytes(c.A)), wb.LocalGet(0), opBytes(d.wasm)), Export: fmt.Sprintf("cp%d", i)})
						}
					}
					cmod, err := rt.InstantiateWithConfig(ctx, cm.Build(), wazero.NewModuleConfig().WithName(""))
					if err != nil {
						common.Fatalf("%s consts: %v", d.wasm, err)
					}
					for i, c := range g.cases[lo:hi] {
						r, err := cmod.ExportedFunction(fmt.Sprintf("c%d", i)).Call(ctx)
						var v uint64
						if err == nil {
							v = r[0]
						}
						compare(c, "consts", v, err, d.res)
						if d.binary {
							for _, f := range []struct {
								name string
								arg  uint64
							}{{"pc", fromBytes(c.A)}, {"cp", fromBytes(c.B)}} {
								r, err := cmod.ExportedFunction(fmt.Sprintf("%s%d", f.name, i)).Call(ctx, f.arg)
								v = 0
								if err == nil {
									v = r[0]
								}
								compare(c, map[string]string{"pc": "param-const", "cp": "const-param"}[f.name], v, err, d.res)
							}
						}
					}
					cmod.Close(ctx)
				}
			}
			// vector form: lanes filled with the cases' operands, each result lane compared with its scalar case
			if d.vec != "" {
				w := width(d.t)
				lanes := 16 / w
				rw := w
				resT := d.t
				if d.vecRes != "" {
					resT = d.vecRes
				}
				m := wb.New()
				one := uint32(1)
				m.Memory(1, &one, "mem")
				body := wb.Cat(wb.I32Const(64), wb.I32Const(0), wasm.OpcodeVecPrefix, wasm.OpcodeVecV128Load, wb.MemArg(0, 0))
				if d.binary {
					body = append(body, wb.Cat(wb.I32Const(16), wasm.OpcodeVecPrefix, wasm.OpcodeVecV128Load, wb.MemArg(0, 0))...)
				}
				body = append(body, wb.Cat(opBytes(d.vec), wasm.OpcodeVecPrefix, wasm.OpcodeVecV128Store, wb.MemArg(0, 0))...)
				m.AddFunc(wb.Func{Body: body, Export: "v"})
				mod, err := rt.Instantiate(ctx, m.Build())
				if err != nil {
					common.Fatalf("%s: %v", d.vec, err)
				}
				for lo := 0; lo < len(g.cases); lo += lanes {
					batch := g.cases[lo:]
					if len(batch) > lanes {
						batch = batch[:lanes]
					}
					buf := make([]byte, 32)
					for i, c := range batch {
						for j := 0; j < w; j++ {
							buf[i*w+j] = byte(c.A[j])
							if d.binary {
								buf[16+i*w+j] = byte(c.B[j])
							}
						}
					}
					mod.Memory().Write(0, buf)
					_, err := mod.ExportedFunction("v").Call(ctx)
					out, _ := mod.Memory().Read(64, 16)
					for i, c := range batch {
						var v uint64
						for j := rw - 1; j >= 0; j-- {
							v = v<<8 | uint64(out[i*rw+j])
						}
						e := exp[c.ID]
						// comparison instructions produce an all-ones / all-zeros lane mask; saturating conversions have no traps
						if e.Trap == "" && !e.NaN && len(e.V) == 4 && (d.res == "i32" || d.res == "") && isCompare(d.spec) {
							want := uint64(0)
							if fromBytes(e.V) != 0 {
								want = 1<<(8*uint(w)) - 1
								if w == 8 {
									want = ^uint64(0)
								}
							}
							nexec++
							if v != want {
								fail(c, "vector-lane", "value", fmt.Sprintf("lane %d is %#x, the specification says %#x", i, v, want))
							}
							continue
						}
						compare(c, "vector-lane", v, err, resT)
					}
				}
			}
			rt.Close(ctx)
		}
	}
	nvec := 0
	for _, d := range vecOps() {
		cases := vecGroups[d.wasm]
		if len(cases) == 0 {
			continue
		}
		nvec++
		for _, engine := range []string{"interpreter", "compiler"} {
			cfg := wazero.NewRuntimeConfigInterpreter()
			if engine == "compiler" {
				cfg = wazero.NewRuntimeConfigCompiler()
			}
			rt := wazero.NewRuntimeWithConfig(ctx, cfg)
			fail := func(c Case, form, what, msg string) {
				key := fmt.Sprintf("op=%s;engine=%s;form=%s#%s", d.wasm, engine, form, what)
				if seen[key] {
					return
				}
				seen[key] = true
				res.Fails = append(res.Fails, failure{Case: c.ID, Key: key, Msg: fmt.Sprintf("%s %s(a=% x, b=% x, c=% x) [%s]: %s", engine, d.wasm, bytesOf(c.A), bytesOf(c.B), bytesOf(c.C), form, msg)})
			}
			checkVector(ctx, rt, d, cases, exp, engine, fail, &nexec)
			rt.Close(ctx)
		}
	}
	res.Obs = map[string]int{"executions": nexec, "cases": len(lines), "ops": len(order), "vector_ops": nvec}
	common.Emit(res)
	common.Flush()
}

func isCompare(op string) bool {
	for _, p := range []string{"eq", "ne", "lt", "gt", "le", "ge"} {
		if op == p || strings.HasPrefix(op, p+"_") {
			return true
		}
	}
	return false
}

func nameOf(d opDesc) string {
	if d.wasm != "" {
		return d.wasm
	}
	return d.vec
}
