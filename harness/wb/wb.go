// Package wb is a small WebAssembly binary builder on top of wazero's internal test encoder.
package wb

import (
	"github.com/tetratelabs/wazero/internal/leb128"
	"github.com/tetratelabs/wazero/internal/testing/binaryencoding"
	"github.com/tetratelabs/wazero/internal/wasm"
)

const (
	I32       = wasm.ValueTypeI32
	I64       = wasm.ValueTypeI64
	F32       = wasm.ValueTypeF32
	F64       = wasm.ValueTypeF64
	V128      = wasm.ValueTypeV128
	Funcref   = wasm.ValueTypeFuncref
	Externref = wasm.ValueTypeExternref
)

// Func is one locally defined function.
type Func struct {
	Params, Results []wasm.ValueType
	Locals          []wasm.ValueType
	Body            []byte // without the trailing end
	Export          string
}

// Import of a function.
type ImportFunc struct {
	Module, Name    string
	Params, Results []wasm.ValueType
}

// Mod collects the parts; Build encodes them.
type Mod struct {
	M      wasm.Module
	nImpFn uint32
}

func New() *Mod { return &Mod{} }

func (m *Mod) typeIndex(p, r []wasm.ValueType) uint32 {
	for i := range m.M.TypeSection {
		t := &m.M.TypeSection[i]
		if string(t.Params) == string(p) && string(t.Results) == string(r) {
			return uint32(i)
		}
	}
	m.M.TypeSection = append(m.M.TypeSection, wasm.FunctionType{Params: p, Results: r})
	return uint32(len(m.M.TypeSection) - 1)
}

// TypeIndex returns (adding if needed) the index of a function type.
func (m *Mod) TypeIndex(p, r []wasm.ValueType) uint32 { return m.typeIndex(p, r) }

// ImportFunc must be called before any AddFunc. Returns the function index.
func (m *Mod) ImportFunc(mod, name string, p, r []wasm.ValueType) uint32 {
	m.M.ImportSection = append(m.M.ImportSection, wasm.Import{Type: wasm.ExternTypeFunc, Module: mod, Name: name, DescFunc: m.typeIndex(p, r)})
	m.nImpFn++
	m.M.ImportFunctionCount++
	return m.nImpFn - 1
}

func (m *Mod) ImportMemory(mod, name string, min uint32, max *uint32) {
	mem := &wasm.Memory{Min: min}
	if max != nil {
		mem.Max, mem.IsMaxEncoded = *max, true
	}
	m.M.ImportSection = append(m.M.ImportSection, wasm.Import{Type: wasm.ExternTypeMemory, Module: mod, Name: name, DescMem: mem})
	m.M.ImportMemoryCount++
}

func (m *Mod) ImportGlobal(mod, name string, vt wasm.ValueType, mutable bool) uint32 {
	m.M.ImportSection = append(m.M.ImportSection, wasm.Import{Type: wasm.ExternTypeGlobal, Module: mod, Name: name, DescGlobal: wasm.GlobalType{ValType: vt, Mutable: mutable}})
	m.M.ImportGlobalCount++
	return m.M.ImportGlobalCount - 1
}

func (m *Mod) ImportTable(mod, name string, rt wasm.RefType, min uint32, max *uint32) {
	m.M.ImportSection = append(m.M.ImportSection, wasm.Import{Type: wasm.ExternTypeTable, Module: mod, Name: name, DescTable: wasm.Table{Type: rt, Min: min, Max: max}})
	m.M.ImportTableCount++
}

// AddFunc appends a function and returns its index in the function index space.
func (m *Mod) AddFunc(f Func) uint32 {
	m.M.FunctionSection = append(m.M.FunctionSection, m.typeIndex(f.Params, f.Results))
	body := append(append([]byte{}, f.Body...), wasm.OpcodeEnd)
	m.M.CodeSection = append(m.M.CodeSection, wasm.Code{LocalTypes: f.Locals, Body: body})
	idx := m.nImpFn + uint32(len(m.M.FunctionSection)) - 1
	if f.Export != "" {
		m.M.ExportSection = append(m.M.ExportSection, wasm.Export{Type: wasm.ExternTypeFunc, Name: f.Export, Index: idx})
	}
	return idx
}

func (m *Mod) Memory(min uint32, max *uint32, export string) {
	mem := &wasm.Memory{Min: min}
	if max != nil {
		mem.Max, mem.IsMaxEncoded = *max, true
	}
	m.M.MemorySection = mem
	if export != "" {
		m.M.ExportSection = append(m.M.ExportSection, wasm.Export{Type: wasm.ExternTypeMemory, Name: export, Index: 0})
	}
}

func (m *Mod) Table(rt wasm.RefType, min uint32, max *uint32, export string) uint32 {
	m.M.TableSection = append(m.M.TableSection, wasm.Table{Type: rt, Min: min, Max: max})
	idx := m.M.ImportTableCount + uint32(len(m.M.TableSection)) - 1
	if export != "" {
		m.M.ExportSection = append(m.M.ExportSection, wasm.Export{Type: wasm.ExternTypeTable, Name: export, Index: idx})
	}
	return idx
}

func (m *Mod) Global(vt wasm.ValueType, mutable bool, init wasm.ConstantExpression, export string) uint32 {
	m.M.GlobalSection = append(m.M.GlobalSection, wasm.Global{Type: wasm.GlobalType{ValType: vt, Mutable: mutable}, Init: init})
	idx := m.M.ImportGlobalCount + uint32(len(m.M.GlobalSection)) - 1
	if export != "" {
		m.M.ExportSection = append(m.M.ExportSection, wasm.Export{Type: wasm.ExternTypeGlobal, Name: export, Index: idx})
	}
	return idx
}

func (m *Mod) Export(name string, t wasm.ExternType, idx uint32) {
	m.M.ExportSection = append(m.M.ExportSection, wasm.Export{Type: t, Name: name, Index: idx})
}

func (m *Mod) Start(idx uint32) { m.M.StartSection = &idx }

func (m *Mod) Data(seg wasm.DataSegment) {
	m.M.DataSection = append(m.M.DataSection, seg)
	if seg.Passive || true {
		n := uint32(len(m.M.DataSection))
		m.M.DataCountSection = &n
	}
}

func (m *Mod) Elem(seg wasm.ElementSegment) { m.M.ElementSection = append(m.M.ElementSection, seg) }

func (m *Mod) Name(n string) {
	if m.M.NameSection == nil {
		m.M.NameSection = &wasm.NameSection{}
	}
	m.M.NameSection.ModuleName = n
}

// Build encodes the module (own encoder: wazero's test encoder lacks passive/declarative elements).
func (m *Mod) Build() []byte { return encodeModule(&m.M) }

// BuildWithTestEncoder uses wazero's internal test encoder (kept for cross-checking the two encoders).
func (m *Mod) BuildWithTestEncoder() []byte { return binaryencoding.EncodeModule(&m.M) }

// ---- instruction helpers ---------------------------------------------------------------------

func U32(v uint32) []byte { return leb128.EncodeUint32(v) }
func S32(v int32) []byte  { return leb128.EncodeInt32(v) }
func S64(v int64) []byte  { return leb128.EncodeInt64(v) }

// Cat concatenates instruction fragments; ints < 256 are opcodes.
func Cat(parts ...interface{}) []byte {
	var out []byte
	for _, p := range parts {
		switch x := p.(type) {
		case byte:
			out = append(out, x)
		case int:
			out = append(out, byte(x))
		case []byte:
			out = append(out, x...)
		default:
			panic("wb.Cat: unsupported part")
		}
	}
	return out
}

func I32Const(v int32) []byte   { return append([]byte{wasm.OpcodeI32Const}, S32(v)...) }
func I64Const(v int64) []byte   { return append([]byte{wasm.OpcodeI64Const}, S64(v)...) }
func LocalGet(i uint32) []byte  { return append([]byte{wasm.OpcodeLocalGet}, U32(i)...) }
func LocalSet(i uint32) []byte  { return append([]byte{wasm.OpcodeLocalSet}, U32(i)...) }
func LocalTee(i uint32) []byte  { return append([]byte{wasm.OpcodeLocalTee}, U32(i)...) }
func GlobalGet(i uint32) []byte { return append([]byte{wasm.OpcodeGlobalGet}, U32(i)...) }
func GlobalSet(i uint32) []byte { return append([]byte{wasm.OpcodeGlobalSet}, U32(i)...) }
func Call(i uint32) []byte      { return append([]byte{wasm.OpcodeCall}, U32(i)...) }
func CallIndirect(typeIdx, table uint32) []byte {
	return Cat(wasm.OpcodeCallIndirect, U32(typeIdx), U32(table))
}
func Br(l uint32) []byte   { return append([]byte{wasm.OpcodeBr}, U32(l)...) }
func BrIf(l uint32) []byte { return append([]byte{wasm.OpcodeBrIf}, U32(l)...) }

// MemArg encodes alignment and offset.
func MemArg(align, offset uint32) []byte { return append(U32(align), U32(offset)...) }

// ConstI32 is a constant expression.
func ConstI32(v int32) wasm.ConstantExpression {
	return wasm.ConstantExpression{Opcode: wasm.OpcodeI32Const, Data: S32(v)}
}
func ConstI64(v int64) wasm.ConstantExpression {
	return wasm.ConstantExpression{Opcode: wasm.OpcodeI64Const, Data: S64(v)}
}
func ConstGlobalGet(i uint32) wasm.ConstantExpression {
	return wasm.ConstantExpression{Opcode: wasm.OpcodeGlobalGet, Data: U32(i)}
}
func ConstRefFunc(i uint32) wasm.ConstantExpression {
	return wasm.ConstantExpression{Opcode: wasm.OpcodeRefFunc, Data: U32(i)}
}
func ConstRefNull(rt wasm.RefType) wasm.ConstantExpression {
	return wasm.ConstantExpression{Opcode: wasm.OpcodeRefNull, Data: []byte{rt}}
}
