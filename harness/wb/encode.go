package wb

import (
	"github.com/tetratelabs/wazero/internal/wasm"
)

func vec(items [][]byte) []byte {
	out := U32(uint32(len(items)))
	for _, it := range items {
		out = append(out, it...)
	}
	return out
}

func name(s string) []byte { return append(U32(uint32(len(s))), s...) }

func section(id byte, content []byte) []byte {
	return append(append([]byte{id}, U32(uint32(len(content)))...), content...)
}

func limits(min uint32, max *uint32, shared bool) []byte {
	flag := byte(0)
	if max != nil {
		flag |= 1
	}
	if shared {
		flag |= 2
	}
	out := append([]byte{flag}, U32(min)...)
	if max != nil {
		out = append(out, U32(*max)...)
	}
	return out
}

func memType(m *wasm.Memory) []byte {
	var max *uint32
	if m.IsMaxEncoded {
		v := m.Max
		max = &v
	}
	return limits(m.Min, max, m.IsShared)
}

func tableType(t *wasm.Table) []byte { return append([]byte{t.Type}, limits(t.Min, t.Max, false)...) }

func constExpr(e wasm.ConstantExpression) []byte {
	out := []byte{e.Opcode}
	if e.Opcode == wasm.OpcodeVecV128Const {
		out = []byte{wasm.OpcodeVecPrefix, wasm.OpcodeVecV128Const}
	}
	out = append(out, e.Data...)
	return append(out, wasm.OpcodeEnd)
}

func funcType(t *wasm.FunctionType) []byte {
	out := []byte{0x60}
	out = append(out, U32(uint32(len(t.Params)))...)
	out = append(out, t.Params...)
	out = append(out, U32(uint32(len(t.Results)))...)
	return append(out, t.Results...)
}

func encodeModule(m *wasm.Module) []byte {
	out := []byte{0, 'a', 's', 'm', 1, 0, 0, 0}
	if n := len(m.TypeSection); n > 0 {
		var items [][]byte
		for i := range m.TypeSection {
			items = append(items, funcType(&m.TypeSection[i]))
		}
		out = append(out, section(1, vec(items))...)
	}
	if len(m.ImportSection) > 0 {
		var items [][]byte
		for i := range m.ImportSection {
			im := &m.ImportSection[i]
			b := append(name(im.Module), name(im.Name)...)
			b = append(b, im.Type)
			switch im.Type {
			case wasm.ExternTypeFunc:
				b = append(b, U32(im.DescFunc)...)
			case wasm.ExternTypeTable:
				b = append(b, tableType(&im.DescTable)...)
			case wasm.ExternTypeMemory:
				b = append(b, memType(im.DescMem)...)
			case wasm.ExternTypeGlobal:
				mut := byte(0)
				if im.DescGlobal.Mutable {
					mut = 1
				}
				b = append(b, im.DescGlobal.ValType, mut)
			}
			items = append(items, b)
		}
		out = append(out, section(2, vec(items))...)
	}
	if len(m.FunctionSection) > 0 {
		var items [][]byte
		for _, t := range m.FunctionSection {
			items = append(items, U32(t))
		}
		out = append(out, section(3, vec(items))...)
	}
	if len(m.TableSection) > 0 {
		var items [][]byte
		for i := range m.TableSection {
			items = append(items, tableType(&m.TableSection[i]))
		}
		out = append(out, section(4, vec(items))...)
	}
	if m.MemorySection != nil {
		out = append(out, section(5, vec([][]byte{memType(m.MemorySection)}))...)
	}
	if len(m.GlobalSection) > 0 {
		var items [][]byte
		for i := range m.GlobalSection {
			g := &m.GlobalSection[i]
			mut := byte(0)
			if g.Type.Mutable {
				mut = 1
			}
			items = append(items, append([]byte{g.Type.ValType, mut}, constExpr(g.Init)...))
		}
		out = append(out, section(6, vec(items))...)
	}
	if len(m.ExportSection) > 0 {
		var items [][]byte
		for i := range m.ExportSection {
			e := &m.ExportSection[i]
			items = append(items, append(append(name(e.Name), e.Type), U32(e.Index)...))
		}
		out = append(out, section(7, vec(items))...)
	}
	if m.StartSection != nil {
		out = append(out, section(8, U32(*m.StartSection))...)
	}
	if len(m.ElementSection) > 0 {
		var items [][]byte
		for i := range m.ElementSection {
			e := &m.ElementSection[i]
			var b []byte
			idxs := U32(uint32(len(e.Init)))
			for _, f := range e.Init {
				idxs = append(idxs, U32(f)...)
			}
			switch e.Mode {
			case wasm.ElementModeActive:
				if e.TableIndex == 0 {
					b = append(append([]byte{0}, constExpr(e.OffsetExpr)...), idxs...)
				} else {
					b = append(append(append([]byte{2}, U32(e.TableIndex)...), constExpr(e.OffsetExpr)...), 0x00)
					b = append(b, idxs...)
				}
			case wasm.ElementModePassive:
				b = append([]byte{1, 0x00}, idxs...)
			case wasm.ElementModeDeclarative:
				b = append([]byte{3, 0x00}, idxs...)
			}
			items = append(items, b)
		}
		out = append(out, section(9, vec(items))...)
	}
	if m.DataCountSection != nil {
		out = append(out, section(12, U32(*m.DataCountSection))...)
	}
	if len(m.CodeSection) > 0 {
		var items [][]byte
		for i := range m.CodeSection {
			c := &m.CodeSection[i]
			// locals: run-length encode
			var groups [][]byte
			for j := 0; j < len(c.LocalTypes); {
				k := j
				for k < len(c.LocalTypes) && c.LocalTypes[k] == c.LocalTypes[j] {
					k++
				}
				groups = append(groups, append(U32(uint32(k-j)), c.LocalTypes[j]))
				j = k
			}
			body := append(vec(groups), c.Body...)
			items = append(items, append(U32(uint32(len(body))), body...))
		}
		out = append(out, section(10, vec(items))...)
	}
	if len(m.DataSection) > 0 {
		var items [][]byte
		for i := range m.DataSection {
			d := &m.DataSection[i]
			var b []byte
			if d.Passive {
				b = []byte{1}
			} else {
				b = append([]byte{0}, constExpr(d.OffsetExpression)...)
			}
			b = append(b, U32(uint32(len(d.Init)))...)
			items = append(items, append(b, d.Init...))
		}
		out = append(out, section(11, vec(items))...)
	}
	if m.NameSection != nil && m.NameSection.ModuleName != "" {
		sub := name(m.NameSection.ModuleName)
		content := append(name("name"), append([]byte{0}, append(U32(uint32(len(sub))), sub...)...)...)
		out = append(out, section(0, content)...)
	}
	return out
}
