// Package cacheconf runs the scenarios of spec/CacheConfig.tla: runtimes configured by points of the lattice of
// non-semantic options, possibly sharing a compilation cache, each executing lone-instance histories of
// Isolation.tla whose outcome must not depend on the point (C12).
package cacheconf

import (
	"context"
	"encoding/json"
	"fmt"
	"os"
	"time"

	"github.com/tetratelabs/wazero"
	"github.com/tetratelabs/wazero/api"
	"github.com/tetratelabs/wazero/experimental"
	"github.com/tetratelabs/wazero/verifharness/common"
	"github.com/tetratelabs/wazero/verifharness/guard"
	"github.com/tetratelabs/wazero/verifharness/isoreplay"
	"github.com/tetratelabs/wazero/verifharness/ug"
)

type point struct {
	CapFromMax  bool   `json:"capFromMax"`
	Allocator   bool   `json:"allocator"`
	NoDebug     bool   `json:"nodebug"`
	Custom      bool   `json:"custom"`
	Listeners   string `json:"listeners"`
	CloseOnDone bool   `json:"closeOnDone"`
}

type stepT struct {
	Point point  `json:"point"`
	Cache string `json:"cache"`
	How   string `json:"how"`
}

type scenario struct {
	Steps   []stepT               `json:"steps"`
	Scripts []isoreplay.Behaviour `json:"scripts"`
	Engine  string                `json:"engine"`
}

type recFactory struct{ n int }

func (f *recFactory) NewFunctionListener(api.FunctionDefinition) experimental.FunctionListener {
	return &recL{f}
}

type recL struct{ f *recFactory }

func (l *recL) Before(context.Context, api.Module, api.FunctionDefinition, []uint64, experimental.StackIterator) {
	l.f.n++
}
func (l *recL) After(context.Context, api.Module, api.FunctionDefinition, []uint64) { l.f.n++ }
func (l *recL) Abort(context.Context, api.Module, api.FunctionDefinition, error)    { l.f.n++ }

type nilFactory struct{}

func (nilFactory) NewFunctionListener(api.FunctionDefinition) experimental.FunctionListener {
	return nil
}

func pname(p point) string {
	s := ""
	add := func(b bool, n string) {
		if b {
			s += "+" + n
		}
	}
	add(p.CapFromMax, "capFromMax")
	add(p.Allocator, "allocator")
	add(p.NoDebug, "nodebug")
	add(p.Custom, "custom")
	add(p.CloseOnDone, "closeOnDone")
	if p.Listeners != "none" {
		s += "+listeners:" + p.Listeners
	}
	if s == "" {
		return "bottom"
	}
	return s[1:]
}

func runScenario(id int, raw json.RawMessage) common.Result {
	res := common.Result{ID: id, OK: true}
	var sc scenario
	if err := json.Unmarshal(raw, &sc); err != nil {
		res.AddFail("infra", err.Error())
		return res
	}
	bg := context.Background()
	dir, _ := os.MkdirTemp(os.Getenv("VERIF_WORK"), "cc")
	defer os.RemoveAll(dir)
	memCache := wazero.NewCompilationCache()
	defer memCache.Close(bg)
	bin := ug.Build(isoreplay.Shape)
	order := ""
	for si, st := range sc.Steps {
		p := st.Point
		cfg := wazero.NewRuntimeConfigInterpreter()
		if sc.Engine == "compiler" {
			cfg = wazero.NewRuntimeConfigCompiler()
		}
		cfg = cfg.WithMemoryCapacityFromMax(p.CapFromMax).WithDebugInfoEnabled(!p.NoDebug).WithCustomSections(p.Custom).WithCloseOnContextDone(p.CloseOnDone)
		switch st.Cache {
		case "mem":
			cfg = cfg.WithCompilationCache(memCache)
		case "dir":
			c, err := wazero.NewCompilationCacheWithDir(dir) // a fresh cache object over the (possibly warm) directory
			if err != nil {
				res.AddFail("infra:dircache", err.Error())
				return res
			}
			defer c.Close(bg)
			cfg = cfg.WithCompilationCache(c)
		}
		ctx := bg
		switch p.Listeners {
		case "recording":
			ctx = experimental.WithFunctionListenerFactory(ctx, &recFactory{})
		case "nilfactory":
			ctx = experimental.WithFunctionListenerFactory(ctx, nilFactory{})
		}
		if p.Allocator {
			ctx = experimental.WithMemoryAllocator(ctx, guard.New())
		}
		rt := wazero.NewRuntimeWithConfig(ctx, cfg)
		cm, err := rt.CompileModule(ctx, bin)
		order += fmt.Sprintf("%s@%s;", pname(p), st.Cache)
		label := fmt.Sprintf("engine=%s;runtimes=%s", sc.Engine, order)
		if err != nil {
			res.AddFail(label+"#compile", fmt.Sprintf("%s step %d: compile failed: %v", label, si+1, err))
			rt.Close(bg)
			return res
		}
		for _, script := range sc.Scripts {
			script := script
			fails := isoreplay.ReplayWith(&script, label, func(i int) (api.Module, error) {
				return rt.InstantiateModule(ctx, cm, wazero.NewModuleConfig().WithName(""))
			}, func() (context.Context, func()) {
				if !p.CloseOnDone {
					return ctx, func() {}
				}
				// the usual embedder pattern: a per-call context, cancelled when the call has returned
				c, cancel := context.WithCancel(ctx)
				return c, func() { cancel(); time.Sleep(200 * time.Microsecond) }
			})
			for _, f := range fails {
				res.AddFail(f.Key, f.Msg)
			}
			if !res.OK {
				break
			}
		}
		rt.Close(bg)
		if !res.OK {
			return res
		}
	}
	return res
}

func Child(args []string) { common.ChildLoop(runScenario) }

// Main is `driver run-cacheconf -in file`.
func Main(args []string) {
	lines, err := common.ReadLines(common.Arg(args, "-in", ""))
	if err != nil {
		common.Fatalf("read: %v", err)
	}
	results := common.Supervise("cacheconf-child", nil, lines, 120*time.Second, 12)
	for i := range results {
		r := &results[i]
		if !r.OK && (r.Key == "crash" || r.Key == "hang") {
			var sc scenario
			_ = json.Unmarshal(lines[i], &sc)
			order := ""
			for _, st := range sc.Steps {
				order += fmt.Sprintf("%s@%s;", pname(st.Point), st.Cache)
			}
			k, msg := r.Key, r.Msg
			*r = common.Result{ID: r.ID}
			r.AddFail(fmt.Sprintf("engine=%s;runtimes=%s#process-%s", sc.Engine, order, k), msg)
		}
		common.Emit(*r)
	}
	common.Flush()
}
