// Package cacheconf runs the scenarios of spec/CacheConfig.tla: runtimes configured by points of the lattice of
// non-semantic options, possibly sharing a compilation cache, each executing lone-instance histories of
// Isolation.tla whose outcome must not depend on the point (C12).
package cacheconf

import (
	"context"
	"encoding/json"
	"fmt"
	"os"
	"time"

	"github.com/tetratelabs/wazero"
	"github.com/tetratelabs/wazero/api"
	"github.com/tetratelabs/wazero/experimental"
	"github.com/tetratelabs/wazero/internal/leb128"
	"github.com/tetratelabs/wazero/verifharness/common"
	"github.com/tetratelabs/wazero/verifharness/guard"
	"github.com/tetratelabs/wazero/verifharness/isoreplay"
	"github.com/tetratelabs/wazero/verifharness/ug"
)

type point struct {
	CapFromMax  bool   `json:"capFromMax"`
	Allocator   string `json:"allocator"` // none | guard | spare
	NoDebug     bool   `json:"nodebug"`
	Custom      bool   `json:"custom"`
	Listeners   string `json:"listeners"`
	CloseOnDone bool   `json:"closeOnDone"`
}

type stepT struct {
	Point point  `json:"point"`
	Cache string `json:"cache"`
	How   string `json:"how"`
}

type scenario struct {
	Steps   []stepT               `json:"steps"`
	Scripts []isoreplay.Behaviour `json:"scripts"`
	Engine  string                `json:"engine"`
}

type recFactory struct{ n int }

func (f *recFactory) NewFunctionListener(api.FunctionDefinition) experimental.FunctionListener {
	return &recL{f}
}

type recL struct{ f *recFactory }

func (l *recL) Before(context.Context, api.Module, api.FunctionDefinition, []uint64, experimental.StackIterator) {
	l.f.n++
}
func (l *recL) After(context.Context, api.Module, api.FunctionDefinition, []uint64) { l.f.n++ }
func (l *recL) Abort(context.Context, api.Module, api.FunctionDefinition, error)    { l.f.n++ }

type nilFactory struct{}

func (nilFactory) NewFunctionListener(api.FunctionDefinition) experimental.FunctionListener {
	return nil
}

func pname(p point) string {
	s := ""
	add := func(b bool, n string) {
		if b {
			s += "+" + n
		}
	}
	add(p.CapFromMax, "capFromMax")
	add(p.Allocator != "none" && p.Allocator != "", "allocator="+p.Allocator)
	add(p.NoDebug, "nodebug")
	add(p.Custom, "custom")
	add(p.CloseOnDone, "closeOnDone")
	if p.Listeners != "none" {
		s += "+listeners:" + p.Listeners
	}
	if s == "" {
		return "bottom"
	}
	return s[1:]
}

func runScenario(id int, raw json.RawMessage) common.Result {
	res := common.Result{ID: id, OK: true}
	var sc scenario
	if err := json.Unmarshal(raw, &sc); err != nil {
		res.AddFail("infra", err.Error())
		return res
	}
	bg := context.Background()
	dir, _ := os.MkdirTemp(os.Getenv("VERIF_WORK"), "cc")
	defer os.RemoveAll(dir)
	memCache := wazero.NewCompilationCache()
	defer memCache.Close(bg)
	bin := ug.Build(isoreplay.Shape)
	// debug information and custom sections the runtime may keep or drop: a .debug_info section that does not parse (a
	// compiler bug upstream must not change whether the module compiles) and an arbitrary custom section
	for _, cs := range [][2]string{{".debug_info", "\x01\x02not dwarf at all\xff\xff\xff\xff"}, {"producers", "\x00"}} {
		payload := append(append(leb128.EncodeUint32(uint32(len(cs[0]))), cs[0]...), cs[1]...)
		bin = append(bin, append(append([]byte{0}, leb128.EncodeUint32(uint32(len(payload)))...), payload...)...)
	}
	order := ""
	for si, st := range sc.Steps {
		p := st.Point
		cfg := wazero.NewRuntimeConfigInterpreter()
		if sc.Engine == "compiler" {
			cfg = wazero.NewRuntimeConfigCompiler()
		}
		cfg = cfg.WithMemoryCapacityFromMax(p.CapFromMax).WithDebugInfoEnabled(!p.NoDebug).WithCustomSections(p.Custom).WithCloseOnContextDone(p.CloseOnDone)
		switch st.Cache {
		case "mem":
			cfg = cfg.WithCompilationCache(memCache)
		case "dir":
			c, err := wazero.NewCompilationCacheWithDir(dir) // a fresh cache object over the (possibly warm) directory
			if err != nil {
				res.AddFail("infra:dircache", err.Error())
				return res
			}
			defer c.Close(bg)
			cfg = cfg.WithCompilationCache(c)
		}
		ctx := bg
		switch p.Listeners {
		case "recording":
			ctx = experimental.WithFunctionListenerFactory(ctx, &recFactory{})
		case "nilfactory":
			ctx = experimental.WithFunctionListenerFactory(ctx, nilFactory{})
		}
		switch p.Allocator {
		case "guard":
			ctx = experimental.WithMemoryAllocator(ctx, guard.New())
		case "spare":
			ctx = experimental.WithMemoryAllocator(ctx, spareAlloc{})
		}
		rt := wazero.NewRuntimeWithConfig(ctx, cfg)
		cm, err := rt.CompileModule(ctx, bin)
		order += fmt.Sprintf("%s@%s;", pname(p), st.Cache)
		label := fmt.Sprintf("engine=%s;runtimes=%s", sc.Engine, order)
		if err != nil {
			res.AddFail(label+"#compile", fmt.Sprintf("%s step %d: compile failed: %v", label, si+1, err))
			rt.Close(bg)
			return res
		}
		for _, script := range sc.Scripts {
			script := script
			fails := isoreplay.ReplayWith(&script, label, func(i int) (api.Module, error) {
				return rt.InstantiateModule(ctx, cm, wazero.NewModuleConfig().WithName(""))
			}, func() (context.Context, func()) {
				if !p.CloseOnDone {
					return ctx, func() {}
				}
				// the usual embedder pattern: a per-call context, cancelled when the call has returned
				c, cancel := context.WithCancel(ctx)
				return c, func() { cancel(); time.Sleep(200 * time.Microsecond) }
			})
			for _, f := range fails {
				res.AddFail(f.Key, f.Msg)
			}
			if !res.OK {
				break
			}
		}
		rt.Close(bg)
		if !res.OK {
			return res
		}
	}
	return res
}

func Child(args []string) { common.ChildLoop(runScenario) }

// Main is `driver run-cacheconf -in file`.
func Main(args []string) {
	lines, err := common.ReadLines(common.Arg(args, "-in", ""))
	if err != nil {
		common.Fatalf("read: %v", err)
	}
	results := common.SuperviseRetry("cacheconf-child", nil, lines, 120*time.Second, 12)
	for i := range results {
		r := &results[i]
		if !r.OK && (r.Key == "crash" || r.Key == "hang") {
			var sc scenario
			_ = json.Unmarshal(lines[i], &sc)
			order := ""
			for _, st := range sc.Steps {
				order += fmt.Sprintf("%s@%s;", pname(st.Point), st.Cache)
			}
			k, msg := r.Key, r.Msg
			*r = common.Result{ID: r.ID}
			r.AddFail(fmt.Sprintf("engine=%s;runtimes=%s#process-%s", sc.Engine, order, k), msg)
		}
		common.Emit(*r)
	}
	common.Flush()
}

// spareAlloc hands out slices of a pre-dirtied slab: the slice has spare capacity whose bytes are NOT zero; a range becomes
// clean only when the runtime asks for it through Reallocate (as an allocator that commits / recycles pages lazily does).
type spareAlloc struct{}

type spareMem struct {
	slab []byte
	size uint64
}

func (spareAlloc) Allocate(cap, max uint64) experimental.LinearMemory {
	if max > 64<<20 {
		max = 64 << 20
	}
	slab := make([]byte, max)
	for i := range slab {
		slab[i] = 0xAA
	}
	return &spareMem{slab: slab}
}

func (m *spareMem) Reallocate(size uint64) []byte {
	if size > uint64(len(m.slab)) {
		return nil
	}
	for i := m.size; i < size; i++ {
		m.slab[i] = 0
	}
	if size > m.size {
		m.size = size
	}
	return m.slab[:size]
}

func (m *spareMem) Free() {}
