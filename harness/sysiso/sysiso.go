// Package sysiso replays histories of spec/SysIsolation.tla (C11): instances from ONE compiled module and ONE ModuleConfig
// lineage must each have their own random stream, clock, standard output and descriptor table.
package sysiso

import (
	"bytes"
	"context"
	"encoding/json"
	"fmt"
	"os"
	"path/filepath"
	"time"

	"github.com/tetratelabs/wazero"
	"github.com/tetratelabs/wazero/api"
	"github.com/tetratelabs/wazero/imports/wasi_snapshot_preview1"
	"github.com/tetratelabs/wazero/internal/wasm"
	"github.com/tetratelabs/wazero/verifharness/common"
	"github.com/tetratelabs/wazero/verifharness/wb"
)

type step struct {
	I   int    `json:"i"`
	Op  string `json:"op"`
	X   int    `json:"x"`
	Res int    `json:"res"`
	St  []struct {
		Alive bool  `json:"alive"`
		Out   []int `json:"out"`
		NFds  int   `json:"nfds"`
	} `json:"st"`
}

type behaviour struct {
	Hist []step `json:"hist"`
}

func guest() []byte {
	m := wb.New()
	i32, i64 := wb.I32, wb.I64
	w := "wasi_snapshot_preview1"
	rnd := m.ImportFunc(w, "random_get", []wasm.ValueType{i32, i32}, []wasm.ValueType{i32})
	clk := m.ImportFunc(w, "clock_time_get", []wasm.ValueType{i32, i64, i32}, []wasm.ValueType{i32})
	fdw := m.ImportFunc(w, "fd_write", []wasm.ValueType{i32, i32, i32, i32}, []wasm.ValueType{i32})
	popen := m.ImportFunc(w, "path_open", []wasm.ValueType{i32, i32, i32, i32, i32, i64, i64, i32, i32}, []wasm.ValueType{i32})
	fdc := m.ImportFunc(w, "fd_close", []wasm.ValueType{i32}, []wasm.ValueType{i32})
	one := uint32(1)
	m.Memory(1, &one, "memory")
	m.Data(wasm.DataSegment{OffsetExpression: wb.ConstI32(1064), Init: []byte("f")})
	// rand() -> i64 : 8 bytes of the random stream
	m.AddFunc(wb.Func{Results: []wasm.ValueType{i64}, Export: "rand", Body: wb.Cat(
		wb.I32Const(1024), wb.I32Const(8), wb.Call(rnd), wasm.OpcodeDrop, wb.I32Const(1024), wasm.OpcodeI64Load, wb.MemArg(3, 0))})
	// clock() -> i64 : realtime clock
	m.AddFunc(wb.Func{Results: []wasm.ValueType{i64}, Export: "clock", Body: wb.Cat(
		wb.I32Const(0), wb.I64Const(0), wb.I32Const(1032), wb.Call(clk), wasm.OpcodeDrop, wb.I32Const(1032), wasm.OpcodeI64Load, wb.MemArg(3, 0))})
	// out(b) -> errno : one byte to stdout
	m.AddFunc(wb.Func{Params: []wasm.ValueType{i32}, Results: []wasm.ValueType{i32}, Export: "out", Body: wb.Cat(
		wb.I32Const(1040), wb.LocalGet(0), wasm.OpcodeI32Store8, wb.MemArg(0, 0),
		wb.I32Const(1048), wb.I32Const(1040), wasm.OpcodeI32Store, wb.MemArg(2, 0),
		wb.I32Const(1052), wb.I32Const(1), wasm.OpcodeI32Store, wb.MemArg(2, 0),
		wb.I32Const(1), wb.I32Const(1048), wb.I32Const(1), wb.I32Const(1056), wb.Call(fdw))})
	// fdopen() -> fd or -errno : opens the file "f" of the pre-opened root (fd 3)
	m.AddFunc(wb.Func{Results: []wasm.ValueType{i32}, Locals: []wasm.ValueType{i32}, Export: "fdopen", Body: wb.Cat(
		wb.I32Const(3), wb.I32Const(0), wb.I32Const(1064), wb.I32Const(1), wb.I32Const(0), wb.I64Const(0), wb.I64Const(0), wb.I32Const(0), wb.I32Const(1072),
		wb.Call(popen), wb.LocalTee(0), wasm.OpcodeIf, 0x7f, wb.I32Const(0), wb.LocalGet(0), wasm.OpcodeI32Sub, wasm.OpcodeElse,
		wb.I32Const(1072), wasm.OpcodeI32Load, wb.MemArg(2, 0), wasm.OpcodeEnd)})
	m.AddFunc(wb.Func{Params: []wasm.ValueType{i32}, Results: []wasm.ValueType{i32}, Export: "fdclose", Body: wb.Cat(wb.LocalGet(0), wb.Call(fdc))})
	return m.Build()
}

func newRuntime(ctx context.Context, engine string) (wazero.Runtime, wazero.CompiledModule, error) {
	cfg := wazero.NewRuntimeConfigInterpreter()
	if engine == "compiler" {
		cfg = wazero.NewRuntimeConfigCompiler()
	}
	rt := wazero.NewRuntimeWithConfig(ctx, cfg)
	if _, err := wasi_snapshot_preview1.Instantiate(ctx, rt); err != nil {
		return nil, nil, err
	}
	cm, err := rt.CompileModule(ctx, guest())
	return rt, cm, err
}

// lone streams: what an instance that is alone reads
func reference(ctx context.Context, engine, dir string, n int) (rnd, clk []uint64, err error) {
	rt, cm, err := newRuntime(ctx, engine)
	if err != nil {
		return nil, nil, err
	}
	defer rt.Close(ctx)
	mod, err := rt.InstantiateModule(ctx, cm, wazero.NewModuleConfig().WithFSConfig(wazero.NewFSConfig().WithReadOnlyDirMount(dir, "/")).WithName(""))
	if err != nil {
		return nil, nil, err
	}
	for i := 0; i < n; i++ {
		r, err := mod.ExportedFunction("rand").Call(ctx)
		if err != nil {
			return nil, nil, err
		}
		c, err := mod.ExportedFunction("clock").Call(ctx)
		if err != nil {
			return nil, nil, err
		}
		rnd, clk = append(rnd, r[0]), append(clk, c[0])
	}
	return
}

func replayOne(id int, raw json.RawMessage) common.Result {
	res := common.Result{ID: id, OK: true}
	var b behaviour
	if err := json.Unmarshal(raw, &b); err != nil {
		res.AddFail("infra", err.Error())
		return res
	}
	ctx := context.Background()
	dir := filepath.Join(os.TempDir(), fmt.Sprintf("verif-sysiso-%d", os.Getpid()))
	_ = os.MkdirAll(dir, 0o755)
	_ = os.WriteFile(filepath.Join(dir, "f"), []byte("x"), 0o644)
	for _, engine := range []string{"interpreter", "compiler"} {
		refR, refC, err := reference(ctx, engine, dir, 8)
		if err != nil {
			res.AddFail("infra:reference", err.Error())
			return res
		}
		rt, cm, err := newRuntime(ctx, engine)
		if err != nil {
			res.AddFail("infra", err.Error())
			return res
		}
		// ONE lineage: every instance's configuration is derived from this value
		base := wazero.NewModuleConfig().WithFSConfig(wazero.NewFSConfig().WithReadOnlyDirMount(dir, "/"))
		insts := map[int]api.Module{}
		outs := map[int]*bytes.Buffer{}
		mk := func(i int) error {
			outs[i] = &bytes.Buffer{}
			mod, err := rt.InstantiateModule(ctx, cm, base.WithStdout(outs[i]).WithName(""))
			insts[i] = mod
			return err
		}
		if err := mk(1); err != nil {
			res.AddFail("infra:instantiate", err.Error())
			return res
		}
		prev := ""
		for k := range b.Hist {
			s := &b.Hist[k]
			fail := func(what, msg string) {
				res.Step = k + 1
				res.AddFail(fmt.Sprintf("engine=%s;%s%s#%s", engine, prev, s.Op, what), fmt.Sprintf("%s step %d %s(%d) on instance %d: %s", engine, k+1, s.Op, s.X, s.I, msg))
			}
			switch s.Op {
			case "inst":
				if err := mk(s.I); err != nil {
					fail("instantiate", err.Error())
				}
			case "close":
				_ = insts[s.I].Close(ctx)
			case "rand", "clock":
				out, err := insts[s.I].ExportedFunction(s.Op).Call(ctx)
				ref := refR
				if s.Op == "clock" {
					ref = refC
				}
				if err != nil {
					fail("error", err.Error())
				} else if s.Res < len(ref) && out[0] != ref[s.Res] {
					fail("stream", fmt.Sprintf("read %#x; alone, the instance's read number %d gives %#x", out[0], s.Res, ref[s.Res]))
				}
			case "out":
				out, err := insts[s.I].ExportedFunction("out").Call(ctx, uint64(s.X+s.I))
				if err != nil || uint32(out[0]) != 0 {
					fail("error", fmt.Sprintf("fd_write: %v %v", out, err))
				}
			case "fdopen":
				out, err := insts[s.I].ExportedFunction("fdopen").Call(ctx)
				if err != nil || int32(out[0]) != int32(s.Res) {
					fail("descriptor", fmt.Sprintf("path_open gave %v (%v); alone, the instance would get descriptor %d", out, err, s.Res))
				}
			case "fdclose":
				out, err := insts[s.I].ExportedFunction("fdclose").Call(ctx, uint64(s.X))
				if err != nil || int32(out[0]) != int32(s.Res) {
					fail("errno", fmt.Sprintf("fd_close(%d) gave %v (%v); alone, the instance would get errno %d", s.X, out, err, s.Res))
				}
			}
			for j, o := range s.St {
				if !o.Alive || outs[j+1] == nil {
					continue
				}
				got := outs[j+1].Bytes()
				if len(got) != len(o.Out) {
					fail("stdout", fmt.Sprintf("standard output of instance %d holds %v, alone it would hold %v", j+1, got, o.Out))
					continue
				}
				for q := range got {
					if int(got[q]) != o.Out[q] {
						fail("stdout", fmt.Sprintf("standard output of instance %d holds %v, alone it would hold %v", j+1, got, o.Out))
						break
					}
				}
			}
			if !res.OK {
				break
			}
			prev = s.Op + ";"
		}
		rt.Close(ctx)
	}
	_ = os.RemoveAll(dir)
	return res
}

func Child(args []string) { common.ChildLoop(replayOne) }

// Main is `driver replay-sysiso -in file`.
func Main(args []string) {
	lines, err := common.ReadLines(common.Arg(args, "-in", ""))
	if err != nil {
		common.Fatalf("read: %v", err)
	}
	for _, r := range common.SuperviseRetry("sysiso-child", nil, lines, 120*time.Second, 12) {
		common.Emit(r)
	}
	common.Flush()
}
