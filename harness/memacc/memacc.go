// Package memacc assembles the programs of spec/MemAccess.tla and compares their execution on both
// engines with the reference outcomes the specification computed (C02).
package memacc

import (
	"context"
	"encoding/json"
	"fmt"
	"math/bits"
	"os"
	"strconv"
	"strings"
	"time"

	"github.com/tetratelabs/wazero"
	"github.com/tetratelabs/wazero/api"
	"github.com/tetratelabs/wazero/experimental"
	"github.com/tetratelabs/wazero/internal/wasm"
	"github.com/tetratelabs/wazero/verifharness/common"
	"github.com/tetratelabs/wazero/verifharness/guard"
	"github.com/tetratelabs/wazero/verifharness/wb"
)

type tok struct {
	T  string `json:"t"`
	V  int    `json:"v"`
	Ou int    `json:"ou"`
	Od int    `json:"od"`
	W  int    `json:"w"`
	St bool   `json:"st"`
}

type acc struct {
	St bool `json:"st"`
	Eu int  `json:"eu"`
	Ed int  `json:"ed"`
	W  int  `json:"w"`
	At int  `json:"at"`
	Pg int  `json:"pg"` // size in units when the access executed
}

type run struct {
	Inp struct {
		S   int `json:"s"`
		V0u int `json:"v0u"`
		V0d int `json:"v0d"`
		V1u int `json:"v1u"`
		V1d int `json:"v1d"`
		C   int `json:"c"`
	} `json:"inp"`
	Trap   bool  `json:"trap"`
	TrapAt int   `json:"trapAt"`
	Pages  int   `json:"pages"`
	Accs   []acc `json:"accs"`
}

type program struct {
	Prog  []tok `json:"prog"`
	Runs  []run `json:"runs"`
	Scale int   `json:"scale"` // pages per unit
	TopU  int   `json:"topu"`
	Const bool  `json:"const"` // also run the variant whose addresses are compile-time constants
}

func unitBytes(p *program) int64 { return int64(p.Scale) * 65536 }

func abs(p *program, u, d int) int64 { return int64(u)*unitBytes(p) + int64(d) }

// pattern byte initially stored at an address
func pat(a int64) byte { return byte(a*31+7) ^ byte(a>>8) ^ byte(a>>20) }

// value stored by the store token at program position at (1-based), byte i
func storeByte(at, i int) byte { return byte(0xA0 + at*7 + i) }

const (
	locP0  = 0
	locP1  = 1
	locC   = 2
	locAcc = 3
	locTmp = 4
	locCnt = 5 // .. one per loop nesting level (max 3)
)

// build assembles the function; consts != nil replaces the address parameters by constants.
//
// kind says what the "call" / "callgrow" tokens call: "local" functions of the module, "host" functions imported from env
// (the growing one uses api.Memory.Grow on the caller's memory) or "reenter": host functions that call back exports of the guest.
func build(p *program, minPages, maxPages uint32, consts *[2]uint32, kind string) []byte {
	return buildOpt(p, minPages, maxPages, consts, kind, bopt{})
}

// bopt: further dimensions of MemAccessMC (Provenances, MemKinds).
//
//	narrow[i]: address local i is produced INSIDE the function by a sign-extending 16-bit load from a scratch cell (the
//	           host puts the address there before the call, the prologue restores the cell's pattern bytes): a 32-bit value
//	           made by a narrow sign extension - what is in the upper half of its register is the compiler's business
//	impMem:    the memory is defined by another module ("owner") and imported
type bopt struct {
	narrow [2]bool
	impMem bool
	shared bool // the memory is declared shared (threads): its buffer is allocated for the maximum at once
	wrap   bool // both addresses pass through i64 (upper half set to a marker) and i32.wrap_i64 inside the function
}

var narrowCell = [2]uint32{32, 40}

// narrowable: the address is the sign extension of its low 16 bits.
func narrowable(a uint32) bool { return uint32(int32(int16(uint16(a)))) == a }

// ownerModule defines and exports the memory for the impMem variants.
func ownerModule(minPages, maxPages uint32) []byte {
	m := wb.New()
	m.Memory(minPages, &maxPages, "mem")
	return m.Build()
}

func buildOpt(p *program, minPages, maxPages uint32, consts *[2]uint32, kind string, o bopt) []byte {
	m := wb.New()
	var hnop, hgrow uint32
	if kind != "local" {
		hnop = m.ImportFunc("env", kind+"_nop", nil, nil)
		hgrow = m.ImportFunc("env", kind+"_grow", nil, nil)
	}
	if o.impMem {
		m.ImportMemory("owner", "mem", minPages, &maxPages)
	} else {
		m.Memory(minPages, &maxPages, "mem")
		m.M.MemorySection.IsShared = o.shared
	}
	nop := m.AddFunc(wb.Func{Export: "nopf"})
	grower := m.AddFunc(wb.Func{Body: wb.Cat(wb.I32Const(int32(p.Scale)), wasm.OpcodeMemoryGrow, 0, wasm.OpcodeDrop), Export: "grow1"})
	if kind != "local" {
		nop, grower = hnop, hgrow
	}
	var b []byte
	if consts != nil {
		b = append(b, wb.Cat(wb.I32Const(int32(consts[0])), wb.LocalSet(locP0), wb.I32Const(int32(consts[1])), wb.LocalSet(locP1))...)
	}
	for i, on := range o.narrow {
		if on {
			c := narrowCell[i]
			restore := int32(pat(int64(c))) | int32(pat(int64(c)+1))<<8
			b = append(b, wb.Cat(wb.I32Const(int32(c)), wasm.OpcodeI32Load16S, wb.MemArg(1, 0), wb.LocalSet(uint32(i)),
				wb.I32Const(int32(c)), wb.I32Const(restore), wasm.OpcodeI32Store16, wb.MemArg(1, 0))...)
		}
	}
	if o.wrap {
		for i := uint32(0); i < 2; i++ {
			b = append(b, wb.Cat(wb.LocalGet(i), wasm.OpcodeI64ExtendI32U, wb.I64Const(-0x2152411100000000), wasm.OpcodeI64Or, wasm.OpcodeI32WrapI64, wb.LocalSet(i))...)
		}
	}
	depth := 0
	var loopDepth []int
	for i, t := range p.Prog {
		at := i + 1
		switch t.T {
		case "acc":
			off := uint32(abs(p, t.Ou, t.Od))
			b = append(b, wb.LocalGet(uint32(t.V))...)
			if t.St {
				switch t.W {
				case 1:
					b = append(b, wb.Cat(wb.I32Const(int32(storeByte(at, 0))), wasm.OpcodeI32Store8, wb.MemArg(0, off))...)
				case 2:
					v := int32(storeByte(at, 0)) | int32(storeByte(at, 1))<<8
					b = append(b, wb.Cat(wb.I32Const(v), wasm.OpcodeI32Store16, wb.MemArg(0, off))...)
				case 4:
					v := uint32(0)
					for k := 3; k >= 0; k-- {
						v = v<<8 | uint32(storeByte(at, k))
					}
					b = append(b, wb.Cat(wb.I32Const(int32(v)), wasm.OpcodeI32Store, wb.MemArg(0, off))...)
				case 8:
					v := uint64(0)
					for k := 7; k >= 0; k-- {
						v = v<<8 | uint64(storeByte(at, k))
					}
					b = append(b, wb.Cat(wb.I64Const(int64(v)), wasm.OpcodeI64Store, wb.MemArg(0, off))...)
				case 16:
					c := make([]byte, 16)
					for k := range c {
						c[k] = storeByte(at, k)
					}
					b = append(b, wb.Cat(wasm.OpcodeVecPrefix, wasm.OpcodeVecV128Const, c, wasm.OpcodeVecPrefix, wasm.OpcodeVecV128Store, wb.MemArg(0, off))...)
				}
			} else {
				switch t.W {
				case 1:
					b = append(b, wb.Cat(wasm.OpcodeI32Load8U, wb.MemArg(0, off), wasm.OpcodeI64ExtendI32U)...)
				case 2:
					b = append(b, wb.Cat(wasm.OpcodeI32Load16U, wb.MemArg(0, off), wasm.OpcodeI64ExtendI32U)...)
				case 4:
					b = append(b, wb.Cat(wasm.OpcodeI32Load, wb.MemArg(0, off), wasm.OpcodeI64ExtendI32U)...)
				case 8:
					b = append(b, wb.Cat(wasm.OpcodeI64Load, wb.MemArg(0, off))...)
				case 16:
					// lane0 xor lane1 (the v128 is loaded twice: second load repeats the same check)
					b = append(b, wb.Cat(wasm.OpcodeVecPrefix, wasm.OpcodeVecV128Load, wb.MemArg(0, off),
						wasm.OpcodeVecPrefix, wasm.OpcodeVecI64x2ExtractLane, 0,
						wb.LocalGet(uint32(t.V)), wasm.OpcodeVecPrefix, wasm.OpcodeVecV128Load, wb.MemArg(0, off),
						wasm.OpcodeVecPrefix, wasm.OpcodeVecI64x2ExtractLane, 1, wasm.OpcodeI64Xor)...)
				}
				// acc = rotl(acc, 7) xor loaded
				b = append(b, wb.Cat(wb.LocalGet(locAcc), wb.I64Const(7), wasm.OpcodeI64Rotl, wasm.OpcodeI64Xor, wb.LocalSet(locAcc))...)
			}
		case "call":
			b = append(b, wb.Call(nop)...)
		case "callgrow":
			b = append(b, wb.Call(grower)...)
		case "grow":
			b = append(b, wb.Cat(wb.I32Const(int32(p.Scale)), wasm.OpcodeMemoryGrow, 0, wasm.OpcodeDrop)...)
		case "growneg":
			b = append(b, wb.Cat(wb.I32Const(-1), wasm.OpcodeMemoryGrow, 0, wasm.OpcodeDrop)...)
		case "touch":
			// zero bytes copied / filled at address 0: alternately memory.copy and memory.fill
			if at%2 == 1 {
				b = append(b, wb.Cat(wb.I32Const(0), wb.I32Const(0), wb.I32Const(0), wasm.OpcodeMiscPrefix, wasm.OpcodeMiscMemoryCopy, 0, 0)...)
			} else {
				b = append(b, wb.Cat(wb.I32Const(0), wb.I32Const(0), wb.I32Const(0), wasm.OpcodeMiscPrefix, wasm.OpcodeMiscMemoryFill, 0)...)
			}
		case "mix":
			b = append(b, wb.Cat(wb.LocalGet(locP0), wb.LocalSet(locTmp), wb.LocalGet(locP1), wb.LocalSet(locP0), wb.LocalGet(locTmp), wb.LocalSet(locP1))...)
		case "if":
			b = append(b, wb.Cat(wb.LocalGet(locC), wasm.OpcodeIf, 0x40)...)
			depth++
		case "else":
			b = append(b, wasm.OpcodeElse)
		case "end":
			b = append(b, wasm.OpcodeEnd)
			depth--
		case "loop":
			cnt := uint32(locCnt + len(loopDepth))
			loopDepth = append(loopDepth, depth)
			b = append(b, wb.Cat(wb.I32Const(2), wb.LocalSet(cnt), wasm.OpcodeLoop, 0x40)...)
			depth++
		case "endloop":
			cnt := uint32(locCnt + len(loopDepth) - 1)
			loopDepth = loopDepth[:len(loopDepth)-1]
			b = append(b, wb.Cat(wb.LocalGet(cnt), wb.I32Const(1), wasm.OpcodeI32Sub, wb.LocalTee(cnt), wb.BrIf(0), wasm.OpcodeEnd)...)
			depth--
		}
	}
	b = append(b, wb.LocalGet(locAcc)...)
	m.AddFunc(wb.Func{Params: []wasm.ValueType{wb.I32, wb.I32, wb.I32}, Results: []wasm.ValueType{wb.I64},
		Locals: []wasm.ValueType{wb.I64, wb.I32, wb.I32, wb.I32, wb.I32}, Body: b, Export: "f"})
	return m.Build()
}

func maxPagesOf(p *program, s int) uint32 {
	m := (s + 2) * p.Scale
	if m > 65536 {
		m = 65536
	}
	return uint32(m)
}

func shape(p *program) string {
	s := make([]string, len(p.Prog))
	for i, t := range p.Prog {
		s[i] = t.T
	}
	return strings.Join(s, ".")
}

type region struct{ lo, hi int64 }

// execute compares one execution with the reference outcome. If the compiler deviates and the deviation is exactly
// what the known 4 GiB defect predicts (every access traps once the memory is 65536 pages long, see the C14
// finding), the deviation is reported under that finding's key instead.
func execute(res *common.Result, p *program, r *run, rt wazero.Runtime, cm wazero.CompiledModule, engine, alloc, prov string) {
	var tmp common.Result
	tmp.OK = true
	executeRef(&tmp, p, r, rt, cm, engine, alloc, prov)
	if tmp.OK {
		return
	}
	if engine == "compiler" && !strings.Contains(prov, "impmem") { // an imported memory's length is read correctly
		// the defect makes the guest see length 0 once the memory is 65536 pages long: the first access after that whose bounds
		// check is not elided traps. Which one that is depends on bounds-check elimination, so every access executed at that
		// size is a candidate; everything before it must match the reference.
		tried := 0
		for i, a := range r.Accs {
			if a.Pg*p.Scale >= 65536 && tried < 6 {
				tried++
				alt := *r
				alt.Accs = r.Accs[:i]
				alt.Trap, alt.TrapAt = true, a.At
				var t2 common.Result
				t2.OK = true
				executeRef(&t2, p, &alt, rt, cm, engine, alloc, prov)
				if t2.OK {
					res.AddFail("engine=compiler;pages=65536;guest-sees-length-0", tmp.Msg)
					return
				}
			}
		}
	}
	for _, f := range tmp.Fails {
		res.AddFail(f.Key, f.Msg)
	}
}

func executeRef(res *common.Result, p *program, r *run, rt wazero.Runtime, cm wazero.CompiledModule, engine, alloc, prov string) {
	ctx := context.Background()
	ictx := ctx
	if alloc == "guard" {
		ictx = experimental.WithMemoryAllocator(ctx, guard.New())
	}
	ub := unitBytes(p)
	class := "small"
	if int64(r.Pages)*ub > 1<<31 {
		class = "over2GiB"
	}
	if int64(r.Pages)*int64(p.Scale) >= 65536 {
		class = "pages=65536"
	}
	key := func(what string) string {
		return fmt.Sprintf("engine=%s;prov=%s;%s;shape=%s#%s", engine, prov, class, shape(p), what)
	}
	desc := fmt.Sprintf("%s/%s/%s size=%d pages v0=%d v1=%d c=%d prog=%s", engine, alloc, prov, int64(r.Inp.S)*int64(p.Scale),
		abs(p, r.Inp.V0u, r.Inp.V0d), abs(p, r.Inp.V1u, r.Inp.V1d), r.Inp.C, progString(p))
	if strings.Contains(prov, "impmem") { // the memory's owner first (same limits), under the same allocator
		owner, err := rt.InstantiateWithConfig(ictx, ownerModule(uint32(r.Inp.S*p.Scale), maxPagesOf(p, r.Inp.S)), wazero.NewModuleConfig().WithName("owner"))
		if err != nil {
			res.AddFail(key("instantiate-owner"), desc+": "+err.Error())
			return
		}
		defer owner.Close(ctx)
	}
	mod, err := rt.InstantiateModule(ictx, cm, wazero.NewModuleConfig().WithName(""))
	if err != nil {
		res.AddFail(key("instantiate"), desc+": "+err.Error())
		return
	}
	defer mod.Close(ctx)
	mem := mod.Memory()
	size0 := int64(r.Inp.S) * ub
	small := size0 <= 1<<22
	// expected memory: initial pattern, then the executed stores in order
	var regions []region
	for _, a := range r.Accs {
		ea := abs(p, a.Eu, a.Ed)
		regions = append(regions, region{ea - 24, ea + int64(a.W) + 24})
	}
	regions = append(regions, region{0, 64}, region{size0 - 64, size0})
	initial := func(a int64) byte {
		if a < size0 {
			return pat(a)
		}
		return 0 // pages added by growth are zero
	}
	// pre-fill
	if small {
		buf := make([]byte, size0)
		for i := range buf {
			buf[i] = pat(int64(i))
		}
		mem.Write(0, buf)
	} else {
		for _, g := range regions {
			for a := g.lo; a < g.hi; a++ {
				if a >= 0 && a < size0 {
					mem.WriteByte(uint32(a), pat(a))
				}
			}
		}
	}
	exp := map[int64]byte{}
	var expAcc uint64
	for _, a := range r.Accs {
		ea := abs(p, a.Eu, a.Ed)
		if a.St {
			for k := 0; k < a.W; k++ {
				exp[ea+int64(k)] = storeByte(a.At, k)
			}
			continue
		}
		get := func(x int64) byte {
			if v, ok := exp[x]; ok {
				return v
			}
			return initial(x)
		}
		var v uint64
		if a.W == 16 {
			var l0, l1 uint64
			for k := 7; k >= 0; k-- {
				l0 = l0<<8 | uint64(get(ea+int64(k)))
				l1 = l1<<8 | uint64(get(ea+8+int64(k)))
			}
			v = l0 ^ l1
		} else {
			for k := a.W - 1; k >= 0; k-- {
				v = v<<8 | uint64(get(ea+int64(k)))
			}
		}
		expAcc = bits.RotateLeft64(expAcc, 7) ^ v
	}
	// run
	args := []uint64{uint64(uint32(abs(p, r.Inp.V0u, r.Inp.V0d))), uint64(uint32(abs(p, r.Inp.V1u, r.Inp.V1d))), uint64(r.Inp.C)}
	if strings.Contains(prov, "narrow") { // the prologue loads the narrowable addresses from the scratch cells and restores the cells
		for i := 0; i < 2; i++ {
			if a := uint32(args[i]); narrowable(a) {
				mem.WriteUint16Le(narrowCell[i], uint16(a))
				args[i] = 0x5a5a5a5a // the parameter is dead in this variant
			}
		}
	}
	out, err := mod.ExportedFunction("f").Call(ctx, args...)
	trapped := err != nil
	if trapped && !strings.Contains(err.Error(), "out of bounds memory access") {
		res.AddFail(key("error"), desc+": unexpected error "+trunc(err.Error()))
		return
	}
	if trapped != r.Trap {
		res.AddFail(key(fmt.Sprintf("trap=%v", trapped)), fmt.Sprintf("%s: trapped=%v, the reference semantics says %v (trap at token %d)", desc, trapped, r.Trap, r.TrapAt))
		return
	}
	if !trapped && out[0] != expAcc {
		res.AddFail(key("loaded-value"), fmt.Sprintf("%s: loads accumulate to %#x, the reference says %#x", desc, out[0], expAcc))
	}
	// final size
	pg, _ := mem.Grow(0)
	if int64(pg) != int64(r.Pages)*int64(p.Scale) {
		res.AddFail(key("final-size"), fmt.Sprintf("%s: final size %d pages, the reference says %d", desc, pg, int64(r.Pages)*int64(p.Scale)))
		return
	}
	// memory contents
	final := int64(pg) * 65536
	check := func(a int64) bool {
		if a < 0 || a >= final {
			return true
		}
		want, ok := exp[a]
		if !ok {
			want = initial(a)
		}
		got, _ := mem.ReadByte(uint32(a))
		if got != want {
			res.AddFail(key("memory"), fmt.Sprintf("%s: byte at %d is %#x, the reference says %#x", desc, a, got, want))
			return false
		}
		return true
	}
	if small && final <= 1<<23 {
		buf, _ := mem.Read(0, uint32(final))
		for a := int64(0); a < final; a++ {
			want, ok := exp[a]
			if !ok {
				want = initial(a)
			}
			if buf[a] != want {
				res.AddFail(key("memory"), fmt.Sprintf("%s: byte at %d is %#x, the reference says %#x", desc, a, buf[a], want))
				break
			}
		}
	} else {
		for _, g := range regions {
			for a := g.lo; a < g.hi; a++ {
				if !check(a) {
					return
				}
			}
		}
	}
}

func trunc(s string) string {
	if len(s) > 200 {
		return s[:200]
	}
	return s
}

func progString(p *program) string {
	var sb strings.Builder
	for _, t := range p.Prog {
		if t.T == "acc" {
			k := "ld"
			if t.St {
				k = "st"
			}
			fmt.Fprintf(&sb, "%s%d(v%d+%d) ", k, t.W, t.V, abs(p, t.Ou, t.Od))
		} else {
			sb.WriteString(t.T + " ")
		}
	}
	return sb.String()
}

func runProgram(id int, raw json.RawMessage) common.Result {
	res := common.Result{ID: id, OK: true}
	var p program
	if err := json.Unmarshal(raw, &p); err != nil {
		res.AddFail("infra", err.Error())
		return res
	}
	ctx := context.Background()
	for _, engine := range []string{"interpreter", "compiler"} {
		cfg := wazero.NewRuntimeConfigInterpreter()
		if engine == "compiler" {
			cfg = wazero.NewRuntimeConfigCompiler()
		}
		rt := wazero.NewRuntimeWithConfig(ctx, cfg.WithCoreFeatures(api.CoreFeaturesV2|experimental.CoreFeaturesThreads))
		scale := uint32(p.Scale)
		if _, err := rt.NewHostModuleBuilder("env").
			NewFunctionBuilder().WithGoModuleFunction(api.GoModuleFunc(func(context.Context, api.Module, []uint64) {}), nil, nil).Export("host_nop").
			NewFunctionBuilder().WithGoModuleFunction(api.GoModuleFunc(func(_ context.Context, m api.Module, _ []uint64) { m.Memory().Grow(scale) }), nil, nil).Export("host_grow").
			NewFunctionBuilder().WithGoModuleFunction(api.GoModuleFunc(func(c context.Context, m api.Module, _ []uint64) {
			if _, err := m.ExportedFunction("nopf").Call(c); err != nil {
				panic(err)
			}
		}), nil, nil).Export("reenter_nop").
			NewFunctionBuilder().WithGoModuleFunction(api.GoModuleFunc(func(c context.Context, m api.Module, _ []uint64) {
			if _, err := m.ExportedFunction("grow1").Call(c); err != nil {
				panic(err)
			}
		}), nil, nil).Export("reenter_grow").Instantiate(ctx); err != nil {
			res.AddFail("infra", "host module: "+err.Error())
			return res
		}
		hasCall := false
		for _, t := range p.Prog {
			if t.T == "call" || t.T == "callgrow" {
				hasCall = true
			}
		}
		// one compile per initial size (the declared limits differ)
		cms := map[int]wazero.CompiledModule{}
		kcms := map[string]wazero.CompiledModule{}
		for i := range p.Runs {
			r := &p.Runs[i]
			cm := cms[r.Inp.S]
			if cm == nil {
				bin := build(&p, uint32(r.Inp.S*p.Scale), maxPagesOf(&p, r.Inp.S), nil, "local")
				var err error
				cm, err = rt.CompileModule(ctx, bin)
				if err != nil {
					res.AddFail("engine="+engine+";compile", "generated program rejected: "+err.Error()+" "+progString(&p))
					break
				}
				cms[r.Inp.S] = cm
			}
			allocs := []string{"guard"}
			if p.Scale == 1 {
				allocs = []string{"default", "guard"}
			}
			for _, alloc := range allocs {
				execute(&res, &p, r, rt, cm, engine, alloc, "param")
			}
			// the same program with the call tokens bound to imported host functions / host functions that re-enter the guest
			if hasCall {
				for _, kind := range []string{"host", "reenter"} {
					k := fmt.Sprint(kind, r.Inp.S)
					kcm := kcms[k]
					if kcm == nil {
						var err error
						kcm, err = rt.CompileModule(ctx, build(&p, uint32(r.Inp.S*p.Scale), maxPagesOf(&p, r.Inp.S), nil, kind))
						if err != nil {
							res.AddFail("engine="+engine+";compile", "generated program rejected: "+err.Error()+" "+progString(&p))
							break
						}
						kcms[k] = kcm
					}
					for _, alloc := range allocs { // the default allocator moves the buffer when it grows: a stale base shows there
						execute(&res, &p, r, rt, kcm, engine, alloc, "param-"+kind+"-callee")
					}
				}
			}
			// further provenances and memory kinds (MemAccessMC!Provenances, MemKinds): addresses made by a narrow sign-extending
			// load inside the function, and the memory imported from its owner; under the guard allocator
			a0, a1 := uint32(abs(&p, r.Inp.V0u, r.Inp.V0d)), uint32(abs(&p, r.Inp.V1u, r.Inp.V1d))
			mask := [2]bool{narrowable(a0), narrowable(a1)}
			if p.Scale > 1 || i%3 == id%3 || r.Inp.S == 0 {
				for _, v := range []struct {
					name string
					o    bopt
				}{{"narrow", bopt{narrow: mask}}, {"param-impmem", bopt{impMem: true}}, {"narrow-impmem", bopt{narrow: mask, impMem: true}},
					{"wrap", bopt{wrap: true}}, {"wrap-impmem", bopt{wrap: true, impMem: true}}, {"param-shared", bopt{shared: true}}} {
					if strings.HasPrefix(v.name, "narrow") && (r.Inp.S < 1 || !mask[0] && !mask[1]) {
						continue
					}
					if v.o.shared && p.Scale > 1 {
						continue // a shared memory is allocated for its maximum at once: page scale only
					}
					if v.name == "narrow" && r.Inp.S*p.Scale >= 65536 {
						continue // an own memory of 65536 pages: every access of the compiler traps (listed finding), the prologue's too
					}
					k := fmt.Sprint(v.name, r.Inp.S, v.o.narrow)
					vcm := kcms[k]
					if vcm == nil {
						var err error
						vcm, err = rt.CompileModule(ctx, buildOpt(&p, uint32(r.Inp.S*p.Scale), maxPagesOf(&p, r.Inp.S), nil, "local", v.o))
						if err != nil {
							res.AddFail("engine="+engine+";compile", "generated program rejected: "+err.Error()+" "+progString(&p))
							break
						}
						kcms[k] = vcm
					}
					execute(&res, &p, r, rt, vcm, engine, "guard", v.name)
					if v.o.shared { // the default allocator as well: what the base of an EMPTY buffer is differs between allocators
						execute(&res, &p, r, rt, vcm, engine, "default", v.name)
					}
				}
			}
			if p.Const && (i%5 == id%5 || r.Inp.V0u*p.Scale >= 32768) {
				c := [2]uint32{uint32(abs(&p, r.Inp.V0u, r.Inp.V0d)), uint32(abs(&p, r.Inp.V1u, r.Inp.V1d))}
				bin := build(&p, uint32(r.Inp.S*p.Scale), maxPagesOf(&p, r.Inp.S), &c, "local")
				ccm, err := rt.CompileModule(ctx, bin)
				if err != nil {
					res.AddFail("engine="+engine+";compile", "generated program rejected: "+err.Error())
					continue
				}
				execute(&res, &p, r, rt, ccm, engine, "guard", "const")
				ccm.Close(ctx)
			}
		}
		rt.Close(ctx)
	}
	return res
}

// Child is `driver memacc-child`.
func Child(args []string) { common.ChildLoop(runProgram) }

// Main is `driver replay-memacc -in file`: supervised children, a crash of a child is attributed to its program.
func Main(args []string) {
	lines, err := common.ReadLines(common.Arg(args, "-in", ""))
	if err != nil {
		common.Fatalf("read: %v", err)
	}
	workers, _ := strconv.Atoi(common.Arg(args, "-workers", "12"))
	results := common.Supervise("memacc-child", nil, lines, 300*time.Second, workers)
	// a program that did not answer in time under load is run again on its own with a long limit: only a program that
	// does not end THEN is reported (every program is finite: loops run twice)
	for i := range results {
		if r := &results[i]; !r.OK && r.Key == "hang" {
			again := common.Supervise("memacc-child", nil, []json.RawMessage{lines[i]}, 1500*time.Second, 1)
			again[0].ID = r.ID
			results[i] = again[0]
		}
	}
	for i := range results {
		r := &results[i]
		if !r.OK && (r.Key == "crash" || r.Key == "hang") {
			// attribute: which engine/provenance crashed is in the child's stderr; the shape is in the program
			var p program
			_ = json.Unmarshal(lines[i], &p)
			eng := "compiler"
			if strings.Contains(r.Msg, "engine/interpreter") && !strings.Contains(r.Msg, "wazevo") {
				eng = "interpreter"
			}
			class := "small"
			if p.Scale > 1 {
				class = "over2GiB"
			}
			k := fmt.Sprintf("engine=%s;prov=any;%s;shape=%s#%s", eng, class, shape(&p), r.Key)
			msg := fmt.Sprintf("program %s (scale %d): %s", progString(&p), p.Scale, r.Msg)
			*r = common.Result{ID: r.ID}
			r.AddFail(k, msg)
		}
		common.Emit(*r)
	}
	common.Flush()
	_ = os.Stdout.Sync()
	_ = api.ValueTypeI32
}
