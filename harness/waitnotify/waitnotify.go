// Package waitnotify binds spec/WaitNotify.tla to memory.atomic.wait32 / notify of a shared memory (hooks H3):
// concurrent executions are recorded for validation by TLC, and the model's counterexample of the as-coded time-out
// (a notify counts a waiter that then reports "timed-out") is forced with the gate hook.
package waitnotify

import (
	"bytes"
	"context"
	"encoding/json"
	"fmt"
	"math/rand"
	"os"
	"runtime"
	"strconv"
	"sync"
	"time"

	"github.com/tetratelabs/wazero"
	"github.com/tetratelabs/wazero/api"
	"github.com/tetratelabs/wazero/experimental"
	"github.com/tetratelabs/wazero/internal/wasm"
	"github.com/tetratelabs/wazero/verifharness/common"
	"github.com/tetratelabs/wazero/verifharness/wb"
)

func guest() []byte {
	m := wb.New()
	one := uint32(1)
	m.ImportMemory("env", "mem", 1, &one)
	m.M.ImportSection[0].DescMem.IsShared = true
	i32 := []wasm.ValueType{wb.I32}
	// wait(exp, timeout_ns) -> 0 ok | 1 not-equal | 2 timed-out   on address 0
	m.AddFunc(wb.Func{Params: []wasm.ValueType{wb.I32, wb.I64}, Results: i32, Export: "wait",
		Body: wb.Cat(wb.I32Const(0), wb.LocalGet(0), wb.LocalGet(1), wasm.OpcodeAtomicPrefix, wasm.OpcodeAtomicMemoryWait32, wb.MemArg(2, 0))})
	m.AddFunc(wb.Func{Params: i32, Results: i32, Export: "notify",
		Body: wb.Cat(wb.I32Const(0), wb.LocalGet(0), wasm.OpcodeAtomicPrefix, wasm.OpcodeAtomicMemoryNotify, wb.MemArg(2, 0))})
	m.AddFunc(wb.Func{Params: i32, Export: "store",
		Body: wb.Cat(wb.I32Const(0), wb.LocalGet(0), wasm.OpcodeAtomicPrefix, wasm.OpcodeAtomicI32Store, wb.MemArg(2, 0))})
	return m.Build()
}

func provider() []byte {
	m := wb.New()
	one := uint32(1)
	m.Memory(1, &one, "mem")
	m.M.MemorySection.IsShared = true
	return m.Build()
}

type world struct {
	rt    wazero.Runtime
	insts []api.Module
}

func newWorld(ctx context.Context, engine string, n int) (*world, error) {
	cfg := wazero.NewRuntimeConfigInterpreter()
	if engine == "compiler" {
		cfg = wazero.NewRuntimeConfigCompiler()
	}
	rt := wazero.NewRuntimeWithConfig(ctx, cfg.WithCoreFeatures(api.CoreFeaturesV2|experimental.CoreFeaturesThreads))
	if _, err := rt.InstantiateWithConfig(ctx, provider(), wazero.NewModuleConfig().WithName("env")); err != nil {
		return nil, err
	}
	w := &world{rt: rt}
	cm, err := rt.CompileModule(ctx, guest())
	if err != nil {
		return nil, err
	}
	for i := 0; i < n; i++ {
		mod, err := rt.InstantiateModule(ctx, cm, wazero.NewModuleConfig().WithName(""))
		if err != nil {
			return nil, err
		}
		w.insts = append(w.insts, mod)
	}
	return w, nil
}

// ---- trace recording

type recorder struct {
	mu     sync.Mutex
	out    bytes.Buffer
	agents map[interface{}]string // waiter channel -> agent
	cur    map[int64]string       // goroutine -> agent (set by the driver before a call)
	gate   func(ev string, agent string)
}

func (r *recorder) line(m map[string]interface{}) {
	b, _ := json.Marshal(m)
	r.out.Write(b)
	r.out.WriteByte('\n')
}

// Gate reproduces the model's counterexample: the timer of a waiter fires, a notify runs before the waiter takes the lock.
func Gate(args []string) {
	ctx := context.Background()
	for _, engine := range []string{"interpreter", "compiler"} {
		res := common.Result{ID: 0, OK: true}
		w, err := newWorld(ctx, engine, 2)
		if err != nil {
			common.Fatalf("world: %v", err)
		}
		fired := make(chan struct{})
		release := make(chan struct{})
		wasm.VerifWaitTracer = func(e wasm.VerifWaitEvent) {
			if e.Ev == "timeout-fired" {
				close(fired)
				<-release
			}
		}
		done := make(chan uint64, 1)
		go func() {
			r, err := w.insts[0].ExportedFunction("wait").Call(ctx, 0, uint64(5*time.Millisecond))
			if err != nil {
				done <- 99
				return
			}
			done <- r[0]
		}()
		select {
		case <-fired:
		case <-time.After(10 * time.Second):
			common.Fatalf("gate not reached")
		}
		n, err := w.insts[1].ExportedFunction("notify").Call(ctx, 1)
		if err != nil {
			common.Fatalf("notify: %v", err)
		}
		close(release)
		ret := <-done
		wasm.VerifWaitTracer = nil
		res.Obs = map[string]interface{}{"engine": engine, "notify_returned": n[0], "wait_returned": ret}
		if n[0] == 1 && ret == 2 {
			res.AddFail("engine="+engine+";timer-fires;notify(1);waiter-takes-lock#counted-but-timed-out",
				fmt.Sprintf("%s: memory.atomic.notify returned %d (one waiter woken) but the only waiter returned %d (timed-out): a wake-up is lost", engine, n[0], ret))
		}
		common.Emit(res)
		w.rt.Close(ctx)
	}
	common.Flush()
}

// Trace is `driver trace-waitnotify -runs N -out file`: random concurrent executions, one event per model action.
func Trace(args []string) {
	runs, _ := strconv.Atoi(common.Arg(args, "-runs", "40"))
	nag, _ := strconv.Atoi(common.Arg(args, "-agents", "3"))
	nops, _ := strconv.Atoi(common.Arg(args, "-ops", "3"))
	rng := rand.New(rand.NewSource(common.Seed()))
	ctx := context.Background()
	var all bytes.Buffer
	events := 0
	for run := 0; run < runs; run++ {
		engine := []string{"interpreter", "compiler"}[run%2]
		w, err := newWorld(ctx, engine, nag)
		if err != nil {
			common.Fatalf("world: %v", err)
		}
		rec := &recorder{agents: map[interface{}]string{}}
		// the hook runs on the calling goroutine: the agent is found through a goroutine-local table
		gmap := sync.Map{}
		wasm.VerifWaitTracer = func(e wasm.VerifWaitEvent) {
			rec.mu.Lock()
			defer rec.mu.Unlock()
			switch e.Ev {
			case "enqueue":
				a, _ := gmap.Load(goid())
				rec.agents[e.Waiter] = a.(string)
				rec.line(map[string]interface{}{"ev": "enqueue", "a": a})
			case "notequal":
				a, _ := gmap.Load(goid())
				rec.line(map[string]interface{}{"ev": "notequal", "a": a})
			case "notify-one": // under the waiters' lock, before the waiter's channel is closed
				a, _ := gmap.Load(goid())
				rec.line(map[string]interface{}{"ev": "notify-one", "a": a, "b": rec.agents[e.Waiter]})
			case "notify":
				a, _ := gmap.Load(goid())
				rec.line(map[string]interface{}{"ev": "notify", "a": a, "n": int(e.N)})
			case "woken":
				rec.line(map[string]interface{}{"ev": "woken", "a": rec.agents[e.Waiter]})
			case "timeout-fired":
				rec.line(map[string]interface{}{"ev": "timeout-fired", "a": rec.agents[e.Waiter]})
			case "timeout-removed":
				rec.line(map[string]interface{}{"ev": "timeout-removed", "a": rec.agents[e.Waiter]})
			}
		}
		init := uint64(rng.Intn(2))
		_, _ = w.insts[0].ExportedFunction("store").Call(ctx, init)
		rec.line(map[string]interface{}{"ev": "reset", "cell": int(init)})
		var wg sync.WaitGroup
		for ai := 0; ai < nag; ai++ {
			wg.Add(1)
			plan := make([][3]int, nops)
			for k := range plan {
				plan[k] = [3]int{rng.Intn(3), rng.Intn(2), rng.Intn(2)}
			}
			go func(ai int, plan [][3]int) {
				defer wg.Done()
				a := fmt.Sprintf("a%d", ai+1)
				gmap.Store(goid(), a)
				mod := w.insts[ai]
				for _, p := range plan {
					switch p[0] {
					case 0: // wait(exp, finite timeout 0.2-2 ms): finite only, so that every run terminates
						tmo := uint64(200+p[2]*1800) * uint64(time.Microsecond)
						rec.mu.Lock()
						rec.line(map[string]interface{}{"ev": "begin", "a": a, "op": "wait", "x": p[1]})
						rec.mu.Unlock()
						r, err := mod.ExportedFunction("wait").Call(ctx, uint64(p[1]), tmo)
						ret := 99
						if err == nil {
							ret = int(r[0])
						}
						rec.mu.Lock()
						rec.line(map[string]interface{}{"ev": "end", "a": a, "op": "wait", "ret": ret})
						rec.mu.Unlock()
					case 1:
						// the store is lock free: its call is bracketed, TLC places the step in between
						rec.mu.Lock()
						rec.line(map[string]interface{}{"ev": "begin", "a": a, "op": "store", "x": p[1]})
						rec.mu.Unlock()
						_, _ = mod.ExportedFunction("store").Call(ctx, uint64(p[1]))
						rec.mu.Lock()
						rec.line(map[string]interface{}{"ev": "end", "a": a, "op": "store", "ret": -2})
						rec.mu.Unlock()
					case 2:
						rec.mu.Lock()
						rec.line(map[string]interface{}{"ev": "begin", "a": a, "op": "notify", "x": 1 + p[1]})
						rec.mu.Unlock()
						r, err := mod.ExportedFunction("notify").Call(ctx, uint64(1+p[1]))
						ret := 99
						if err == nil {
							ret = int(r[0])
						}
						rec.mu.Lock()
						rec.line(map[string]interface{}{"ev": "end", "a": a, "op": "notify", "x": 1 + p[1], "ret": ret})
						rec.mu.Unlock()
					}
				}
			}(ai, plan)
		}
		wg.Wait()
		wasm.VerifWaitTracer = nil
		w.rt.Close(ctx)
		events += bytes.Count(rec.out.Bytes(), []byte("\n"))
		all.Write(rec.out.Bytes())
	}
	if err := os.WriteFile(common.Arg(args, "-out", "trace.ndjson"), all.Bytes(), 0o644); err != nil {
		common.Fatalf("write: %v", err)
	}
	common.Emit(map[string]int{"runs": runs, "events": events})
	common.Flush()
}

func goid() int64 {
	var buf [64]byte
	n := runtime.Stack(buf[:], false)
	s := buf[len("goroutine "):n]
	i := bytes.IndexByte(s, ' ')
	id, _ := strconv.ParseInt(string(s[:i]), 10, 64)
	return id
}
