// Package sysdef runs the guest programs of spec/SysDefaults.tla under default module configuration in separate
// processes with different host environments and compares every observation (C18).
package sysdef

import (
	"bytes"
	"context"
	"encoding/hex"
	"encoding/json"
	"fmt"
	"os"
	"os/exec"
	"path/filepath"
	"strings"
	"time"

	"github.com/tetratelabs/wazero"
	"github.com/tetratelabs/wazero/imports/wasi_snapshot_preview1"
	"github.com/tetratelabs/wazero/internal/wasm"
	"github.com/tetratelabs/wazero/verifharness/common"
	"github.com/tetratelabs/wazero/verifharness/wasix"
	"github.com/tetratelabs/wazero/verifharness/wb"
)

type call struct {
	C string `json:"c"`
	A int    `json:"a"`
	B int    `json:"b"`
}

type obsv struct {
	Errno string `json:"errno"`
	V     int    `json:"v"`
	X     int    `json:"x"`
}

type program struct {
	Prog []call `json:"prog"`
	Obs  []obsv `json:"obs"`
}

const epoch = uint64(1640995200000000000)

// one observation as produced by the real code: errno, a value, raw output bytes (hex)
type real struct {
	Errno string `json:"errno"`
	V     int64  `json:"v"`
	Raw   string `json:"raw"`
}

func runCall(env *wasix.Env, c call) real {
	var e uint32
	var err error
	r := real{}
	switch c.C {
	case "clock_time":
		env.Mem.Write(64, make([]byte, 8))
		e, err = env.Call("clock_time_get", uint64(c.A), 0, 64)
		v := env.U64(64)
		if e == 0 && c.A == 0 {
			d := int64(v - epoch)
			if d%1000000 != 0 || d < 0 || d > 1e15 {
				r.V = -1 // not on the fake clock's grid
			} else {
				r.V = d / 1000000
			}
		} else if e == 0 {
			if v%1000000 != 0 || v > 1e15 {
				r.V = -1
			} else {
				r.V = int64(v / 1000000)
			}
		}
		r.Raw = fmt.Sprint(v)
	case "clock_res":
		env.Mem.Write(64, make([]byte, 8))
		e, err = env.Call("clock_res_get", uint64(c.A), 64)
		if e == 0 {
			r.V = int64(env.U64(64))
		}
	case "random":
		env.Mem.Write(128, make([]byte, 16))
		e, err = env.Call("random_get", 128, uint64(c.A))
		b, _ := env.Mem.Read(128, uint32(c.A))
		r.Raw = hex.EncodeToString(b)
	case "args_sizes", "environ_sizes":
		name := map[string]string{"args_sizes": "args_sizes_get", "environ_sizes": "environ_sizes_get"}[c.C]
		e, err = env.Call(name, 256, 260)
		r.V = int64(env.U32(256)) + int64(env.U32(260))
		// also fetch the values themselves
		fn := map[string]string{"args_sizes": "args_get", "environ_sizes": "environ_get"}[c.C]
		env.Mem.Write(512, make([]byte, 512))
		_, _ = env.Call(fn, 512, 768)
		b, _ := env.Mem.Read(512, 512)
		r.Raw = hex.EncodeToString(bytes.TrimRight(b, "\x00"))
	case "stdin_read":
		env.Mem.Write(600, make([]byte, 64))
		env.Iovec(512, 600, uint32(c.A))
		e, err = env.Call("fd_read", 0, 512, 1, 256)
		r.V = int64(env.U32(256))
		b, _ := env.Mem.Read(600, 32)
		r.Raw = hex.EncodeToString(bytes.TrimRight(b, "\x00"))
	case "out_write":
		env.Mem.Write(600, bytes.Repeat([]byte("z"), c.B))
		env.Iovec(512, 600, uint32(c.B))
		e, err = env.Call("fd_write", uint64(c.A), 512, 1, 256)
		r.V = int64(env.U32(256))
	case "prestat":
		e, err = env.Call("fd_prestat_get", uint64(c.A), 256)
	case "path_open":
		p, l := env.PutString(1024, ".")
		e, err = env.Call("path_open", uint64(c.A), 0, p, l, 0, 0, 0, 0, 256)
	case "sock_accept":
		e, err = env.Call("sock_accept", uint64(c.A), 0, 256)
	case "readdir":
		e, err = env.Call("fd_readdir", uint64(c.A), 2048, 256, 0, 256)
	case "fdstat":
		e, err = env.Call("fd_fdstat_get", uint64(c.A), 256)
	case "poll_clock":
		sub := make([]byte, 48)
		sub[16] = byte(c.A)
		sub[24], sub[25], sub[26], sub[27] = 0, 0xca, 0x9a, 0x3b // 1 s
		env.Mem.Write(1024, sub)
		if sleptForReal { // already established in this process; every further call would cost another second
			r.Raw = "slept-for-real"
			return r
		}
		t0 := time.Now()
		e, err = env.Call("poll_oneoff", 1024, 2048, 1, 4096)
		r.V = int64(env.U32(4096))
		if time.Since(t0) > 500*time.Millisecond {
			r.Raw = "slept-for-real"
			sleptForReal = true
		}
	case "sched_yield":
		e, err = env.Call("sched_yield")
	}
	r.Errno = wasix.Errno(e)
	if err != nil {
		r.Errno = "error:" + err.Error()
	}
	return r
}

// sleptForReal: a poll_oneoff call in this process took real time.
var sleptForReal bool

// wasiSigs: parameter types (true = i64) of the WASI functions the programs use; all return an errno.
var wasiSigs = map[string][]bool{
	"clock_time_get": {false, true, false}, "clock_res_get": {false, false}, "random_get": {false, false},
	"args_sizes_get": {false, false}, "args_get": {false, false}, "environ_sizes_get": {false, false}, "environ_get": {false, false},
	"fd_read": {false, false, false, false}, "fd_write": {false, false, false, false}, "fd_prestat_get": {false, false},
	"path_open": {false, false, false, false, false, true, true, false, false}, "sock_accept": {false, false, false},
	"fd_readdir": {false, false, false, true, false}, "fd_fdstat_get": {false, false}, "poll_oneoff": {false, false, false, false},
	"sched_yield": {}, "fd_filestat_set_size": {false, true},
}

type planned struct {
	name string
	args []uint64
}

const (
	lowSize  = 8192  // the window every call works in (runCall's addresses are below it)
	areaBase = 65536 // area k (inputs before, outputs after the k-th call) starts at areaBase + k*lowSize
	errBase  = 61440 // errno of the j-th WASI call of the sequence at errBase + 4*j
)

// runSeq executes the WHOLE program inside one guest function: the WASI calls follow each other in one activation, each
// preceded by a call that leaves ones in every bit of an i64 argument slot (fd_filestat_set_size(0, -1)), so that what a
// WASI function sees of an i32 argument does not depend on what the previous call left behind. Observations are read
// exactly as in the call-by-call mode.
func runSeq(ctx context.Context, engine string, mc wazero.ModuleConfig, prog []call) ([]real, error) {
	// pass 1: plan - run the call-by-call code with a hook that only records the calls and the prepared window
	cfg := wazero.NewRuntimeConfigInterpreter()
	if engine == "compiler" {
		cfg = wazero.NewRuntimeConfigCompiler()
	}
	rt := wazero.NewRuntimeWithConfig(ctx, cfg)
	defer rt.Close(ctx)
	if _, err := wasi_snapshot_preview1.Instantiate(ctx, rt); err != nil {
		return nil, err
	}
	scratch := wb.New()
	pages := uint32(areaBase/65536 + (len(prog)*lowSize+65535)/65536 + 1)
	scratch.Memory(pages, &pages, "memory")
	smod, err := rt.InstantiateWithConfig(ctx, scratch.Build(), wazero.NewModuleConfig().WithName("scratch"))
	if err != nil {
		return nil, err
	}
	env := &wasix.Env{Ctx: ctx, Rt: rt, Mod: smod, Mem: smod.Memory()}
	var plan [][]planned
	inputs := make([][]byte, len(prog))
	for k, c := range prog {
		env.Mem.Write(0, make([]byte, lowSize))
		var calls []planned
		env.CallHook = func(name string, args []uint64) (uint32, error) {
			if inputs[k] == nil { // the window as prepared for the first WASI call of this step
				b, _ := env.Mem.Read(0, lowSize)
				inputs[k] = append([]byte{}, b...)
			}
			calls = append(calls, planned{name, append([]uint64{}, args...)})
			return 0, nil
		}
		runCall(env, c)
		if inputs[k] == nil {
			inputs[k] = make([]byte, lowSize)
		}
		plan = append(plan, calls)
	}
	// pass 2: the guest function
	m := wb.New()
	idx := map[string]uint32{}
	need := []string{"fd_filestat_set_size"}
	for _, calls := range plan {
		for _, pc := range calls {
			need = append(need, pc.name)
		}
	}
	for _, n := range need {
		if _, ok := idx[n]; ok {
			continue
		}
		sig, ok := wasiSigs[n]
		if !ok {
			return nil, fmt.Errorf("no signature for %s", n)
		}
		var ps []wasm.ValueType
		for _, is64 := range sig {
			if is64 {
				ps = append(ps, wb.I64)
			} else {
				ps = append(ps, wb.I32)
			}
		}
		idx[n] = m.ImportFunc("wasi_snapshot_preview1", n, ps, []wasm.ValueType{wb.I32})
	}
	m.Memory(pages, &pages, "memory")
	var body []byte
	j := 0
	for k, calls := range plan {
		area := int32(areaBase + k*lowSize)
		body = append(body, wb.Cat(wb.I32Const(0), wb.I32Const(area), wb.I32Const(lowSize), wasm.OpcodeMiscPrefix, wasm.OpcodeMiscMemoryCopy, 0, 0)...)
		for _, pc := range calls {
			body = append(body, wb.Cat(wb.I32Const(0), wb.I64Const(-1), wb.Call(idx["fd_filestat_set_size"]), wasm.OpcodeDrop)...)
			body = append(body, wb.I32Const(int32(errBase+4*j))...)
			for i, a := range pc.args {
				if wasiSigs[pc.name][i] {
					body = append(body, wb.I64Const(int64(a))...)
				} else {
					body = append(body, wb.I32Const(int32(uint32(a)))...)
				}
			}
			body = append(body, wb.Cat(wb.Call(idx[pc.name]), wasm.OpcodeI32Store, wb.MemArg(2, 0))...)
			j++
		}
		body = append(body, wb.Cat(wb.I32Const(area), wb.I32Const(0), wb.I32Const(lowSize), wasm.OpcodeMiscPrefix, wasm.OpcodeMiscMemoryCopy, 0, 0)...)
	}
	m.AddFunc(wb.Func{Body: body, Export: "seq"})
	gmod, err := rt.InstantiateWithConfig(ctx, m.Build(), mc)
	if err != nil {
		return nil, err
	}
	gmem := gmod.Memory()
	for k := range prog {
		gmem.Write(uint32(areaBase+k*lowSize), inputs[k])
	}
	if _, err := gmod.ExportedFunction("seq").Call(ctx); err != nil {
		return nil, fmt.Errorf("seq: %w", err)
	}
	// pass 3: read the outputs back through the same code
	genv := &wasix.Env{Ctx: ctx, Rt: rt, Mod: gmod, Mem: gmem}
	var obs []real
	j = 0
	for k, c := range prog {
		genv.CallHook = func(name string, args []uint64) (uint32, error) {
			out, _ := gmem.Read(uint32(areaBase+k*lowSize), lowSize)
			gmem.Write(0, append([]byte{}, out...))
			e, _ := gmem.ReadUint32Le(uint32(errBase + 4*j))
			j++
			return e, nil
		}
		obs = append(obs, runCall(genv, c))
	}
	return obs, nil
}

// Child is `driver sysdef-child -in file`: runs every program on both engines, twice from ONE ModuleConfig value,
// and prints the observations.
func Child(args []string) {
	lines, err := common.ReadLines(common.Arg(args, "-in", ""))
	if err != nil {
		common.Fatalf("read: %v", err)
	}
	ctx := context.Background()
	if os.Getenv("VERIF_SD_CTX") == "cancel" { // the embedder's context can be cancelled (it never is): nothing may depend on that
		c, cancel := context.WithCancel(ctx)
		defer cancel()
		ctx = c
	}
	for _, l := range lines {
		var p program
		if err := json.Unmarshal(l, &p); err != nil {
			common.Fatalf("program: %v", err)
		}
		out := map[string][]real{}
		for _, engine := range []string{"interpreter", "compiler"} {
			mc := wazero.NewModuleConfig() // the same value is used for both instantiations
			for inst := 0; inst < 2; inst++ {
				env, err := wasix.New(ctx, engine, mc)
				if err != nil {
					common.Fatalf("env: %v", err)
				}
				var obs []real
				for _, c := range p.Prog {
					obs = append(obs, runCall(env, c))
				}
				env.Close()
				out[fmt.Sprintf("%s#%d", engine, inst)] = obs
			}
			// the same program executed by ONE guest function
			if sleptForReal {
				continue
			}
			if obs, err := runSeq(ctx, engine, mc, p.Prog); err != nil {
				common.Fatalf("in-guest sequence: %v", err)
			} else {
				out[engine+"#in-one-guest-function"] = obs
			}
		}
		common.Emit(out)
	}
	common.Flush()
}

// Main is `driver replay-sysdef -in file`.
func Main(args []string) {
	path := common.Arg(args, "-in", "")
	lines, err := common.ReadLines(path)
	if err != nil {
		common.Fatalf("read: %v", err)
	}
	base, _ := os.MkdirTemp(os.Getenv("VERIF_WORK"), "sd")
	defer os.RemoveAll(base)
	// a zone file for a zone 9 hours east of UTC, without relying on an installed time zone database
	zone := filepath.Join(base, "Plus9")
	_ = os.WriteFile(zone, tzif(9*3600, "P9"), 0o644)
	secret := "SECRET-7f3a9c-host-value"
	type variant struct {
		name string
		env  []string
		args []string
		dir  string
		in   string
		wait time.Duration
	}
	variants := []variant{
		{"plain", []string{"TZ=UTC"}, nil, base, "", 0},
		{"env+args+stdin+cancelable-context", []string{"TZ=UTC", "VERIF_SECRET=" + secret, "HOME=/" + secret, "VERIF_SD_CTX=cancel"}, []string{secret}, base, secret + "\n", 0},
		{"tz+cwd+later", []string{"TZ=" + zone}, nil, os.TempDir(), "", 1200 * time.Millisecond},
	}
	outs := make([][]map[string][]real, len(variants))
	for vi, v := range variants {
		time.Sleep(v.wait)
		cmd := exec.Command(os.Args[0], append([]string{"sysdef-child", "-in", path}, v.args...)...)
		cmd.Env = append(os.Environ(), v.env...)
		cmd.Dir = v.dir
		cmd.Stdin = strings.NewReader(v.in)
		var so, se bytes.Buffer
		cmd.Stdout, cmd.Stderr = &so, &se
		if err := cmd.Run(); err != nil {
			common.Fatalf("sysdef child %s failed: %v %s", v.name, err, se.String())
		}
		for _, ln := range bytes.Split(bytes.TrimSpace(so.Bytes()), []byte("\n")) {
			var m map[string][]real
			if err := json.Unmarshal(ln, &m); err != nil {
				common.Fatalf("child output: %v", err)
			}
			outs[vi] = append(outs[vi], m)
		}
		if len(outs[vi]) != len(lines) {
			common.Fatalf("child %s returned %d results for %d programs", v.name, len(outs[vi]), len(lines))
		}
	}
	var stream []byte // the random stream as first observed; every later observation must agree
	for id, l := range lines {
		var p program
		_ = json.Unmarshal(l, &p)
		res := common.Result{ID: id, OK: true}
		for vi, v := range variants {
			for inst, obs := range outs[vi][id] {
				for k, c := range p.Prog {
					want, got := p.Obs[k], obs[k]
					fail := func(what, msg string) {
						res.AddFail(fmt.Sprintf("%s#%s", c.C, what), fmt.Sprintf("process %q instance %s call %d %s(%d): %s", v.name, inst, k+1, c.C, c.A, msg))
					}
					if got.Errno != want.Errno {
						fail("errno", fmt.Sprintf("errno %s, the model says %s", got.Errno, want.Errno))
						continue
					}
					switch c.C {
					case "clock_time", "clock_res", "args_sizes", "environ_sizes", "stdin_read", "out_write", "poll_clock":
						if want.Errno == "ESUCCESS" && got.V != int64(want.V) {
							fail("value", fmt.Sprintf("value %d (raw %s), the model says %d (clock readings in ms since the fake epoch / start)", got.V, got.Raw, want.V))
						}
						if c.C == "poll_clock" && got.Raw != "" {
							fail("real-sleep", "poll_oneoff with a clock subscription slept for real")
						}
						if (c.C == "args_sizes" || c.C == "environ_sizes" || c.C == "stdin_read") && got.Raw != "" {
							fail("host-data", "host data visible to the guest: "+got.Raw)
						}
					case "random":
						b, _ := hex.DecodeString(got.Raw)
						off := want.V
						for len(stream) < off+len(b) {
							stream = append(stream, 0)
						}
						// first observation defines R[off..]; all others must agree
						known := true
						for i := range b {
							if off+i >= len(streamKnown) || !streamKnown[off+i] {
								known = false
							}
						}
						if !known {
							for len(streamKnown) < off+len(b) {
								streamKnown = append(streamKnown, false)
							}
							for i := range b {
								if !streamKnown[off+i] {
									stream[off+i], streamKnown[off+i] = b[i], true
								} else if stream[off+i] != b[i] {
									fail("stream", fmt.Sprintf("random byte at stream offset %d is %02x, another run saw %02x", off+i, b[i], stream[off+i]))
								}
							}
						} else if !bytes.Equal(stream[off:off+len(b)], b) {
							fail("stream", fmt.Sprintf("random bytes at stream offset %d are %x, another run/instance saw %x", off, b, stream[off:off+len(b)]))
						}
					}
					if strings.Contains(got.Raw, hex.EncodeToString([]byte(secret))) {
						fail("secret", "a planted host secret reached the guest")
					}
				}
			}
		}
		common.Emit(res)
	}
	common.Flush()
}

var streamKnown []bool

// tzif builds a minimal TZif (version 1) file with one fixed offset.
func tzif(offset int32, abbr string) []byte {
	var b bytes.Buffer
	b.WriteString("TZif")
	b.WriteByte(0)
	b.Write(make([]byte, 15))
	put := func(v uint32) { b.Write([]byte{byte(v >> 24), byte(v >> 16), byte(v >> 8), byte(v)}) }
	put(0)                     // isutcnt
	put(0)                     // isstdcnt
	put(0)                     // leapcnt
	put(0)                     // timecnt
	put(1)                     // typecnt
	put(uint32(len(abbr) + 1)) // charcnt
	put(uint32(offset))
	b.WriteByte(0) // isdst
	b.WriteByte(0) // abbrind
	b.WriteString(abbr)
	b.WriteByte(0)
	return b.Bytes()
}
