// Package sysdef runs the guest programs of spec/SysDefaults.tla under default module configuration in separate
// processes with different host environments and compares every observation (C18).
package sysdef

import (
	"bytes"
	"context"
	"encoding/hex"
	"encoding/json"
	"fmt"
	"os"
	"os/exec"
	"path/filepath"
	"strings"
	"time"

	"github.com/tetratelabs/wazero"
	"github.com/tetratelabs/wazero/verifharness/common"
	"github.com/tetratelabs/wazero/verifharness/wasix"
)

type call struct {
	C string `json:"c"`
	A int    `json:"a"`
	B int    `json:"b"`
}

type obsv struct {
	Errno string `json:"errno"`
	V     int    `json:"v"`
	X     int    `json:"x"`
}

type program struct {
	Prog []call `json:"prog"`
	Obs  []obsv `json:"obs"`
}

const epoch = uint64(1640995200000000000)

// one observation as produced by the real code: errno, a value, raw output bytes (hex)
type real struct {
	Errno string `json:"errno"`
	V     int64  `json:"v"`
	Raw   string `json:"raw"`
}

func runCall(env *wasix.Env, c call) real {
	var e uint32
	var err error
	r := real{}
	switch c.C {
	case "clock_time":
		env.Mem.Write(64, make([]byte, 8))
		e, err = env.Call("clock_time_get", uint64(c.A), 0, 64)
		v := env.U64(64)
		if e == 0 && c.A == 0 {
			d := int64(v - epoch)
			if d%1000000 != 0 || d < 0 || d > 1e15 {
				r.V = -1 // not on the fake clock's grid
			} else {
				r.V = d / 1000000
			}
		} else if e == 0 {
			if v%1000000 != 0 || v > 1e15 {
				r.V = -1
			} else {
				r.V = int64(v / 1000000)
			}
		}
		r.Raw = fmt.Sprint(v)
	case "clock_res":
		env.Mem.Write(64, make([]byte, 8))
		e, err = env.Call("clock_res_get", uint64(c.A), 64)
		if e == 0 {
			r.V = int64(env.U64(64))
		}
	case "random":
		env.Mem.Write(128, make([]byte, 16))
		e, err = env.Call("random_get", 128, uint64(c.A))
		b, _ := env.Mem.Read(128, uint32(c.A))
		r.Raw = hex.EncodeToString(b)
	case "args_sizes", "environ_sizes":
		name := map[string]string{"args_sizes": "args_sizes_get", "environ_sizes": "environ_sizes_get"}[c.C]
		e, err = env.Call(name, 256, 260)
		r.V = int64(env.U32(256)) + int64(env.U32(260))
		// also fetch the values themselves
		fn := map[string]string{"args_sizes": "args_get", "environ_sizes": "environ_get"}[c.C]
		env.Mem.Write(512, make([]byte, 512))
		_, _ = env.Call(fn, 512, 768)
		b, _ := env.Mem.Read(512, 512)
		r.Raw = hex.EncodeToString(bytes.TrimRight(b, "\x00"))
	case "stdin_read":
		env.Mem.Write(600, make([]byte, 64))
		env.Iovec(512, 600, uint32(c.A))
		e, err = env.Call("fd_read", 0, 512, 1, 256)
		r.V = int64(env.U32(256))
		b, _ := env.Mem.Read(600, 32)
		r.Raw = hex.EncodeToString(bytes.TrimRight(b, "\x00"))
	case "out_write":
		env.Mem.Write(600, bytes.Repeat([]byte("z"), c.B))
		env.Iovec(512, 600, uint32(c.B))
		e, err = env.Call("fd_write", uint64(c.A), 512, 1, 256)
		r.V = int64(env.U32(256))
	case "prestat":
		e, err = env.Call("fd_prestat_get", uint64(c.A), 256)
	case "path_open":
		p, l := env.PutString(1024, ".")
		e, err = env.Call("path_open", uint64(c.A), 0, p, l, 0, 0, 0, 0, 256)
	case "sock_accept":
		e, err = env.Call("sock_accept", uint64(c.A), 0, 256)
	case "readdir":
		e, err = env.Call("fd_readdir", uint64(c.A), 2048, 256, 0, 256)
	case "fdstat":
		e, err = env.Call("fd_fdstat_get", uint64(c.A), 256)
	case "poll_clock":
		sub := make([]byte, 48)
		sub[16] = byte(c.A)
		sub[24], sub[25], sub[26], sub[27] = 0, 0xca, 0x9a, 0x3b // 1 s
		env.Mem.Write(1024, sub)
		t0 := time.Now()
		e, err = env.Call("poll_oneoff", 1024, 2048, 1, 4096)
		r.V = int64(env.U32(4096))
		if time.Since(t0) > 500*time.Millisecond {
			r.Raw = "slept-for-real"
		}
	case "sched_yield":
		e, err = env.Call("sched_yield")
	}
	r.Errno = wasix.Errno(e)
	if err != nil {
		r.Errno = "error:" + err.Error()
	}
	return r
}

// Child is `driver sysdef-child -in file`: runs every program on both engines, twice from ONE ModuleConfig value,
// and prints the observations.
func Child(args []string) {
	lines, err := common.ReadLines(common.Arg(args, "-in", ""))
	if err != nil {
		common.Fatalf("read: %v", err)
	}
	ctx := context.Background()
	for _, l := range lines {
		var p program
		if err := json.Unmarshal(l, &p); err != nil {
			common.Fatalf("program: %v", err)
		}
		out := map[string][]real{}
		for _, engine := range []string{"interpreter", "compiler"} {
			mc := wazero.NewModuleConfig() // the same value is used for both instantiations
			for inst := 0; inst < 2; inst++ {
				env, err := wasix.New(ctx, engine, mc)
				if err != nil {
					common.Fatalf("env: %v", err)
				}
				var obs []real
				for _, c := range p.Prog {
					obs = append(obs, runCall(env, c))
				}
				env.Close()
				out[fmt.Sprintf("%s#%d", engine, inst)] = obs
			}
		}
		common.Emit(out)
	}
	common.Flush()
}

// Main is `driver replay-sysdef -in file`.
func Main(args []string) {
	path := common.Arg(args, "-in", "")
	lines, err := common.ReadLines(path)
	if err != nil {
		common.Fatalf("read: %v", err)
	}
	base, _ := os.MkdirTemp(os.Getenv("VERIF_WORK"), "sd")
	defer os.RemoveAll(base)
	// a zone file for a zone 9 hours east of UTC, without relying on an installed time zone database
	zone := filepath.Join(base, "Plus9")
	_ = os.WriteFile(zone, tzif(9*3600, "P9"), 0o644)
	secret := "SECRET-7f3a9c-host-value"
	type variant struct {
		name string
		env  []string
		args []string
		dir  string
		in   string
		wait time.Duration
	}
	variants := []variant{
		{"plain", []string{"TZ=UTC"}, nil, base, "", 0},
		{"env+args+stdin", []string{"TZ=UTC", "VERIF_SECRET=" + secret, "HOME=/" + secret}, []string{secret}, base, secret + "\n", 0},
		{"tz+cwd+later", []string{"TZ=" + zone}, nil, os.TempDir(), "", 1200 * time.Millisecond},
	}
	outs := make([][]map[string][]real, len(variants))
	for vi, v := range variants {
		time.Sleep(v.wait)
		cmd := exec.Command(os.Args[0], append([]string{"sysdef-child", "-in", path}, v.args...)...)
		cmd.Env = append(os.Environ(), v.env...)
		cmd.Dir = v.dir
		cmd.Stdin = strings.NewReader(v.in)
		var so, se bytes.Buffer
		cmd.Stdout, cmd.Stderr = &so, &se
		if err := cmd.Run(); err != nil {
			common.Fatalf("sysdef child %s failed: %v %s", v.name, err, se.String())
		}
		for _, ln := range bytes.Split(bytes.TrimSpace(so.Bytes()), []byte("\n")) {
			var m map[string][]real
			if err := json.Unmarshal(ln, &m); err != nil {
				common.Fatalf("child output: %v", err)
			}
			outs[vi] = append(outs[vi], m)
		}
		if len(outs[vi]) != len(lines) {
			common.Fatalf("child %s returned %d results for %d programs", v.name, len(outs[vi]), len(lines))
		}
	}
	var stream []byte // the random stream as first observed; every later observation must agree
	for id, l := range lines {
		var p program
		_ = json.Unmarshal(l, &p)
		res := common.Result{ID: id, OK: true}
		for vi, v := range variants {
			for inst, obs := range outs[vi][id] {
				for k, c := range p.Prog {
					want, got := p.Obs[k], obs[k]
					fail := func(what, msg string) {
						res.AddFail(fmt.Sprintf("%s#%s", c.C, what), fmt.Sprintf("process %q instance %s call %d %s(%d): %s", v.name, inst, k+1, c.C, c.A, msg))
					}
					if got.Errno != want.Errno {
						fail("errno", fmt.Sprintf("errno %s, the model says %s", got.Errno, want.Errno))
						continue
					}
					switch c.C {
					case "clock_time", "clock_res", "args_sizes", "environ_sizes", "stdin_read", "out_write", "poll_clock":
						if want.Errno == "ESUCCESS" && got.V != int64(want.V) {
							fail("value", fmt.Sprintf("value %d (raw %s), the model says %d (clock readings in ms since the fake epoch / start)", got.V, got.Raw, want.V))
						}
						if c.C == "poll_clock" && got.Raw != "" {
							fail("real-sleep", "poll_oneoff with a clock subscription slept for real")
						}
						if (c.C == "args_sizes" || c.C == "environ_sizes" || c.C == "stdin_read") && got.Raw != "" {
							fail("host-data", "host data visible to the guest: "+got.Raw)
						}
					case "random":
						b, _ := hex.DecodeString(got.Raw)
						off := want.V
						for len(stream) < off+len(b) {
							stream = append(stream, 0)
						}
						// first observation defines R[off..]; all others must agree
						known := true
						for i := range b {
							if off+i >= len(streamKnown) || !streamKnown[off+i] {
								known = false
							}
						}
						if !known {
							for len(streamKnown) < off+len(b) {
								streamKnown = append(streamKnown, false)
							}
							for i := range b {
								if !streamKnown[off+i] {
									stream[off+i], streamKnown[off+i] = b[i], true
								} else if stream[off+i] != b[i] {
									fail("stream", fmt.Sprintf("random byte at stream offset %d is %02x, another run saw %02x", off+i, b[i], stream[off+i]))
								}
							}
						} else if !bytes.Equal(stream[off:off+len(b)], b) {
							fail("stream", fmt.Sprintf("random bytes at stream offset %d are %x, another run/instance saw %x", off, b, stream[off:off+len(b)]))
						}
					}
					if strings.Contains(got.Raw, hex.EncodeToString([]byte(secret))) {
						fail("secret", "a planted host secret reached the guest")
					}
				}
			}
		}
		common.Emit(res)
	}
	common.Flush()
}

var streamKnown []bool

// tzif builds a minimal TZif (version 1) file with one fixed offset.
func tzif(offset int32, abbr string) []byte {
	var b bytes.Buffer
	b.WriteString("TZif")
	b.WriteByte(0)
	b.Write(make([]byte, 15))
	put := func(v uint32) { b.Write([]byte{byte(v >> 24), byte(v >> 16), byte(v >> 8), byte(v)}) }
	put(0)                     // isutcnt
	put(0)                     // isstdcnt
	put(0)                     // leapcnt
	put(0)                     // timecnt
	put(1)                     // typecnt
	put(uint32(len(abbr) + 1)) // charcnt
	put(uint32(offset))
	b.WriteByte(0) // isdst
	b.WriteByte(0) // abbrind
	b.WriteString(abbr)
	b.WriteByte(0)
	return b.Bytes()
}
