// Package guard provides an experimental.MemoryAllocator whose linear memories are surrounded by
// inaccessible pages: exactly [0, size) is readable/writable, everything else in the reservation
// (guard | max | guard) is PROT_NONE, so an access outside the linear memory faults.
package guard

import (
	"sync/atomic"
	"syscall"
	"unsafe"

	"github.com/tetratelabs/wazero/experimental"
)

const GuardBytes = 1 << 20

// Stats counts allocator calls (resource-release observations).
type Stats struct {
	Allocs, Frees, Reallocs atomic.Int64
}

type Allocator struct {
	S *Stats
}

func New() *Allocator { return &Allocator{S: &Stats{}} }

type mem struct {
	a     *Allocator
	all   []byte // whole reservation
	max   uint64
	size  uint64
	freed bool
}

func (a *Allocator) Allocate(cap, max uint64) experimental.LinearMemory {
	a.S.Allocs.Add(1)
	total := int(max) + 2*GuardBytes
	b, err := syscall.Mmap(-1, 0, total, syscall.PROT_NONE, syscall.MAP_ANON|syscall.MAP_PRIVATE|syscall.MAP_NORESERVE)
	if err != nil {
		panic("guard: mmap failed: " + err.Error())
	}
	return &mem{a: a, all: b, max: max}
}

func (m *mem) Reallocate(size uint64) []byte {
	m.a.S.Reallocs.Add(1)
	if size > m.max {
		return nil
	}
	if size > m.size {
		// make [m.size, size) accessible (page granularity: sizes are multiples of 64 KiB)
		lo := GuardBytes + int(m.size)
		hi := GuardBytes + int(size)
		if err := syscall.Mprotect(m.all[lo:hi], syscall.PROT_READ|syscall.PROT_WRITE); err != nil {
			return nil
		}
		m.size = size
	}
	p := unsafe.Pointer(&m.all[GuardBytes])
	return unsafe.Slice((*byte)(p), m.max)[:size]
}

func (m *mem) Free() {
	if m.freed {
		return
	}
	m.freed = true
	m.a.S.Frees.Add(1)
	_ = syscall.Munmap(m.all)
}
