// Package linkreplay replays histories of spec/Link.tla on real module graphs (C04).
package linkreplay

import (
	"context"
	"encoding/json"
	"fmt"
	"runtime"
	"strings"
	"time"

	"github.com/tetratelabs/wazero"
	"github.com/tetratelabs/wazero/api"
	"github.com/tetratelabs/wazero/experimental"
	"github.com/tetratelabs/wazero/verifharness/common"
	"github.com/tetratelabs/wazero/verifharness/ug"
)

type seg struct {
	Off   int   `json:"off"`
	Bytes []int `json:"bytes"`
	Fns   []int `json:"fns"`
}

type decl struct {
	Mem     [2]int `json:"mem"`
	Tab     [2]int `json:"tab"`
	TabType string `json:"tabtype"`
	GType   string `json:"gtype"`
	GMut    bool   `json:"gmut"`
	IncSig  string `json:"incsig"`
	KMut    bool   `json:"kmut"`
	Data    []seg  `json:"data"`
	Elem    []seg  `json:"elem"`
	Start   string `json:"start"`
}

type snap struct {
	Pages int            `json:"pages"`
	Cells map[string]int `json:"cells"`
	G     int            `json:"g"`
	Tab   []struct {
		Inst int `json:"inst"`
		K    int `json:"k"`
	} `json:"tab"`
}

type step struct {
	I     int             `json:"i"`
	Op    string          `json:"op"`
	X     int             `json:"x"`
	Y     int             `json:"y"`
	Res   json.RawMessage `json:"res"`
	May   string          `json:"may"`
	Decl  *decl           `json:"decl"`
	Reexp bool            `json:"reexp"` // the consumer exports its imports again (and imports its function last)
	Via   int             `json:"via"`   // 0: imports come from the provider; j: from consumer j, which exports its imports again
	St    snap            `json:"st"`
}

type behaviour struct {
	A struct {
		Mem    [2]int `json:"mem"`
		TabMax int    `json:"tabmax"`
		HVal   int    `json:"hval"`
	} `json:"a"`
	Hist []step `json:"hist"`
}

var churn [][]uintptr

func isTrap(err error) bool { return err != nil && strings.Contains(err.Error(), "wasm error") }

func declKey(d *decl) string {
	var parts []string
	if d.Mem != [2]int{1, -1} {
		parts = append(parts, fmt.Sprintf("mem(%d,%d)", d.Mem[0], d.Mem[1]))
	}
	if d.Tab != [2]int{4, -1} || d.TabType != "funcref" {
		parts = append(parts, fmt.Sprintf("tab(%d,%d,%s)", d.Tab[0], d.Tab[1], d.TabType))
	}
	if d.GType != "i32" || !d.GMut {
		parts = append(parts, fmt.Sprintf("g(%s,mut=%v)", d.GType, d.GMut))
	}
	if d.IncSig != "" {
		parts = append(parts, "incsig")
	}
	if d.KMut {
		parts = append(parts, "constexpr-reads-mutable-global")
	}
	if len(d.Data) > 0 {
		parts = append(parts, fmt.Sprintf("data%d", len(d.Data)))
	}
	if len(d.Elem) > 0 {
		parts = append(parts, fmt.Sprintf("elem%d", len(d.Elem)))
	}
	if d.Start != "" {
		parts = append(parts, "start="+d.Start)
	}
	if len(parts) == 0 {
		return "base"
	}
	return strings.Join(parts, ",")
}

func replayOne(id int, b *behaviour, engine string) common.Result {
	res := common.Result{ID: id, OK: true}
	ctx := context.Background()
	cfg := wazero.NewRuntimeConfigInterpreter()
	if engine == "compiler" {
		cfg = wazero.NewRuntimeConfigCompiler()
	}
	cfg = cfg.WithCoreFeatures(api.CoreFeaturesV2 | experimental.CoreFeaturesTailCall)
	rt := wazero.NewRuntimeWithConfig(ctx, cfg)
	defer rt.Close(ctx)
	compiled := map[string]wazero.CompiledModule{} // consumers with the same declaration share ONE compiled module
	aBin := ug.Build(ug.Shape{Mem: "own", MemLim: ug.Limits{Min: b.A.Mem[0], Max: b.A.Mem[1]}, Tab: "own",
		TabLim: ug.Limits{Min: 4, Max: b.A.TabMax}, G: "own", H: "own", HVal: b.A.HVal, Inc: "own", ID: 1, TailCall: true})
	amod, err := rt.InstantiateWithConfig(ctx, aBin, wazero.NewModuleConfig().WithName("env"))
	if err != nil {
		res.AddFail("infra:provider", err.Error())
		return res
	}
	insts := map[int]api.Module{1: amod}
	norm := ""
	lastInst := ""
	for k := range b.Hist {
		s := &b.Hist[k]
		var want interface{}
		_ = json.Unmarshal(s.Res, &want)
		fail := func(what, msg string) {
			res.Step = k + 1
			res.AddFail(fmt.Sprintf("engine=%s;%s%s#%s", engine, lastInst, s.Op, what), fmt.Sprintf("%s step %d (%s): %s", engine, k+1, norm, msg))
		}
		if s.Op == "inst" {
			d := s.Decl
			via := ""
			if s.Via != 0 {
				via = ";via-consumer"
			}
			norm += "inst[" + declKey(d) + via + "];"
			lastInst = "inst[" + declKey(d) + via + "];"
			sh := ug.Shape{Mem: "imp", MemLim: ug.Limits{Min: d.Mem[0], Max: d.Mem[1]}, Tab: "imp", TabLim: ug.Limits{Min: d.Tab[0], Max: d.Tab[1]},
				TabType: d.TabType, G: "imp", GType: d.GType, GMut: d.GMut, H: "imp", K: true, KMut: d.KMut, Inc: "imp", IncSig: d.IncSig, Start: d.Start, TailCall: true,
				Reexport: s.Reexp, FuncLast: s.Reexp, GAlias: d.GType == "i32" && d.GMut}
			if s.Via != 0 {
				sh.From = fmt.Sprintf("b%d", s.Via)
			}
			for _, ds := range d.Data {
				bs := make([]byte, len(ds.Bytes))
				for i, v := range ds.Bytes {
					bs[i] = byte(v)
				}
				sh.DataAt = append(sh.DataAt, ug.DataSeg{Off: ds.Off, Bytes: string(bs)})
			}
			for _, es := range d.Elem {
				sh.ElemAt = append(sh.ElemAt, ug.ElemSeg{Off: es.Off, Fns: es.Fns})
			}
			got := "ok"
			shKey := fmt.Sprintf("%+v", sh)
			cm := compiled[shKey]
			var mod api.Module
			var err error
			if want != "ok" && len(d.Elem) > 0 {
				// an instantiation the model expects to fail after its element segments were applied, straight from the bytes: the
				// runtime owns the compiled code and releases it with the failed instance - what the segments wrote into the shared
				// table must stay callable. Collect, let the finalizers (which unmap code) run, and re-use the freed heap.
				mod, err = rt.InstantiateWithConfig(ctx, ug.Build(sh), wazero.NewModuleConfig().WithName(fmt.Sprintf("b%d", s.I)))
				churn = churn[:0]
				for i := 0; i < 10; i++ {
					runtime.GC()
					time.Sleep(20 * time.Millisecond)
					for j := 0; j < 20000; j++ {
						churn = append(churn, []uintptr{^uintptr(0), ^uintptr(0), ^uintptr(0)})
					}
				}
			} else {
				if cm == nil {
					cm, err = rt.CompileModule(ctx, ug.Build(sh))
					if err == nil {
						compiled[shKey] = cm
					}
				}
				if err == nil {
					mod, err = rt.InstantiateModule(ctx, cm, wazero.NewModuleConfig().WithName(fmt.Sprintf("b%d", s.I)))
				}
			}
			if err != nil {
				got = "error"
			}
			allowed := map[string][]string{"reject": {"error"}, "ok": {"ok"}, "fail": {"error"}, "ok-or-fail": {"ok", "error"}, "ok-or-reject": {"ok", "error"}}[s.May]
			okRes := false
			for _, a := range allowed {
				okRes = okRes || a == got
			}
			if !okRes {
				fail("instantiate="+got, fmt.Sprintf("instantiation of a consumer declaring %s ended with %q (%v), the model allows %v", declKey(d), got, err, allowed))
				return res
			}
			if got == "ok" {
				if want == "ok" { // identity only for instances the model considers alive
					if _, err := mod.ExportedFunction("setid").Call(ctx, uint64(s.I)); err != nil {
						fail("setid", err.Error())
					}
				}
				if want == "ok" || s.May == "ok-or-fail" {
					insts[s.I] = mod
				} else {
					mod.Close(ctx)
				}
				if s.May == "ok-or-fail" && want != "ok" {
					// the model says the instance is not alive: do not use it, but keep it open (closing must not matter)
					delete(insts, s.I)
				}
			}
		} else {
			norm += s.Op + ";"
			mod := insts[s.I]
			if mod == nil {
				continue // the model's instance exists only because of latitude (ok-or-reject taken as reject)
			}
			f := mod.ExportedFunction(s.Op)
			if f == nil {
				fail("missing-export", s.Op)
				return res
			}
			var args []uint64
			switch s.Op {
			case "gset", "ld", "mgrow", "tnull", "tisnull", "tcall", "trcall", "tgrow", "galias":
				args = []uint64{uint64(uint32(s.X))}
			case "st", "tset":
				args = []uint64{uint64(uint32(s.X)), uint64(uint32(s.Y))}
			}
			out, err := f.Call(ctx, args...)
			switch w := want.(type) {
			case string:
				if w == "trap" && !isTrap(err) {
					fail("no-trap", fmt.Sprintf("%s(%d,%d) on instance %d returned %v (%v), the model says trap", s.Op, s.X, s.Y, s.I, out, err))
				} else if w == "void" && err != nil {
					fail("error", fmt.Sprintf("%s(%d,%d) on instance %d failed: %v", s.Op, s.X, s.Y, s.I, err))
				}
			case float64:
				if err != nil || len(out) != 1 || int32(out[0]) != int32(w) {
					fail("result", fmt.Sprintf("%s(%d,%d) on instance %d returned %v (%v), the model says %d", s.Op, s.X, s.Y, s.I, out, err, int(w)))
				}
			}
		}
		// every alive instance observes the same shared objects, equal to the model's
		for i, mod := range insts {
			call := func(name string, args ...uint64) (int64, bool) {
				f := mod.ExportedFunction(name)
				if f == nil {
					return 0, false
				}
				out, err := f.Call(ctx, args...)
				if err != nil {
					return -1000, true
				}
				if len(out) == 0 {
					return 0, true
				}
				return int64(int32(out[0])), true
			}
			if v, ok := call("gget"); ok && v != int64(s.St.G) {
				fail("shared-global", fmt.Sprintf("instance %d sees g=%d, the model says %d", i, v, s.St.G))
			}
			if v, ok := call("msize"); ok && v != int64(s.St.Pages) {
				fail("shared-memory-size", fmt.Sprintf("instance %d sees memory.size=%d, the model says %d", i, v, s.St.Pages))
			}
			for addr, wantB := range s.St.Cells {
				var a uint64
				fmt.Sscan(addr, &a)
				if v, ok := call("ld", a); ok && v != int64(wantB) {
					fail("shared-memory", fmt.Sprintf("instance %d reads byte %d = %d, the model says %d", i, a, v, wantB))
				}
				if hv, ok := mod.Memory().ReadByte(uint32(a)); !ok || int(hv) != wantB {
					fail("shared-memory-host", fmt.Sprintf("host view of instance %d: byte %d = %d, the model says %d", i, a, hv, wantB))
				}
			}
			if v, ok := call("tsize"); ok && v != int64(len(s.St.Tab)) {
				fail("shared-table-size", fmt.Sprintf("instance %d sees table.size=%d, the model says %d", i, v, len(s.St.Tab)))
			}
			for slot, ref := range s.St.Tab {
				wantCall := int64(-1000)
				if ref.K == 3 {
					continue // calling f3 has an effect: not part of the observation sweep
				}
				if ref.Inst != 0 {
					idOf := 0
					if insts[ref.Inst] != nil {
						idOf = ref.Inst
					}
					wantCall = int64(idOf*10 + ref.K)
				}
				if v, ok := call("tcall", uint64(slot)); ok && v != wantCall {
					fail("shared-table", fmt.Sprintf("instance %d: call_indirect through slot %d gives %d, the model says %d (-1000 = trap)", i, slot, v, wantCall))
				}
			}
		}
		if !res.OK {
			return res
		}
	}
	return res
}

// Main is `driver replay-link -in file`.
func Main(args []string) {
	lines, err := common.ReadLines(common.Arg(args, "-in", ""))
	if err != nil {
		common.Fatalf("read: %v", err)
	}
	// supervised children: a process fault (e.g. a call through a dangling table entry) is attributed to the history
	results := common.SuperviseRetry("link-child", nil, lines, 180*time.Second, 12)
	for i := range results {
		r := &results[i]
		if !r.OK && (r.Key == "crash" || r.Key == "hang") {
			var b behaviour
			_ = json.Unmarshal(lines[i], &b)
			norm := ""
			for _, st := range b.Hist {
				if st.Op == "inst" {
					norm += "inst[" + declKey(st.Decl) + "];"
				} else {
					norm += st.Op + ";"
				}
			}
			k, msg := r.Key, r.Msg
			*r = common.Result{ID: r.ID}
			r.AddFail(fmt.Sprintf("%s#process-%s", norm, k), "history "+norm+": "+msg)
		}
		common.Emit(*r)
	}
	common.Flush()
}

// Child is `driver link-child`.
func Child(args []string) {
	common.ChildLoop(func(id int, raw json.RawMessage) common.Result {
		var b behaviour
		if err := json.Unmarshal(raw, &b); err != nil {
			r := common.Result{ID: id}
			r.AddFail("infra", err.Error())
			return r
		}
		r := replayOne(id, &b, "interpreter")
		r2 := replayOne(id, &b, "compiler")
		for _, f := range r2.Fails {
			r.AddFail(f.Key, f.Msg)
		}
		return r
	})
}
