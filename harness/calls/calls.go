// Package calls replays the call-tree histories of spec/Calls.tla (C06 failure containment, C20 listeners).
package calls

import (
	"context"
	"encoding/binary"
	"encoding/json"
	"errors"
	"fmt"
	"math"
	"runtime/debug"
	"strings"
	"time"

	"github.com/tetratelabs/wazero"
	"github.com/tetratelabs/wazero/api"
	"github.com/tetratelabs/wazero/experimental"
	"github.com/tetratelabs/wazero/internal/wasm"
	"github.com/tetratelabs/wazero/sys"
	"github.com/tetratelabs/wazero/verifharness/common"
	"github.com/tetratelabs/wazero/verifharness/wb"
)

// ------------------------------------------------------------------------------------ modules

func peerModule() []byte {
	m := wb.New()
	i32 := []wasm.ValueType{wb.I32}
	i32x2 := []wasm.ValueType{wb.I32, wb.I32}
	h0 := m.ImportFunc("host", "h0", i32x2, i32)
	m.Table(wasm.RefTypeFuncref, 1, nil, "")
	m.Elem(wasm.ElementSegment{Mode: wasm.ElementModeActive, Type: wasm.RefTypeFuncref, OffsetExpr: wb.ConstI32(0), Init: []wasm.Index{h0}})
	g := m.Global(wb.I32, true, wb.ConstI32(0), "g")
	tH := m.TypeIndex(i32x2, i32)
	m.AddFunc(wb.Func{Params: i32, Results: i32, Export: "peer", Body: wb.Cat(
		wb.GlobalGet(g), wb.I32Const(1), wasm.OpcodeI32Add, wb.GlobalSet(g),
		wb.LocalGet(0), wb.I32Const(1), wasm.OpcodeI32Eq, wasm.OpcodeIf, 0x40, wasm.OpcodeUnreachable, wasm.OpcodeEnd,
		// x == 2: reach the host function through call_indirect
		wb.LocalGet(0), wb.I32Const(2), wasm.OpcodeI32Eq, wasm.OpcodeIf, 0x40,
		wb.LocalGet(0), wb.I32Const(0), wb.I32Const(0), wb.CallIndirect(tH, 0), wasm.OpcodeReturn, wasm.OpcodeEnd,
		wb.GlobalGet(g))})
	return m.Build()
}

func mainModule() []byte {
	m := wb.New()
	i32 := []wasm.ValueType{wb.I32}
	h0 := m.ImportFunc("host", "h0", []wasm.ValueType{wb.I32, wb.I32}, i32)
	peer := m.ImportFunc("peer", "peer", i32, i32)
	one := uint32(1)
	m.Memory(1, &one, "")
	m.Table(wasm.RefTypeFuncref, 2, nil, "")
	g := m.Global(wb.I32, true, wb.ConstI32(0), "g")
	bump := func(by []byte) []byte { return wb.Cat(wb.GlobalGet(g), by, wasm.OpcodeI32Add, wb.GlobalSet(g)) }
	bump1 := bump(wb.I32Const(1))
	tI32 := m.TypeIndex(nil, i32)
	m.AddFunc(wb.Func{Params: i32, Results: i32, Export: "mark", Body: wb.Cat(bump(wb.LocalGet(0)), wb.GlobalGet(g))})
	// trap(k)
	m.AddFunc(wb.Func{Params: i32, Results: i32, Export: "trap", Body: wb.Cat(bump1,
		wasm.OpcodeBlock, 0x40, wasm.OpcodeBlock, 0x40, wasm.OpcodeBlock, 0x40, wasm.OpcodeBlock, 0x40, wasm.OpcodeBlock, 0x40,
		wb.LocalGet(0), wasm.OpcodeBrTable, wb.U32(4), wb.U32(0), wb.U32(1), wb.U32(2), wb.U32(3), wb.U32(4),
		wasm.OpcodeEnd, wasm.OpcodeUnreachable,
		wasm.OpcodeEnd, wb.I32Const(1), wb.I32Const(0), wasm.OpcodeI32DivU, wasm.OpcodeReturn,
		wasm.OpcodeEnd, wb.I32Const(-16), wasm.OpcodeI32Load, wb.MemArg(2, 0), wasm.OpcodeReturn,
		wasm.OpcodeEnd, wb.I32Const(0), wb.CallIndirect(tI32, 0), wasm.OpcodeReturn,
		wasm.OpcodeEnd, wasm.OpcodeF32Const, []byte{0, 0, 0xc0, 0x7f}, wasm.OpcodeI32TruncF32S)})
	// rectrap(n)
	rectrap := uint32(len(m.M.FunctionSection)) + 2
	m.AddFunc(wb.Func{Params: i32, Results: i32, Export: "rectrap", Body: wb.Cat(bump1,
		wb.LocalGet(0), wasm.OpcodeI32Eqz, wasm.OpcodeIf, 0x40, wasm.OpcodeUnreachable, wasm.OpcodeEnd,
		wb.LocalGet(0), wb.I32Const(1), wasm.OpcodeI32Sub, wb.Call(rectrap))})
	recfin := uint32(len(m.M.FunctionSection)) + 2
	m.AddFunc(wb.Func{Params: i32, Results: i32, Export: "recfin", Body: wb.Cat(bump1,
		wb.LocalGet(0), wasm.OpcodeI32Eqz, wasm.OpcodeIf, 0x40, wb.I32Const(0), wasm.OpcodeReturn, wasm.OpcodeEnd,
		wb.LocalGet(0), wb.I32Const(1), wasm.OpcodeI32Sub, wb.Call(recfin), wb.I32Const(1), wasm.OpcodeI32Add)})
	// recmix(x): x = 2*depth + flag; at the bottom it traps (flag 1) or returns 0: ONE function object for deep failures and deep successes
	recmix := uint32(len(m.M.FunctionSection)) + 2
	m.AddFunc(wb.Func{Params: i32, Results: i32, Export: "recmix", Body: wb.Cat(bump1,
		wb.LocalGet(0), wb.I32Const(2), wasm.OpcodeI32LtU, wasm.OpcodeIf, 0x40,
		wb.LocalGet(0), wasm.OpcodeIf, 0x40, wasm.OpcodeUnreachable, wasm.OpcodeEnd,
		wb.I32Const(0), wasm.OpcodeReturn, wasm.OpcodeEnd,
		wb.LocalGet(0), wb.I32Const(2), wasm.OpcodeI32Sub, wb.Call(recmix), wb.I32Const(1), wasm.OpcodeI32Add)})
	// infinite recursion with three frame sizes (0, 40, 400 live i64 locals)
	var infs [3]uint32
	for v, nloc := range []int{0, 40, 400} {
		idx := uint32(len(m.M.FunctionSection)) + 2
		locals := make([]wasm.ValueType, nloc)
		var body []byte
		for i := range locals {
			locals[i] = wb.I64
			body = append(body, wb.Cat(wb.LocalGet(0), wasm.OpcodeI64ExtendI32U, wb.LocalSet(uint32(1+i)))...)
		}
		body = append(body, wb.Cat(wb.LocalGet(0), wb.I32Const(1), wasm.OpcodeI32Add, wb.Call(idx))...)
		// keep the locals live after the call
		for i := range locals {
			body = append(body, wb.Cat(wb.LocalGet(uint32(1+i)), wasm.OpcodeI32WrapI64, wasm.OpcodeI32Add)...)
		}
		infs[v] = m.AddFunc(wb.Func{Params: i32, Results: i32, Locals: locals, Body: body})
	}
	m.AddFunc(wb.Func{Params: i32, Results: i32, Export: "recinf", Body: wb.Cat(bump1,
		wasm.OpcodeBlock, 0x40, wasm.OpcodeBlock, 0x40, wasm.OpcodeBlock, 0x40,
		wb.LocalGet(0), wasm.OpcodeBrTable, wb.U32(2), wb.U32(0), wb.U32(1), wb.U32(2),
		wasm.OpcodeEnd, wb.I32Const(0), wb.Call(infs[0]), wasm.OpcodeReturn,
		wasm.OpcodeEnd, wb.I32Const(0), wb.Call(infs[1]), wasm.OpcodeReturn,
		wasm.OpcodeEnd, wb.I32Const(0), wb.Call(infs[2]))})
	m.AddFunc(wb.Func{Params: i32, Results: i32, Export: "brret", Body: wb.Cat(bump1,
		wasm.OpcodeBlock, wb.I32, wb.I32Const(20), wb.LocalGet(0), wasm.OpcodeBrTable, wb.U32(1), wb.U32(0), wb.U32(1), wasm.OpcodeEnd,
		wb.I32Const(1), wasm.OpcodeI32Add)})
	m.AddFunc(wb.Func{Params: i32, Results: i32, Export: "callpeer", Body: wb.Cat(bump1, wb.LocalGet(0), wb.Call(peer), wb.I32Const(100), wasm.OpcodeI32Add)})
	m.AddFunc(wb.Func{Params: i32, Results: i32, Export: "viahost", Locals: i32, Body: wb.Cat(bump1,
		wb.LocalGet(0), wb.I32Const(0), wb.Call(h0), wb.LocalSet(1), bump(wb.I32Const(10)), wb.LocalGet(1))})
	// typed functions (Calls!TypedFns): the model's integer x travels encoded in 64-bit and float values (typedArgs)
	i64c3 := wb.I64Const(3 << 32)
	f64c3 := wb.Cat(wasm.OpcodeF64Const, le64(math.Float64bits(3)))
	f32c3 := wb.Cat(wasm.OpcodeF32Const, le32(math.Float32bits(3)))
	m.AddFunc(wb.Func{Params: []wasm.ValueType{wb.I64}, Results: []wasm.ValueType{wb.I64}, Export: "w64", Body: wb.Cat(bump1, wb.LocalGet(0), i64c3, wasm.OpcodeI64Add)})
	m.AddFunc(wb.Func{Params: []wasm.ValueType{wb.F64}, Results: []wasm.ValueType{wb.F64}, Export: "wf64", Body: wb.Cat(bump1, wb.LocalGet(0), f64c3, wasm.OpcodeF64Add)})
	m.AddFunc(wb.Func{Params: []wasm.ValueType{wb.F32}, Results: []wasm.ValueType{wb.F32}, Export: "wf32", Body: wb.Cat(bump1, wb.LocalGet(0), f32c3, wasm.OpcodeF32Add)})
	m.AddFunc(wb.Func{Params: []wasm.ValueType{wb.I32, wb.I64, wb.F64, wb.F32, wb.I64}, Results: []wasm.ValueType{wb.I64, wb.F64, wb.I32}, Export: "wide",
		Body: wb.Cat(bump1, wb.LocalGet(1), i64c3, wasm.OpcodeI64Add, wb.LocalGet(2), f64c3, wasm.OpcodeF64Add, wb.LocalGet(0), wb.I32Const(3), wasm.OpcodeI32Add)})
	return m.Build()
}

func le32(v uint32) []byte { b := make([]byte, 4); binary.LittleEndian.PutUint32(b, v); return b }
func le64(v uint64) []byte { b := make([]byte, 8); binary.LittleEndian.PutUint64(b, v); return b }

// typed functions: how the model's integer is carried by each signature
var typedFns = map[string]bool{"w64": true, "wf64": true, "wf32": true, "wide": true}

const lowTag = 0x9abcdef1
const corrupt = -424242 // what an observer records when the values it was shown are not an encoding of any integer

func enc64(x int32) uint64  { return uint64(int64(x))<<32 | lowTag }
func encF64(x int32) uint64 { return math.Float64bits(float64(x) + 0.5) }
func encF32(x int32) uint64 { return uint64(math.Float32bits(float32(x) + 0.5)) }

func typedArgs(fn string, x int32) []uint64 {
	switch fn {
	case "w64":
		return []uint64{enc64(x)}
	case "wf64":
		return []uint64{encF64(x)}
	case "wf32":
		return []uint64{encF32(x)}
	case "wide":
		return []uint64{uint64(uint32(x)), enc64(x), encF64(x), encF32(x), ^enc64(x)}
	}
	return []uint64{uint64(uint32(x))}
}

// typedValue decodes parameters (result=false) or results (result=true) of a typed function; corrupt when they are no encoding.
func typedValue(fn string, v []uint64, result bool) int {
	same := func(a, b []uint64) bool { return fmt.Sprint(a) == fmt.Sprint(b) }
	// the upper half of a slot that carries a 32-bit value is not part of the value (as in the C08 harness)
	v = append([]uint64{}, v...)
	switch {
	case fn == "wf32" && len(v) == 1:
		v[0] &= 0xffffffff
	case fn == "wide" && !result && len(v) == 5:
		v[0], v[3] = v[0]&0xffffffff, v[3]&0xffffffff
	case fn == "wide" && result && len(v) == 3:
		v[2] &= 0xffffffff
	}
	switch fn {
	case "w64":
		if x := int32(int64(v[0]) >> 32); len(v) == 1 && same(v, typedArgs(fn, x)) {
			return int(x)
		}
	case "wf64":
		if x := int32(math.Floor(math.Float64frombits(v[0]))); len(v) == 1 && same(v, typedArgs(fn, x)) {
			return int(x)
		}
	case "wf32":
		if x := int32(math.Floor(float64(math.Float32frombits(uint32(v[0]))))); len(v) == 1 && same(v, typedArgs(fn, x)) {
			return int(x)
		}
	case "wide":
		if !result {
			if x := int32(v[0]); len(v) == 5 && same(v, typedArgs(fn, x)) {
				return int(x)
			}
		} else if len(v) == 3 {
			if x := int32(v[2]); same(v, []uint64{enc64(x), encF64(x), uint64(uint32(x))}) {
				return int(x)
			}
		}
	}
	return corrupt
}

// starterModule: start function = mark(5) ; <body> ; mark(7), as start section or as exported _start.
func starterModule(body, via string) []byte {
	m := wb.New()
	i32 := []wasm.ValueType{wb.I32}
	mark := m.ImportFunc("main", "mark", i32, i32)
	trap := m.ImportFunc("main", "trap", i32, i32)
	peer := m.ImportFunc("peer", "peer", i32, i32)
	h0 := m.ImportFunc("host", "h0", []wasm.ValueType{wb.I32, wb.I32}, i32)
	b := wb.Cat(wb.I32Const(5), wb.Call(mark), wasm.OpcodeDrop)
	switch body {
	case "trap":
		b = append(b, wb.Cat(wb.I32Const(0), wb.Call(trap), wasm.OpcodeDrop)...)
	case "host":
		b = append(b, wb.Cat(wb.I32Const(0), wb.I32Const(0), wb.Call(h0), wasm.OpcodeDrop)...)
	case "peer2":
		b = append(b, wb.Cat(wb.I32Const(2), wb.Call(peer), wasm.OpcodeDrop)...)
	}
	b = append(b, wb.Cat(wb.I32Const(7), wb.Call(mark), wasm.OpcodeDrop)...)
	if via == "export" {
		m.AddFunc(wb.Func{Body: b, Export: "_start"})
	} else {
		m.Start(m.AddFunc(wb.Func{Body: b}))
	}
	return m.Build()
}

// ------------------------------------------------------------------------------------ behaviours

type node struct {
	T       string `json:"t"`
	V       int    `json:"v"`
	F       string `json:"f"`
	X       int    `json:"x"`
	Swallow bool   `json:"swallow"`
}

type outcome struct {
	K string `json:"k"`
	V int    `json:"v"`
}

type event struct {
	E     string   `json:"e"`
	F     string   `json:"f"`
	V     int      `json:"v"`
	Chain []string `json:"chain"`
}

type call struct {
	Top struct {
		Inst   string `json:"inst"`
		Fn     string `json:"fn"`
		Arg    int    `json:"arg"`
		Script []node `json:"script"`
		Body   string `json:"body"` // starter instantiations: body of the start function
		Via    string `json:"via"`  // "section" | "export"
	} `json:"top"`
	Res    outcome        `json:"res"`
	G      map[string]int `json:"g"`
	Closed map[string]int `json:"closed"`
	Sreg   int            `json:"sreg"` // 1: an instance of the starter module is registered after this step
	Ev     []event        `json:"ev"`
}

type behaviour struct {
	Hist []call `json:"hist"`
	// Same: the history is about re-using ONE function object per export (otherwise the driver alternates)
	Same bool `json:"same"`
}

// classify maps (results, error) to the outcome vocabulary of the specification.
func classify(res []uint64, err error) outcome {
	if err == nil {
		if len(res) == 0 {
			return outcome{"ok", 0}
		}
		return outcome{"ok", int(int32(res[0]))}
	}
	var ee *sys.ExitError
	if errors.As(err, &ee) {
		return outcome{"exit", int(ee.ExitCode())}
	}
	s := err.Error()
	switch {
	case strings.Contains(s, "stack overflow"):
		return outcome{"overflow", 0}
	case strings.Contains(s, "host-panic-value"):
		return outcome{"panic", 0}
	case strings.Contains(s, "unreachable"):
		return outcome{"trap", 0}
	case strings.Contains(s, "integer divide by zero"):
		return outcome{"trap", 1}
	case strings.Contains(s, "out of bounds memory access"):
		return outcome{"trap", 2}
	case strings.Contains(s, "invalid table access"):
		return outcome{"trap", 3}
	case strings.Contains(s, "invalid conversion to integer"):
		return outcome{"trap", 4}
	}
	return outcome{"other:" + trunc(s), 0}
}

func trunc(s string) string {
	s = strings.ReplaceAll(s, "\n", " ")
	if len(s) > 80 {
		return s[:80]
	}
	return s
}

// recorder is the listener factory: one listener for every function.
type recorder struct {
	events []event
	only   map[string]bool // nil = all functions
}

func fname(def api.FunctionDefinition) string {
	if n := def.ExportNames(); len(n) > 0 {
		return n[0]
	}
	if _, n, ok := def.Import(); ok {
		return n
	}
	return fmt.Sprintf("#%d", def.Index())
}

func (r *recorder) NewFunctionListener(def api.FunctionDefinition) experimental.FunctionListener {
	n := fname(def)
	if strings.HasPrefix(n, "#") || (r.only != nil && !r.only[n]) {
		return nil
	}
	return &lst{r: r, name: n}
}

type lst struct {
	r    *recorder
	name string
}

func (l *lst) Before(ctx context.Context, mod api.Module, def api.FunctionDefinition, params []uint64, si experimental.StackIterator) {
	v := 0
	if len(params) > 0 {
		v = int(int32(params[0]))
	}
	if typedFns[l.name] {
		v = typedValue(l.name, params, false)
	}
	var chain []string
	for si.Next() {
		chain = append(chain, fname(si.Function().Definition()))
	}
	l.r.events = append(l.r.events, event{"before", l.name, v, chain})
}

func (l *lst) After(ctx context.Context, mod api.Module, def api.FunctionDefinition, results []uint64) {
	v := 0
	if len(results) > 0 {
		v = int(int32(results[0]))
	}
	if typedFns[l.name] {
		v = typedValue(l.name, results, true)
	}
	l.r.events = append(l.r.events, event{"after", l.name, v, nil})
}

func (l *lst) Abort(ctx context.Context, mod api.Module, def api.FunctionDefinition, err error) {
	l.r.events = append(l.r.events, event{"abort", l.name, 0, nil})
}

type world struct {
	rt     wazero.Runtime
	m, a   api.Module
	s      api.Module // the starter instance, if one is registered
	script []node
	fns    map[string]api.Function
}

// preFactory is installed for a FIRST compilation of the same binaries in the same runtime; its listeners must
// never receive anything once the modules are compiled again with the recording factory.
type preFactory struct {
	only  map[string]bool
	calls int
}

func (p *preFactory) NewFunctionListener(def api.FunctionDefinition) experimental.FunctionListener {
	n := fname(def)
	if strings.HasPrefix(n, "#") || (p.only != nil && !p.only[n]) {
		return nil
	}
	return &plst{p}
}

type plst struct{ p *preFactory }

func (l *plst) Before(context.Context, api.Module, api.FunctionDefinition, []uint64, experimental.StackIterator) {
	l.p.calls++
}
func (l *plst) After(context.Context, api.Module, api.FunctionDefinition, []uint64) { l.p.calls++ }
func (l *plst) Abort(context.Context, api.Module, api.FunctionDefinition, error)    { l.p.calls++ }

// closeOnDone: the next world's runtime is configured with WithCloseOnContextDone(true) (mode plain-ctxdone).
var closeOnDone bool

func newWorld(ctx context.Context, engine string) (*world, error) {
	return newWorldPre(ctx, engine, nil)
}

func newWorldPre(ctx context.Context, engine string, pre *preFactory) (*world, error) {
	cfg := wazero.NewRuntimeConfigInterpreter()
	if engine == "compiler" {
		cfg = wazero.NewRuntimeConfigCompiler()
	}
	w := &world{fns: map[string]api.Function{}}
	if closeOnDone {
		cfg = cfg.WithCloseOnContextDone(true)
	}
	w.rt = wazero.NewRuntimeWithConfig(ctx, cfg)
	_, err := w.rt.NewHostModuleBuilder("host").NewFunctionBuilder().WithFunc(func(ctx context.Context, mod api.Module, x, y uint32) uint32 {
		if len(w.script) == 0 {
			return 7
		}
		n := w.script[0]
		w.script = w.script[1:]
		switch n.T {
		case "ret":
			return uint32(n.V)
		case "panic":
			panic("host-panic-value")
		case "exit":
			_ = mod.CloseWithExitCode(ctx, uint32(n.V))
			panic(sys.NewExitError(uint32(n.V)))
		case "cbrec": // unbounded nesting: the host call made by the callee finds the same node again
			w.script = append([]node{n}, w.script...)
			if _, err := mod.ExportedFunction(n.F).Call(ctx, uint64(uint32(n.X))); err != nil {
				panic(err)
			}
			return uint32(n.V)
		case "cb":
			_, err := mod.ExportedFunction(n.F).Call(ctx, uint64(uint32(n.X)))
			if err != nil && !n.Swallow {
				panic(err)
			}
			return uint32(n.V)
		}
		return 0
	}).Export("h0").Instantiate(ctx)
	if err != nil {
		return nil, err
	}
	if pre != nil { // first compilation of the same binaries with another factory, closed again before the real one
		pctx := experimental.WithFunctionListenerFactory(context.Background(), pre)
		for _, bin := range [][]byte{peerModule(), mainModule()} {
			cm, err := w.rt.CompileModule(pctx, bin)
			if err != nil {
				return nil, err
			}
			defer cm.Close(pctx)
		}
	}
	if w.a, err = w.rt.InstantiateWithConfig(ctx, peerModule(), wazero.NewModuleConfig().WithName("peer")); err != nil {
		return nil, err
	}
	if w.m, err = w.rt.InstantiateWithConfig(ctx, mainModule(), wazero.NewModuleConfig().WithName("main")); err != nil {
		return nil, err
	}
	return w, nil
}

// replay runs one history. mode: "plain" (no listeners), "listen" (all functions), "subset" (h0, peer, rectrap only).
func replay(id int, b *behaviour, engine, mode string, sameObjects bool) (res common.Result) {
	res = common.Result{ID: id, OK: true}
	ctx := context.Background()
	var rec *recorder
	_ = 0
	if mode != "plain" && mode != "plain-ctxdone" {
		rec = &recorder{}
		if mode == "subset" {
			rec.only = map[string]bool{"h0": true, "peer": true, "rectrap": true, "viahost": true}
		}
		ctx = experimental.WithFunctionListenerFactory(ctx, rec)
	}
	var pre *preFactory
	preName := ""
	if strings.HasPrefix(mode, "recompile-") {
		// the binaries were compiled before in the same runtime with ANOTHER factory listening to ...
		switch mode {
		case "recompile-same-subset": // ... the same functions
			pre, preName = &preFactory{}, "same-subset"
		case "recompile-low-differs": // ... all but mark (function index 0)
			pre, preName = &preFactory{only: map[string]bool{"trap": true, "rectrap": true, "recfin": true, "recinf": true, "callpeer": true, "viahost": true, "brret": true}}, "subset-differs-at-low-index"
		case "recompile-high-differs": // ... all but viahost (function index >= 8)
			pre, preName = &preFactory{only: map[string]bool{"mark": true, "trap": true, "rectrap": true, "recfin": true, "recinf": true, "callpeer": true, "brret": true}}, "subset-differs-at-high-index"
		}
	}
	prev := ""
	closeOnDone = mode == "plain-ctxdone"
	w, err := newWorldPre(ctx, engine, pre)
	closeOnDone = false
	if err != nil {
		res.AddFail("infra:world", err.Error())
		return res
	}
	defer w.rt.Close(ctx)
	// Calls!Finish: Runtime.Close ends the history; every instance must be closed by it and fail its calls from then on
	defer func() {
		if !res.OK {
			return
		}
		_ = w.rt.Close(ctx)
		for name, m := range map[string]api.Module{"M": w.m, "A": w.a} {
			if !m.IsClosed() {
				res.AddFail(fmt.Sprintf("engine=%s;mode=%s;%sruntime-close#instance-still-open", engine, mode, prev),
					fmt.Sprintf("%s: after Runtime.Close instance %s is not closed", engine, name))
				continue
			}
			fn := "mark"
			if name == "A" {
				fn = "peer"
			}
			if _, err := m.ExportedFunction(fn).Call(ctx, 0); err == nil {
				res.AddFail(fmt.Sprintf("engine=%s;mode=%s;%sruntime-close#instance-still-callable", engine, mode, prev),
					fmt.Sprintf("%s: after Runtime.Close %s.%s(0) still succeeds", engine, name, fn))
			}
		}
	}()
	defer func() {
		if pre != nil && pre.calls > 0 {
			res.AddFail(fmt.Sprintf("engine=%s;compile(bin,F1);compile(bin,F2);%s#events-to-F1", engine, preName),
				fmt.Sprintf("%s: the binary was compiled with factory F1, then again with F2 (%s): F1's listeners received %d events of the F2 instance", engine, preName, pre.calls))
		}
	}()
	// after a stack overflow the counter has been bumped an implementation-defined number of times: keep the offset
	delta := map[string]int{}
	for k := range b.Hist {
		c := &b.Hist[k]
		mod := w.m
		if c.Top.Inst == "A" {
			mod = w.a
		}
		leafs := ""
		for _, n := range c.Top.Script {
			leafs += "." + n.T
			if n.T == "cb" {
				leafs += "(" + n.F + fmt.Sprintf(",sw=%v)", n.Swallow)
			}
		}
		desc := fmt.Sprintf("%s(%d)%s", c.Top.Fn, c.Top.Arg, leafs)
		fail := func(what, msg string) {
			res.Step = k + 1
			if strings.HasPrefix(what, "KEY:") {
				res.AddFail(fmt.Sprintf("engine=%s;%s", engine, what[4:]), fmt.Sprintf("%s/%s call %d %s.%s: %s", engine, mode, k+1, c.Top.Inst, desc, msg))
				return
			}
			res.AddFail(fmt.Sprintf("engine=%s;mode=%s;%s%s#%s", engine, mode, prev, desc, what), fmt.Sprintf("%s/%s call %d %s.%s: %s", engine, mode, k+1, c.Top.Inst, desc, msg))
		}
		if c.Top.Inst == "S" {
			// instantiation (the start function runs) / close of the starter module
			got := outcome{"ok", 0}
			switch c.Top.Fn {
			case "inst":
				w.script = append([]node{}, c.Top.Script...)
				mod, err := w.rt.InstantiateWithConfig(ctx, starterModule(c.Top.Body, c.Top.Via), wazero.NewModuleConfig().WithName("starter"))
				switch {
				case err != nil && strings.Contains(err.Error(), "has already been instantiated"):
					got = outcome{"dup", 0}
				case err != nil && strings.Contains(err.Error(), "not instantiated"):
					got = outcome{"nolink", 0}
				case err != nil:
					got = classify(nil, err)
				default:
					w.s = mod
				}
				desc = fmt.Sprintf("instantiate-starter[%s,%s]%s", c.Top.Body, c.Top.Via, leafs)
			case "close":
				if w.s != nil {
					_ = w.s.Close(ctx)
				}
				desc = "close-starter"
			}
			if got.K != c.Res.K || ((got.K == "exit" || got.K == "trap") && got.V != c.Res.V) {
				fail(fmt.Sprintf("result=%s:%d", got.K, got.V), fmt.Sprintf("ended with %+v, the model says %+v", got, c.Res))
				return res
			}
			for name, m := range map[string]api.Module{"M": w.m, "A": w.a} {
				gv := int(int32(m.ExportedGlobal("g").Get())) - delta[name]
				if gv != c.G[name] {
					fail("effects:"+name, fmt.Sprintf("counter of instance %s is %d, the model says %d", name, gv, c.G[name]))
				}
				if m.IsClosed() != (c.Closed[name] != 0) {
					fail("closed:"+name, fmt.Sprintf("instance %s IsClosed()=%v, the model says closed=%v", name, m.IsClosed(), c.Closed[name] != 0))
				}
			}
			if reg := w.rt.Module("starter") != nil; reg != (c.Sreg == 1) {
				fail("starter-registered", fmt.Sprintf("after the step Runtime.Module(\"starter\") != nil is %v, the model says %v (an instantiation that fails must leave no instance behind)", reg, c.Sreg == 1))
			}
			if !res.OK {
				return res
			}
			prev = c.Top.Fn + "-starter;"
			continue
		}
		key := c.Top.Inst + "." + c.Top.Fn
		f := w.fns[key]
		if f == nil || !sameObjects {
			f = mod.ExportedFunction(c.Top.Fn)
			w.fns[key] = f
		}
		w.script = append([]node{}, c.Top.Script...)
		if rec != nil {
			rec.events = nil
		}
		type ret struct {
			out []uint64
			err error
		}
		done := make(chan ret, 1)
		go func() {
			cctx, cancel := ctx, func() {}
			if mode == "plain-ctxdone" { // a context of its own, cancelled once the call has returned: that must not matter
				cctx, cancel = context.WithCancel(ctx)
			}
			out, err := f.Call(cctx, typedArgs(c.Top.Fn, int32(c.Top.Arg))...)
			cancel()
			if mode == "plain-ctxdone" {
				time.Sleep(2 * time.Millisecond) // a watcher goroutine that outlived the call acts now
			}
			done <- ret{out, err}
		}()
		var r ret
		select {
		case r = <-done:
		case <-time.After(60 * time.Second):
			fail("hang", "call did not return within 60s")
			return res
		}
		got := classify(r.out, r.err)
		if got.K == "ok" && typedFns[c.Top.Fn] {
			got.V = typedValue(c.Top.Fn, r.out, true)
		}
		if got.K == "ok" && c.Top.Fn == "mark" {
			got.V -= delta["M"]
		}
		if got.K != c.Res.K || (got.K != "overflow" && got.K != "panic" && got.V != c.Res.V) {
			fail(fmt.Sprintf("result=%s:%d", got.K, got.V), fmt.Sprintf("returned %+v (%v), the model says %+v", got, r.err, c.Res))
			return res
		}
		// effects persisted, other instances untouched, closed flags
		for name, m := range map[string]api.Module{"M": w.m, "A": w.a} {
			gv := int(int32(m.ExportedGlobal("g").Get()))
			if c.Res.K == "overflow" && name == "M" {
				delta[name] = gv - c.G[name]
			}
			gv -= delta[name]
			if gv != c.G[name] {
				fail("effects:"+name, fmt.Sprintf("counter of instance %s is %d, the model says %d", name, gv, c.G[name]))
			}
			if m.IsClosed() != (c.Closed[name] != 0) {
				fail("closed:"+name, fmt.Sprintf("instance %s IsClosed()=%v, the model says closed=%v", name, m.IsClosed(), c.Closed[name] != 0))
			}
		}
		// listener events
		if rec != nil && c.Res.K != "overflow" {
			want := c.Ev
			if rec.only != nil {
				want = nil
				for _, e := range c.Ev {
					if rec.only[e.F] {
						want = append(want, e)
					}
				}
			}
			// calls into an instance that was already closed: wazero still runs them, but the compiled module has been
			// removed from the engine's address index, so the stack iterator has nothing to resolve; chains not compared
			closedBefore := k > 0 && b.Hist[k-1].Closed["M"]+b.Hist[k-1].Closed["A"] != 0
			if mode == "recompile-same-subset" {
				// the recorder must get every event; which are missing is a symptom of ONE cause, reported under one key
				if len(rec.events) != len(want) {
					res.AddFail(fmt.Sprintf("engine=%s;compile(bin,F1);compile(bin,F2);same-subset#events-to-F1", engine),
						fmt.Sprintf("%s: second compilation of the same binary with another listener factory (same listened functions): the new factory's listeners saw %d of %d events", engine, len(rec.events), len(want)))
				}
			} else {
				// mark returns the counter: its After event carries the same implementation-defined offset as its result
				for i := range rec.events {
					if e := &rec.events[i]; e.E == "after" && e.F == "mark" {
						e.V -= delta["M"]
					}
				}
				compareEvents(fail, want, rec.events, rec.only != nil || closedBefore)
			}
		}
		if !res.OK {
			return res
		}
		prev = c.Top.Fn + ";"
	}
	return res
}

func compareEvents(fail func(what, msg string), want, got []event, subset bool) {
	nb, na := 0, 0
	for _, e := range got {
		if e.E == "before" {
			nb++
		} else {
			na++
		}
	}
	wb_, wa := 0, 0
	for _, e := range want {
		if e.E == "before" {
			wb_++
		} else {
			wa++
		}
	}
	if nb == wb_ && na == 30 && wa > 30 {
		// known: both engines notify Abort for at most wasmdebug.MaxFrames (30) frames while unwinding
		fail("KEY:abort-events-capped-at-30-frames", fmt.Sprintf("trap under %d listened frames: %d before events but only %d abort events", wb_, nb, na))
		return
	}
	if nb != wb_ || na != wa {
		fail(fmt.Sprintf("events:before=%d/%d,closing=%d/%d", nb, wb_, na, wa),
			fmt.Sprintf("listeners saw %d before and %d after/abort events, the model says %d and %d", nb, na, wb_, wa))
		return
	}
	for i := range want {
		w, g := want[i], got[i]
		if w.E != g.E || w.F != g.F {
			fail("events:order", fmt.Sprintf("event %d is %s(%s), the model says %s(%s)", i, g.E, g.F, w.E, w.F))
			return
		}
		if w.E != "abort" && w.V != g.V {
			fail("events:value:"+w.E, fmt.Sprintf("event %d %s(%s) carries %d, the model says %d", i, g.E, g.F, g.V, w.V))
			return
		}
		if w.E == "before" && !subset {
			if len(w.Chain) > len(g.Chain) && len(g.Chain) >= 29 && len(g.Chain) <= 30 && strings.Join(w.Chain[:len(g.Chain)], ",") == strings.Join(g.Chain, ",") {
				fail("KEY:stack-iterator-capped-at-30-frames", fmt.Sprintf("before(%s) at depth %d: the stack iterator lists only %d frames", g.F, len(w.Chain), len(g.Chain)))
				return
			}
			if strings.Join(w.Chain, ",") != strings.Join(g.Chain, ",") {
				fail("events:stack", fmt.Sprintf("event %d before(%s): stack iterator lists %v, the model says %v", i, g.F, g.Chain, w.Chain))
				return
			}
		}
	}
}

func runOne(mode string) func(id int, raw json.RawMessage) common.Result {
	return func(id int, raw json.RawMessage) common.Result {
		var b behaviour
		if err := json.Unmarshal(raw, &b); err != nil {
			r := common.Result{ID: id}
			r.AddFail("infra", err.Error())
			return r
		}
		res := common.Result{ID: id, OK: true}
		for _, c := range b.Hist {
			for _, n := range c.Top.Script {
				if n.T == "cbrec" { // every level of this recursion is a Go frame: a smaller Go stack limit reaches the end sooner
					debug.SetMaxStack(96 << 20)
				}
			}
		}
		modes := []string{"plain"}
		if mode == "plain" && id%2 == 1 {
			modes = append(modes, "plain-ctxdone")
		}
		if mode == "listen" {
			modes = []string{"listen", "subset"}
			if id%8 == 0 {
				modes = append(modes, "recompile-same-subset", "recompile-low-differs", "recompile-high-differs")
			}
		}
		for _, engine := range []string{"interpreter", "compiler"} {
			for mi, md := range modes {
				r := replay(id, &b, engine, md, b.Same || (id+mi)%2 == 0)
				for _, f := range r.Fails {
					res.AddFail(f.Key, f.Msg)
				}
			}
		}
		return res
	}
}

// Child entry points and supervised mains.
func ChildPlain(args []string)  { common.ChildLoop(runOne("plain")) }
func ChildListen(args []string) { common.ChildLoop(runOne("listen")) }

func main_(child string, args []string) {
	lines, err := common.ReadLines(common.Arg(args, "-in", ""))
	if err != nil {
		common.Fatalf("read: %v", err)
	}
	results := common.SuperviseRetry(child, nil, lines, 180*time.Second, 12)
	for i := range results {
		r := &results[i]
		if !r.OK && (r.Key == "crash" || r.Key == "hang") {
			var b behaviour
			_ = json.Unmarshal(lines[i], &b)
			d, rec := "", false
			for _, c := range b.Hist {
				d += c.Top.Fn + ";"
				for _, n := range c.Top.Script {
					rec = rec || n.T == "cbrec"
				}
			}
			if rec { // one cause, one key
				d = "guest-host-guest-recursion-without-bound"
			}
			msg := r.Msg
			k := r.Key
			*r = common.Result{ID: r.ID}
			r.AddFail("process-"+k+";"+d, "history "+d+": "+msg)
		}
		common.Emit(*r)
	}
	common.Flush()
}

func MainPlain(args []string)  { main_("calls-child", args) }
func MainListen(args []string) { main_("calls-listen-child", args) }
