// Package registry binds spec/Registry.tla to the real runtime (C10):
//   - replay-registry: sequential histories enumerated by TLC, replayed through the public API;
//   - trace-registry: concurrent executions recorded through hooks H1 for validation by TLC;
//   - gate-registry: deterministic schedules (model counterexamples) enforced with blocking hooks.
package registry

import (
	"bytes"
	"context"
	"encoding/json"
	"errors"
	"fmt"
	"io/fs"
	"math/rand"
	"os"
	"runtime"
	"strconv"
	"strings"
	"sync"
	"sync/atomic"
	"time"

	"github.com/tetratelabs/wazero"
	"github.com/tetratelabs/wazero/api"
	"github.com/tetratelabs/wazero/experimental"
	experimentalsys "github.com/tetratelabs/wazero/experimental/sys"
	"github.com/tetratelabs/wazero/experimental/sysfs"
	"github.com/tetratelabs/wazero/internal/wasm"
	"github.com/tetratelabs/wazero/sys"
	"github.com/tetratelabs/wazero/verifharness/common"
	"github.com/tetratelabs/wazero/verifharness/wb"
)

var emptyWasm = []byte{0, 'a', 's', 'm', 1, 0, 0, 0}

// memWasm has one memory of one page, so that instantiation allocates through the experimental allocator.
var memWasm = []byte{0, 'a', 's', 'm', 1, 0, 0, 0, 5, 3, 1, 0, 1}

// startExitWasm imports xenv.boom and calls it from its exported _start; mem: with a one-page memory.
func startExitWasm(mem bool) []byte {
	m := wb.New()
	boom := m.ImportFunc("xenv", "boom", nil, nil)
	if mem {
		one := uint32(1)
		m.Memory(1, &one, "")
	}
	m.AddFunc(wb.Func{Body: wb.Call(boom), Export: "_start"})
	return m.Build()
}

// addBoom instantiates the host module whose function ends the caller's _start with an exit error, closing nothing.
func addBoom(ctx context.Context, rt wazero.Runtime) error {
	_, err := rt.NewHostModuleBuilder("xenv").NewFunctionBuilder().WithFunc(func() { panic(sys.NewExitError(3)) }).Export("boom").Instantiate(ctx)
	return err
}

// ------------------------------------------------------------------------------------ replay

type hrec struct {
	Op   string `json:"op"`
	Name string `json:"name"`
	Want bool   `json:"want"`
	// Start: "exit" = the module's exported _start calls a host function that panics with an exit error without closing anything
	Start string `json:"start"`
	Res   string `json:"res"`
	M     int    `json:"m"`
}

type snap struct {
	Owner  map[string]int `json:"owner"`
	Closed []bool         `json:"closed"`
	Fired  []int          `json:"fired"`
	Res    []int          `json:"res"`
	Rt     bool           `json:"rt"`
}

type behaviour struct {
	Hist  []hrec `json:"hist"`
	Snaps []snap `json:"snaps"`
}

type counter struct{ n int }

// resources of one instantiation: a counting memory allocator and a file system whose one file fails to close.
type resources struct {
	allocs, frees, fileCloses int
	failClose                 bool
}

type countMem struct {
	r   *resources
	buf []byte
}

func (m *countMem) Reallocate(size uint64) []byte {
	if uint64(cap(m.buf)) < size {
		nb := make([]byte, size, size*2)
		copy(nb, m.buf)
		m.buf = nb
	}
	m.buf = m.buf[:size]
	return m.buf
}
func (m *countMem) Free() { m.r.frees++ }

func (r *resources) Allocate(cap, max uint64) experimental.LinearMemory {
	r.allocs++
	return &countMem{r: r, buf: make([]byte, 0, cap)}
}

type resFS struct {
	experimentalsys.UnimplementedFS
	r *resources
}

type resFile struct {
	experimentalsys.UnimplementedFile
	r *resources
}

func (f resFS) OpenFile(path string, flag experimentalsys.Oflag, perm fs.FileMode) (experimentalsys.File, experimentalsys.Errno) {
	return &resFile{r: f.r}, 0
}

func (f *resFile) Close() experimentalsys.Errno {
	f.r.fileCloses++
	if f.r.failClose {
		return experimentalsys.EIO
	}
	return 0
}

func (c *counter) CloseNotify(context.Context, uint32) { c.n++ }

func classify(err error) string {
	if err == nil {
		return "ok"
	}
	var ee *sys.ExitError
	if errors.As(err, &ee) {
		return "exit"
	}
	s := err.Error()
	switch {
	case bytes.Contains([]byte(s), []byte("has already been instantiated")):
		return "dup"
	}
	// every other error is of the class "refused because the runtime is closed / closing"; whether an
	// error was legitimate at that point is decided by the specification, not here
	return "closed"
}

func protect(f func() string) (res string) {
	defer func() {
		if r := recover(); r != nil {
			res = fmt.Sprintf("panic:%v", r)
		}
	}()
	return f()
}

func replayOne(id int, b *behaviour, engine string) common.Result {
	res := common.Result{ID: id, OK: true}
	ctx := context.Background()
	cfg := wazero.NewRuntimeConfigInterpreter()
	if engine == "compiler" {
		cfg = wazero.NewRuntimeConfigCompiler()
	}
	rt := wazero.NewRuntimeWithConfig(ctx, cfg)
	defer rt.Close(ctx)
	compiled, err := rt.CompileModule(ctx, memWasm)
	if err != nil {
		res.AddFail("infra", err.Error())
		return res
	}
	if err := addBoom(ctx, rt); err != nil {
		res.AddFail("infra", err.Error())
		return res
	}
	compiledExit, err := rt.CompileModule(ctx, startExitWasm(true))
	if err != nil {
		res.AddFail("infra", err.Error())
		return res
	}
	mods := map[int]api.Module{}
	fired := map[int]*counter{}
	held := map[int]*resources{} // by model id, failed instantiations included
	var rtCloseErr string
	keyOps := ""
	for k, h := range b.Hist {
		got := ""
		switch h.Op {
		case "inst":
			c := &counter{}
			ictx := ctx
			if h.Want {
				ictx = experimental.WithCloseNotifier(ctx, c)
			}
			var mod api.Module
			// every other instantiation gets a file whose Close fails: closing must release the rest all the same
			rs := &resources{failClose: k%2 == 0}
			ictx = experimental.WithMemoryAllocator(ictx, rs)
			mc := wazero.NewModuleConfig().WithName(h.Name).WithFSConfig(wazero.NewFSConfig().(sysfs.FSConfig).WithSysFSMount(resFS{r: rs}, "/"))
			code := compiled
			if h.Start == "exit" {
				code = compiledExit
			}
			got = protect(func() string {
				var err error
				mod, err = rt.InstantiateModule(ictx, code, mc)
				return classify(err)
			})
			if h.M > 0 {
				held[h.M] = rs
			}
			if got == "ok" && h.Res == "ok" {
				mods[h.M] = mod
				fired[h.M] = c
				if mi, ok := mod.(*wasm.ModuleInstance); ok && mi.Sys != nil {
					if _, errno := mi.Sys.FS().OpenFile(resFS{r: rs}, "f", 0, 0); errno != 0 {
						res.AddFail("infra", "open on the counting file system: "+errno.Error())
						return res
					}
				}
			}
			keyOps += fmt.Sprintf("inst(%s);", h.Name)
		case "close":
			keyOps += "close;"
			mod := mods[h.M]
			if mod == nil {
				res.AddFail("infra:close-unknown", "history closes a module the driver does not hold")
				return res
			}
			wasClosed := mod.IsClosed()
			got = protect(func() string {
				// the error of the failing file is reported by the Close that released the resources; it is still a close
				if err := mod.Close(ctx); err != nil && !(held[h.M] != nil && held[h.M].failClose && !wasClosed && strings.Contains(err.Error(), "input/output error")) {
					return "err:" + err.Error()
				}
				if wasClosed {
					return "noop"
				}
				return "closed"
			})
		case "lookup":
			keyOps += fmt.Sprintf("lookup(%s);", h.Name)
			m := rt.Module(h.Name)
			got, h.Res = "0", strconv.Itoa(h.M)
			for id, mm := range mods {
				if m != nil && sameModule(m, mm) {
					got = strconv.Itoa(id)
				}
			}
			if m != nil && got == "0" {
				got = "unknown-module"
			}
		case "rtclose":
			keyOps += "rtclose;"
			// the result of the CAS is not observable through the API: Close returns nil either way
			got = protect(func() string {
				if err := rt.Close(ctx); err != nil {
					rtCloseErr = err.Error()
					for _, line := range strings.Split(rtCloseErr, "\n") {
						if !strings.Contains(line, "input/output error") {
							return "err:" + err.Error()
						}
					}
				}
				return h.Res
			})
		case "compile":
			keyOps += "compile;"
			got = protect(func() string {
				_, err := rt.CompileModule(ctx, emptyWasm)
				return classify(err)
			})
		case "hostcompile":
			keyOps += "hostcompile;"
			got = protect(func() string {
				_, err := rt.NewHostModuleBuilder("env").NewFunctionBuilder().
					WithFunc(func() {}).Export("f").Compile(ctx)
				return classify(err)
			})
		}
		if got != h.Res {
			res.Step = k + 1
			res.AddFail(fmt.Sprintf("%s#result:%s-expected:%s", keyOps, trunc(got), h.Res),
				fmt.Sprintf("step %d %s(%s): real result %q, the registry model says %q", k+1, h.Op, h.Name, got, h.Res))
			return res
		}
		// post-state = snapshot taken when the next operation begins (or the final one)
		st := b.Snaps[k+1]
		for name, want := range st.Owner {
			m := rt.Module(name)
			g := 0
			for id, mm := range mods {
				if m != nil && sameModule(m, mm) {
					g = id
				}
			}
			if m != nil && g == 0 {
				g = -1
			}
			if g != want {
				res.Step = k + 1
				res.AddFail(fmt.Sprintf("%s#lookup(%s)", keyOps, name),
					fmt.Sprintf("after step %d Runtime.Module(%q) is module %d, the model says %d", k+1, name, g, want))
			}
		}
		for id, mm := range mods {
			if id-1 < len(st.Closed) && mm.IsClosed() != st.Closed[id-1] {
				res.Step = k + 1
				res.AddFail(fmt.Sprintf("%s#isclosed", keyOps),
					fmt.Sprintf("after step %d module %d IsClosed()=%v, the model says %v", k+1, id, mm.IsClosed(), st.Closed[id-1]))
			}
			if id-1 < len(st.Fired) && fired[id].n != st.Fired[id-1] {
				res.Step = k + 1
				res.AddFail(fmt.Sprintf("%s#notified", keyOps),
					fmt.Sprintf("after step %d module %d close notifications=%d, the model says %d", k+1, id, fired[id].n, st.Fired[id-1]))
			}
		}
		// resources: released exactly when the model says so, all of them, also when a file fails to close
		for id, rs := range held {
			if id-1 >= len(st.Res) {
				continue
			}
			want := st.Res[id-1]
			if rs.allocs > 0 && rs.frees != want*rs.allocs {
				res.Step = k + 1
				res.AddFail(fmt.Sprintf("%s#memory-freed;failing-file=%v", keyOps, rs.failClose),
					fmt.Sprintf("after step %d module %d: linear memory freed %d times of %d allocations, the model says resources released %d times (a file of this instance fails to close: %v)", k+1, id, rs.frees, rs.allocs, want, rs.failClose))
			}
			if _, open := mods[id]; open && rs.fileCloses != want {
				res.Step = k + 1
				res.AddFail(fmt.Sprintf("%s#file-closed;failing-file=%v", keyOps, rs.failClose),
					fmt.Sprintf("after step %d module %d: its open file was closed %d times, the model says resources released %d times", k+1, id, rs.fileCloses, want))
			}
		}
		if !res.OK {
			return res
		}
	}
	return res
}

func trunc(s string) string {
	if len(s) > 60 {
		return s[:60]
	}
	return s
}

func sameModule(a, b api.Module) bool {
	return fmt.Sprintf("%p", unwrap(a)) == fmt.Sprintf("%p", unwrap(b))
}

func unwrap(m api.Module) interface{} {
	if im, ok := m.(interface{ Unwrap() interface{} }); ok {
		return im.Unwrap()
	}
	return m
}

// Replay is `driver replay-registry -in file`.
func Replay(args []string) {
	lines, err := common.ReadLines(common.Arg(args, "-in", ""))
	if err != nil {
		common.Fatalf("read: %v", err)
	}
	for id, l := range lines {
		var b behaviour
		if err := json.Unmarshal(l, &b); err != nil {
			common.Fatalf("behaviour %d: %v", id, err)
		}
		engine := "interpreter"
		if id%4 == 3 {
			engine = "compiler"
		}
		common.Emit(replayOne(id, &b, engine))
	}
	common.Flush()
}

// ------------------------------------------------------------------------------------ tracing

type tracer struct {
	mu     sync.Mutex
	out    *bytes.Buffer
	gids   map[int64]string
	modIDs map[*wasm.ModuleInstance]int
	nmods  int
	gate   func(ev string, m *wasm.ModuleInstance) // called outside mu for point events
	drop   string                                  // event kind to drop (binding demonstration)
	jitter uint64
}

func goid() int64 {
	var buf [64]byte
	n := runtime.Stack(buf[:], false)
	// "goroutine 123 ["
	s := buf[len("goroutine "):n]
	i := bytes.IndexByte(s, ' ')
	id, _ := strconv.ParseInt(string(s[:i]), 10, 64)
	return id
}

func (tr *tracer) thread() string {
	if t, ok := tr.gids[goid()]; ok {
		return t
	}
	return "?"
}

func (tr *tracer) line(m map[string]interface{}) {
	if tr.drop != "" && m["ev"] == tr.drop {
		return
	}
	b, _ := json.Marshal(m)
	tr.out.Write(b)
	tr.out.WriteByte('\n')
}

func (tr *tracer) hook(e wasm.VerifEvent) {
	if len(e.Ev) > 6 && e.Ev[:6] == "point:" {
		if tr.gate != nil {
			tr.gate(e.Ev[6:], e.Mod)
		}
		return
	}
	// widen the windows between the unlogged lock-free steps and the logged ones (before the event is ordered)
	if n := atomic.AddUint64(&tr.jitter, 0x9e3779b97f4a7c15); (n>>33)%4 == 0 {
		time.Sleep(time.Duration((n>>40)%80) * time.Microsecond)
	}
	tr.mu.Lock()
	defer tr.mu.Unlock()
	t := tr.thread()
	if t == "?" {
		return // not one of the driver's goroutines (e.g. finalizers)
	}
	id := func(m *wasm.ModuleInstance) int {
		if m == nil {
			return 0
		}
		return tr.modIDs[m]
	}
	switch e.Ev {
	case "register":
		tr.nmods++
		tr.modIDs[e.Mod] = tr.nmods
		tr.line(map[string]interface{}{"ev": "register", "t": t, "m": tr.nmods, "name": e.Name, "res": e.Res})
	case "unlist":
		tr.line(map[string]interface{}{"ev": "unlist", "t": t, "m": id(e.Mod), "owner": id(e.Owner)})
	case "lookup":
		if e.Name == "xenv" {
			return // import resolution of the failing-start module, not an operation of the registry under test
		}
		tr.line(map[string]interface{}{"ev": "lookup", "t": t, "name": e.Name, "m": id(e.Mod)})
	case "storeclose":
		tr.line(map[string]interface{}{"ev": "storeclose", "t": t})
	case "res":
		if e.Mod != nil && tr.modIDs[e.Mod] == 0 {
			return // a module the driver's threads did not create (the host module of the failing start functions)
		}
		tr.line(map[string]interface{}{"ev": "res", "t": t, "m": id(e.Mod), "fired": e.Notifier})
	}
}

func (tr *tracer) begin(t string, op string, name string, want bool, m int) {
	tr.mu.Lock()
	tr.line(map[string]interface{}{"ev": "begin", "t": t, "op": op, "name": name, "want": want, "m": m})
	tr.mu.Unlock()
}

func (tr *tracer) beginInst(t, name string, want bool, start string) {
	tr.mu.Lock()
	tr.line(map[string]interface{}{"ev": "begin", "t": t, "op": "inst", "name": name, "want": want, "m": 0, "start": start})
	tr.mu.Unlock()
}

func (tr *tracer) end(t string, op string, res string, m int) {
	tr.mu.Lock()
	tr.line(map[string]interface{}{"ev": "end", "t": t, "op": op, "res": res, "m": m})
	tr.mu.Unlock()
}

func (tr *tracer) idOf(m api.Module) int {
	tr.mu.Lock()
	defer tr.mu.Unlock()
	if mi, ok := m.(*wasm.ModuleInstance); ok {
		return tr.modIDs[mi]
	}
	return 0
}

// one concurrent run: nthreads goroutines, nops operations each.
func (tr *tracer) run(rng *rand.Rand, nthreads, nops int, engine string) {
	ctx := context.Background()
	cfg := wazero.NewRuntimeConfigInterpreter()
	if engine == "compiler" {
		cfg = wazero.NewRuntimeConfigCompiler()
	}
	rt := wazero.NewRuntimeWithConfig(ctx, cfg)
	compiled, err := rt.CompileModule(ctx, emptyWasm)
	if err != nil {
		common.Fatalf("compile: %v", err)
	}
	if err := addBoom(ctx, rt); err != nil {
		common.Fatalf("host module: %v", err)
	}
	compiledExit, err := rt.CompileModule(ctx, startExitWasm(false))
	if err != nil {
		common.Fatalf("compile: %v", err)
	}
	names := []string{"a", "b", "c", ""}
	nn := 2 + rng.Intn(3)
	var poolMu sync.Mutex
	var pool []api.Module
	tr.gids = map[int64]string{}
	tr.modIDs = map[*wasm.ModuleInstance]int{}
	tr.nmods = 0
	var wg sync.WaitGroup
	start := make(chan struct{})
	for g := 0; g < nthreads; g++ {
		t := fmt.Sprintf("g%d", g+1)
		seed := rng.Int63()
		wg.Add(1)
		go func() {
			defer wg.Done()
			tr.mu.Lock()
			tr.gids[goid()] = t
			tr.mu.Unlock()
			r := rand.New(rand.NewSource(seed))
			<-start
			for k := 0; k < nops; k++ {
				x := r.Intn(100)
				switch {
				case x < 40:
					name := names[r.Intn(nn)]
					if nn == 4 && r.Intn(2) == 0 {
						name = ""
					}
					want := r.Intn(2) == 0
					ictx := ctx
					if want {
						ictx = experimental.WithCloseNotifier(ctx, &counter{})
					}
					code, start := compiled, "none"
					if r.Intn(4) == 0 {
						code, start = compiledExit, "exit"
					}
					tr.beginInst(t, name, want, start)
					var mod api.Module
					res := protect(func() string {
						var err error
						mod, err = rt.InstantiateModule(ictx, code, wazero.NewModuleConfig().WithName(name))
						return classify(err)
					})
					mid := 0
					if res == "ok" {
						mid = tr.idOf(mod)
						poolMu.Lock()
						pool = append(pool, mod)
						poolMu.Unlock()
					}
					tr.end(t, "inst", res, mid)
				case x < 70:
					poolMu.Lock()
					var mod api.Module
					if len(pool) > 0 {
						mod = pool[r.Intn(len(pool))]
					}
					poolMu.Unlock()
					if mod == nil {
						continue
					}
					mid := tr.idOf(mod)
					wasClosed := mod.IsClosed()
					_ = wasClosed
					tr.begin(t, "close", "", false, mid)
					res := protect(func() string {
						if err := mod.Close(ctx); err != nil {
							return "err:" + err.Error()
						}
						return ""
					})
					// whether this call won the CAS is visible to the driver only through the hooks; the
					// end event carries the model's vocabulary, derived from whether it unlisted anything
					tr.endClose(t, mid, res)
				case x < 90:
					name := names[r.Intn(3)]
					tr.begin(t, "lookup", name, false, 0)
					m := rt.Module(name)
					mid := 0
					if m != nil {
						mid = tr.idOf(m)
					}
					tr.end(t, "lookup", "", mid)
				case x < 92:
					tr.begin(t, "rtclose", "", false, 0)
					res := protect(func() string {
						if err := rt.Close(ctx); err != nil {
							return "err:" + err.Error()
						}
						return ""
					})
					tr.endRt(t, res)
				case x < 97:
					tr.begin(t, "compile", "", false, 0)
					res := protect(func() string {
						_, err := rt.CompileModule(ctx, emptyWasm)
						return classify(err)
					})
					tr.end(t, "compile", res, 0)
				default:
					tr.begin(t, "hostcompile", "", false, 0)
					res := protect(func() string {
						_, err := rt.NewHostModuleBuilder("env").NewFunctionBuilder().WithFunc(func() {}).Export("f").Compile(ctx)
						return classify(err)
					})
					tr.end(t, "hostcompile", res, 0)
				}
			}
		}()
	}
	close(start)
	wg.Wait()
	_ = rt.Close(ctx)
}

// endClose derives "closed"/"noop" from the trace itself: the thread's close won the CAS iff it
// emitted an unlist event since its begin.
func (tr *tracer) endClose(t string, mid int, res string) {
	tr.mu.Lock()
	defer tr.mu.Unlock()
	if res == "" {
		res = "noop"
		// scan back to this thread's begin
		lines := bytes.Split(bytes.TrimSpace(tr.out.Bytes()), []byte("\n"))
		for i := len(lines) - 1; i >= 0; i-- {
			var m map[string]interface{}
			_ = json.Unmarshal(lines[i], &m)
			if m["t"] != t {
				continue
			}
			if m["ev"] == "begin" {
				break
			}
			if m["ev"] == "unlist" {
				res = "closed"
				break
			}
		}
	}
	tr.line(map[string]interface{}{"ev": "end", "t": t, "op": "close", "res": res, "m": mid})
}

func (tr *tracer) endRt(t string, res string) {
	tr.mu.Lock()
	defer tr.mu.Unlock()
	if res == "" {
		res = "noop"
		lines := bytes.Split(bytes.TrimSpace(tr.out.Bytes()), []byte("\n"))
		for i := len(lines) - 1; i >= 0; i-- {
			var m map[string]interface{}
			_ = json.Unmarshal(lines[i], &m)
			if m["t"] != t {
				continue
			}
			if m["ev"] == "begin" {
				break
			}
			if m["ev"] == "storeclose" {
				res = "closed"
				break
			}
		}
	}
	tr.line(map[string]interface{}{"ev": "end", "t": t, "op": "rtclose", "res": res, "m": 0})
}

// Trace is `driver trace-registry -runs N -threads K -ops M -out file [-drop ev]`.
func Trace(args []string) {
	runs, _ := strconv.Atoi(common.Arg(args, "-runs", "50"))
	threads, _ := strconv.Atoi(common.Arg(args, "-threads", "3"))
	nops, _ := strconv.Atoi(common.Arg(args, "-ops", "6"))
	outPath := common.Arg(args, "-out", "trace.ndjson")
	rng := rand.New(rand.NewSource(common.Seed()))
	var all bytes.Buffer
	nev := 0
	// the hook variable is written once; which tracer receives the events is switched atomically (a goroutine of the
	// runtime that outlives a run must not race with the next run's set-up)
	var cur atomic.Pointer[tracer]
	wasm.VerifTracer = func(e wasm.VerifEvent) {
		if t := cur.Load(); t != nil {
			t.hook(e)
		}
	}
	for r := 0; r < runs; r++ {
		tr := &tracer{out: &bytes.Buffer{}, drop: common.Arg(args, "-drop", "")}
		cur.Store(tr)
		engine := "interpreter"
		if r%4 == 3 {
			engine = "compiler"
		}
		th := threads
		if th > 2 && r%3 == 0 {
			th = 2
		}
		tr.run(rng, th, nops, engine)
		cur.Store(nil)
		if r > 0 {
			all.WriteString(`{"ev":"reset"}` + "\n")
			nev++
		}
		nev += bytes.Count(tr.out.Bytes(), []byte("\n"))
		all.Write(tr.out.Bytes())
	}
	if err := os.WriteFile(outPath, all.Bytes(), 0o644); err != nil {
		common.Fatalf("write: %v", err)
	}
	common.Emit(map[string]interface{}{"runs": runs, "events": nev})
	common.Flush()
}

// ------------------------------------------------------------------------------------ gates

// Gate reproduces the model's schedule "runtime closes between Register and Attach":
//
//	g1: InstantiateModule(name a, with close notifier) ... blocked at point "registered"
//	g2: Runtime.Close
//	g1: released
//
// Prints a Result; failing key "inst||rtclose@registered#notified".
func Gate(args []string) {
	res := common.Result{ID: 0, OK: true}
	for _, engine := range []string{"interpreter", "compiler"} {
		ctx := context.Background()
		cfg := wazero.NewRuntimeConfigInterpreter()
		if engine == "compiler" {
			cfg = wazero.NewRuntimeConfigCompiler()
		}
		rt := wazero.NewRuntimeWithConfig(ctx, cfg)
		compiled, err := rt.CompileModule(ctx, emptyWasm)
		if err != nil {
			common.Fatalf("compile: %v", err)
		}
		reached := make(chan struct{})
		release := make(chan struct{})
		var once sync.Once
		wasm.VerifTracer = func(e wasm.VerifEvent) {
			if e.Ev == "point:registered" {
				once.Do(func() {
					close(reached)
					<-release
				})
			}
		}
		c := &counter{}
		done := make(chan error, 1)
		var mod api.Module
		go func() {
			var err error
			mod, err = rt.InstantiateModule(experimental.WithCloseNotifier(ctx, c), compiled, wazero.NewModuleConfig().WithName("a"))
			done <- err
		}()
		select {
		case <-reached:
		case <-time.After(10 * time.Second):
			common.Fatalf("gate not reached")
		}
		_ = rt.Close(ctx)
		close(release)
		ierr := <-done
		wasm.VerifTracer = nil
		// outcomes allowed by the registry model: the instantiation fails, or it succeeds with a module
		// that is closed and whose notifier fired exactly once
		if ierr == nil {
			if !mod.IsClosed() {
				res.AddFail("inst||rtclose@registered#open-after-rtclose",
					engine+": module instantiated concurrently with Runtime.Close is still open after both returned")
			}
			if c.n != 1 {
				res.AddFail("inst||rtclose@registered#notified",
					fmt.Sprintf("%s: Runtime.Close ran between registration and notifier attachment: module closed, close notifications=%d (exactly one expected)", engine, c.n))
			}
		}
	}
	common.Emit(res)
	common.Flush()
}
