SPECIFICATION Spec
CONSTANTS
  Depth = 4
  Roots <- RootsMc
  Methods <- MethodsEnv
INVARIANTS EnvKeysUnique MountsUnique
PROPERTIES Frozen
VIEW NodesView
CHECK_DEADLOCK FALSE
