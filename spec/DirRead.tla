------------------------------ MODULE DirRead ------------------------------
(***************************************************************************)
(* fd_readdir (C16): reading a directory with any buffer sizes and the     *)
(* cookies returned so far yields ".", ".." and every entry exactly once;  *)
(* an entry that does not fit is reported truncated (bufused = buf_len),   *)
(* never skipped.  Directory order is the host's: the trace's opendir      *)
(* event carries the order established by a first complete pass; the       *)
(* specification checks that it is a permutation of the expected names and *)
(* that EVERY recorded call (first pass included) returns exactly the      *)
(* slice of that order the reference semantics prescribes.                 *)
(***************************************************************************)
EXTENDS Integers, Sequences, FiniteSets, TLC, Json, IOUtils

Trace == ndJsonDeserialize("trace.ndjson")

VARIABLES order, l
vars == <<order, l>>

Line == Trace[l]
IsEvent(e) == l <= Len(Trace) /\ Line.ev = e /\ l' = l + 1

Size(e) == 24 + e.len
RECURSIVE Sum(_)
Sum(s) == IF s = <<>> THEN 0 ELSE Size(Head(s)) + Sum(Tail(s))
RECURSIVE Fit(_, _)
Fit(s, room) == IF s = <<>> \/ Size(Head(s)) > room THEN <<>> ELSE <<Head(s)>> \o Fit(Tail(s), room - Size(Head(s)))

(* reference semantics of fd_readdir(buf, cookie) on a directory with the given order *)
Expected(buf, cookie) ==
  LET rest == SubSeq(order, cookie + 1, Len(order))
      fit == Fit(rest, buf) IN
  [names |-> [i \in 1..Len(fit) |-> fit[i].n],
   nexts |-> [i \in 1..Len(fit) |-> cookie + i],
   used  |-> IF Len(fit) = Len(rest) THEN Sum(fit) ELSE buf]

NamesOf(s) == {s[i].n : i \in 1..Len(s)}

Init == order = <<>> /\ l = 1

OpenDir == /\ IsEvent("opendir")
           /\ order' = Line.order
           \* exactly once: ".", ".." and every created entry, no duplicates
           /\ Len(Line.order) = Cardinality(NamesOf(Line.order))
           /\ NamesOf(Line.order) = {".", ".."} \cup {Line.expect[i] : i \in 1..Len(Line.expect)}
           /\ Line.order[1].n = "." /\ Line.order[2].n = ".."

ReadDir == /\ IsEvent("readdir")
           /\ Line.cookie \in 0..Len(order)
           /\ LET e == Expected(Line.buf, Line.cookie) IN
              /\ e.names = Line.names
              /\ e.nexts = Line.nexts
              /\ e.used = Line.used
           /\ UNCHANGED order

Reset == IsEvent("reset") /\ order' = <<>>

Next == OpenDir \/ ReadDir \/ Reset
Spec == Init /\ [][Next]_vars

ASSUME TLCSet(1, 0)
HighWater == TLCSet(1, IF l > TLCGet(1) THEN l ELSE TLCGet(1))
Post == PrintT(<<"HIGHWATER", TLCGet(1), Len(Trace)>>) /\ TLCGet(1) = Len(Trace) + 1
=============================================================================
