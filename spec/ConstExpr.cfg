SPECIFICATION Spec
INVARIANTS NonVacuous Emit
CHECK_DEADLOCK FALSE
