----------------------------- MODULE Lifecycle -----------------------------
(***************************************************************************)
(* Closing and collecting modules (C09).                                   *)
(*                                                                         *)
(* Instances: A defines and exports a table T and functions; B imports T   *)
(* and also has a private table; D is unrelated to A (no imports) and has  *)
(* a private table.  Function references travel between instances through *)
(* T (table.set by the owner of the function) and through the HOST, which  *)
(* receives a funcref from one instance (getref) and hands it to another   *)
(* instance that stores it in its private table - as a plain integer the   *)
(* garbage collector cannot see.                                           *)
(*                                                                         *)
(* KeepsAlive edges are those the implementation creates:                  *)
(*   runtime -> every OPEN instance; host -> instances it references;      *)
(*   importer -> table T; A -> T; T -> every instance that ever exported   *)
(*   or imported it.   NOT an edge: a table slot -> the function's owner.  *)
(* GC unmaps the code of every closed instance that is unreachable.        *)
(* SafeCall: the target of every call made by an open instance is mapped.  *)
(* With Demanded = TRUE a slot holding a reference keeps the owner alive   *)
(* (what the property needs); with FALSE the edges are as coded.           *)
(***************************************************************************)
EXTENDS Integers, Sequences, FiniteSets, TLC, Json

CONSTANTS MaxSteps, Demanded, Acts

VARIABLES status,     \* [inst -> "none" | "open" | "closed"]
          href,       \* [inst -> BOOLEAN] the host still references the instance (and its compiled module)
          cclosed,    \* [inst -> BOOLEAN] its CompiledModule handle was closed
          shared,     \* table T: slot -> owner of the referenced function, or "-"
          priv,       \* [inst -> slot -> owner or "-"]  private tables of B and D
          mapped,     \* [inst -> BOOLEAN] the instance's code is still mapped
          unsafe,     \* some call reached unmapped code
          hist, fin

vars == <<status, href, cclosed, shared, priv, mapped, unsafe, hist, fin>>

Insts == {"A", "B", "C", "D", "E"}    \* E imports nothing of A but its funcref GLOBAL (a reference to A's function)
Slots == {0, 1}
Importers == {"B", "C"}       \* C is a second importer of T (same module shape as B)
InvolvesT(i) == i = "A" \/ (i \in Importers /\ status[i] # "none")

(* reachability from the roots *)
Roots == {i \in Insts : status[i] = "open" \/ href[i]}
RefOwners(t) == {t[s] : s \in Slots} \ {"-"}
RECURSIVE Reach(_)
Reach(S) ==
  LET viaT == IF \E i \in S : InvolvesT(i) THEN {i \in Insts : InvolvesT(i)} ELSE {}
      viaSlots == IF Demanded
                  THEN UNION {RefOwners(priv[i]) : i \in S \cap {"B", "D"}} \cup (IF \E i \in S : InvolvesT(i) THEN RefOwners(shared) ELSE {})
                  ELSE {}
      viaG == IF "E" \in S /\ status["E"] # "none" THEN {"A"} ELSE {}      \* an imported global keeps its exporter alive
      N == S \cup viaT \cup viaSlots \cup viaG IN
  IF N = S THEN S ELSE Reach(N)
Reachable == Reach(Roots)

Init == /\ status = [i \in Insts |-> IF i = "A" THEN "open" ELSE "none"]
        /\ href = [i \in Insts |-> i = "A"]
        /\ cclosed = [i \in Insts |-> FALSE]
        /\ shared = [s \in Slots |-> "-"]
        /\ priv = [i \in {"B", "D"} |-> [s \in Slots |-> "-"]]
        /\ mapped = [i \in Insts |-> TRUE]
        /\ unsafe = FALSE
        /\ hist = <<>> /\ fin = FALSE

Rec(a, r) == hist' = Append(hist, [a |-> a, res |-> r]) /\ unsafe' = (unsafe \/ r = "UNSAFE")

Do(a) ==
  CASE a.k = "inst"   -> /\ status[a.i] = "none" /\ a.i # "A" /\ (a.i \in Importers \cup {"E"} => status["A"] = "open")
                         /\ ~cclosed[a.i]             \* not after the compilation cache was closed (it may fail then; not modelled)
                         /\ status' = [status EXCEPT ![a.i] = "open"] /\ href' = [href EXCEPT ![a.i] = TRUE]
                         /\ Rec(a, "ok") /\ UNCHANGED <<cclosed, shared, priv, mapped>>
    [] a.k = "tset"   -> \* instance a.i (A or B) stores ITS function in the shared table
                         /\ a.i \in {"A", "B", "C"} /\ status[a.i] = "open"
                         /\ shared' = [shared EXCEPT ![a.s] = a.i] /\ Rec(a, "ok")
                         /\ UNCHANGED <<status, href, cclosed, priv, mapped>>
    [] a.k = "pset"   -> \* the host takes a funcref of a.j and hands it to a.i, which stores it in its private table
                         /\ a.i \in {"B", "D"} /\ status[a.i] = "open" /\ status[a.j] = "open" /\ href[a.j]
                         /\ priv' = [priv EXCEPT ![a.i][a.s] = a.j] /\ Rec(a, "ok")
                         /\ UNCHANGED <<status, href, cclosed, shared, mapped>>
    [] a.k = "close"  -> /\ status[a.i] = "open"
                         /\ status' = [status EXCEPT ![a.i] = "closed"] /\ Rec(a, "ok")
                         /\ UNCHANGED <<href, cclosed, shared, priv, mapped>>
    [] a.k = "closec" -> \* CompiledModule.Close while instances may live: documented as safe
                         /\ status[a.i] # "none" /\ ~cclosed[a.i] /\ href[a.i]
                         /\ cclosed' = [cclosed EXCEPT ![a.i] = TRUE] /\ Rec(a, "ok")
                         /\ UNCHANGED <<status, href, shared, priv, mapped>>
    [] a.k = "cacheclose" -> \* CompilationCache.Close while the runtime that uses it and its instances are alive: the engine's
                         \* compiled modules are all released, as if every CompiledModule had been closed
                         /\ \E i \in Insts : ~cclosed[i]
                         /\ cclosed' = [i \in Insts |-> TRUE] /\ Rec(a, "ok")
                         /\ UNCHANGED <<status, href, shared, priv, mapped>>
    [] a.k = "drop"   -> /\ href[a.i] /\ status[a.i] = "closed"
                         /\ href' = [href EXCEPT ![a.i] = FALSE] /\ Rec(a, "ok")
                         /\ UNCHANGED <<status, cclosed, shared, priv, mapped>>
    [] a.k = "gc"     -> /\ mapped' = [i \in Insts |-> mapped[i] /\ ~(status[i] = "closed" /\ i \notin Reachable)]
                         /\ Rec(a, "ok") /\ UNCHANGED <<status, href, cclosed, shared, priv>>
    [] a.k = "call"   -> \* open instance a.i calls through its view of the shared table / its private table; it also reads the
                         \* memory it sees - A's memory, which B and C import: closing an importer releases nothing of A's
                         /\ status[a.i] = "open" /\ (a.t = "shared" => InvolvesT(a.i)) /\ (a.t = "priv" => a.i \in {"B", "D"})
                         /\ (a.t = "global" <=> a.i = "E")
                         /\ LET target == IF a.t = "shared" THEN shared[a.s] ELSE IF a.t = "global" THEN "A" ELSE priv[a.i][a.s] IN
                            Rec(a, IF target = "-" THEN "trap" ELSE IF mapped[target] THEN target ELSE "UNSAFE")
                         /\ UNCHANGED <<status, href, cclosed, shared, priv, mapped>>

Step == ~fin /\ Len(hist) < MaxSteps /\ (\E a \in Acts : Do(a)) /\ UNCHANGED fin
Finish == ~fin /\ Len(hist) > 0 /\ fin' = TRUE /\ UNCHANGED <<status, href, cclosed, shared, priv, mapped, unsafe, hist>>
Next == Step \/ Finish
Spec == Init /\ [][Next]_vars

SafeCall == ~unsafe
(* only histories that end in a call after some close are worth replaying *)
Interesting == fin /\ Len(hist) > 0 /\ hist[Len(hist)].a.k = "call" /\ \E k \in 1..Len(hist) : hist[k].a.k \in {"close", "closec", "cacheclose"}
Emit == Interesting => PrintT(<<"EMIT", ToJson([hist |-> hist])>>)
EmitUnsafe == (fin /\ unsafe /\ hist[Len(hist)].a.k = "call") => PrintT(<<"EMIT", ToJson([hist |-> hist])>>)
(* histories in which a live instance calls a function of an instance that was closed, whose compiled module was
   closed, that the host dropped, and a collection happened after all that *)
Pos(k, i) == IF \E n \in 1..Len(hist) : hist[n].a.k = k /\ hist[n].a.i = i
             THEN CHOOSE n \in 1..Len(hist) : hist[n].a.k = k /\ hist[n].a.i = i ELSE 0
EmitGone == (fin /\ Len(hist) > 0 /\ hist[Len(hist)].a.k = "call" /\ hist[Len(hist)].res \in {"B", "C", "A"} /\
             LET t == hist[Len(hist)].res IN
             /\ status[t] = "closed" /\ cclosed[t] /\ ~href[t]
             /\ \E n \in 1..Len(hist) : hist[n].a.k = "gc" /\ n > Pos("drop", t) /\ n > Pos("closec", t))
            => PrintT(<<"EMIT", ToJson([hist |-> hist])>>)
DesignView == <<status, href, cclosed, shared, priv, mapped, unsafe, Len(hist), fin>>

A(k, i, j, s, t) == [k |-> k, i |-> i, j |-> j, s |-> s, t |-> t]
AllActs == {A("inst", i, "", 0, "") : i \in {"B", "D"}} \cup
           {A("tset", i, "", s, "") : i \in {"A", "B"}, s \in Slots} \cup
           {A("pset", i, j, 0, "") : i \in {"B", "D"}, j \in Insts} \cup
           {A("close", i, "", 0, "") : i \in Insts} \cup {A("closec", i, "", 0, "") : i \in Insts} \cup
           {A("drop", i, "", 0, "") : i \in Insts} \cup {A("gc", "", "", 0, "")} \cup
           {A("call", i, "", s, "shared") : i \in {"A", "B"}, s \in Slots} \cup {A("call", i, "", 0, "priv") : i \in {"B", "D"}}
(* focused family: a reference left in the shared table by an importer that is closed and dropped, then ANOTHER
   importer arrives, then collection, then a live instance calls through the slot *)
FocusActs == {A("inst", "B", "", 0, ""), A("inst", "C", "", 0, ""), A("tset", "B", "", 0, ""), A("close", "B", "", 0, ""),
              A("closec", "B", "", 0, ""), A("drop", "B", "", 0, ""), A("gc", "", "", 0, ""), A("call", "A", "", 0, "shared"), A("call", "C", "", 0, "shared")}
(* E holds a reference to A's function only through the funcref global it imports; A is closed, compile-closed, dropped
   and collected; E keeps calling through the global *)
GlobalActs == {A("inst", "E", "", 0, ""), A("close", "A", "", 0, ""), A("closec", "A", "", 0, ""), A("drop", "A", "", 0, ""),
               A("gc", "", "", 0, ""), A("call", "E", "", 0, "global")}
EmitGlobal == (fin /\ Len(hist) > 2 /\ hist[Len(hist)].a.k = "call" /\ status["A"] = "closed") => PrintT(<<"EMIT", ToJson([hist |-> hist])>>)
(* the compilation cache is closed under live instances; then collection; then every live instance keeps calling *)
CacheActs == {A("inst", "B", "", 0, ""), A("tset", "B", "", 0, ""), A("tset", "A", "", 1, ""), A("pset", "B", "A", 0, ""),
              A("cacheclose", "", "", 0, ""), A("gc", "", "", 0, ""), A("close", "B", "", 0, ""),
              A("call", "A", "", 0, "shared"), A("call", "B", "", 1, "shared"), A("call", "B", "", 0, "priv"), A("call", "A", "", 1, "shared")}
EmitCache == (fin /\ Len(hist) > 1 /\ hist[Len(hist)].a.k = "call" /\ \E k \in 1..Len(hist) : hist[k].a.k = "cacheclose")
             => PrintT(<<"EMIT", ToJson([hist |-> hist])>>)
=============================================================================
