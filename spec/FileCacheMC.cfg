SPECIFICATION Spec
CONSTANTS
  Writers <- W3
  KeyOf <- K3
  N = 3
  MaxCrashes = 2
  PreStale <- StaleK1
INVARIANTS FinalIsComplete NoRejectEver TempNamesDistinct FinalHasRightKey
VIEW DesignView
CHECK_DEADLOCK FALSE
