--------------------------- MODULE RegistryTrace ---------------------------
(***************************************************************************)
(* Trace validation for Registry.tla: is the recorded execution of the     *)
(* real runtime (hooks H1 + driver-side begin/end events) a behaviour of   *)
(* the registry specification?  Lock-free steps (the closed-flag reads and *)
(* the CAS steps) are not logged; TLC places them ("silent" actions).      *)
(***************************************************************************)
EXTENDS Registry, IOUtils

Trace == ndJsonDeserialize("trace.ndjson")

VARIABLE l      \* next trace line to consume

tvars == <<vars, l>>

Line == Trace[l]
IsEvent(e) == l <= Len(Trace) /\ Line.ev = e /\ l' = l + 1

TInit == Init /\ l = 1

TBegin ==
  /\ IsEvent("begin")
  /\ LET t == Line.t IN
     /\ pc[t].op = "idle"
     /\ pc' = [pc EXCEPT ![t] =
          CASE Line.op = "inst"    -> [op |-> "inst", stage |-> "check", name |-> Line.name, want |-> Line.want,
                                       m |-> 0, err |-> "", start |-> Line.start]
            [] Line.op = "close"   -> [op |-> "close", stage |-> "cas", m |-> Line.m]
            [] Line.op = "lookup"  -> [op |-> "lookup", stage |-> "lock", name |-> Line.name]
            [] Line.op = "rtclose" -> [op |-> "rtclose", stage |-> "cas", cur |-> 0]
            [] OTHER               -> [op |-> Line.op, stage |-> "check"]]
     /\ (Line.op = "close" => Line.m \in ModIds)
  /\ UNCHANGED <<rtClosed, storeClosed, owner, listed, lock, mods, ops, hist, snaps, last>>

TRegister ==
  /\ IsEvent("register")
  /\ LET t == Line.t IN
     /\ pc[t].op = "inst" /\ pc[t].stage = "register"
     /\ Line.name = pc[t].name
     /\ Line.res = RegisterOutcome(pc[t].name)
     /\ Line.m = Len(mods) + 1
     /\ Register(t)

TUnlist ==
  /\ IsEvent("unlist")
  /\ LET t == Line.t  m == Line.m  n == mods[m].name IN
     /\ pc[t].op \in {"close", "inst"} /\ pc[t].m = m
     /\ (Unlist(t) \/ FailUnlist(t))
     /\ Line.owner = IF n = "" \/ storeClosed THEN 0 ELSE owner'[n]

TLookup ==
  /\ IsEvent("lookup")
  /\ LET t == Line.t IN
     /\ pc[t].op = "lookup" /\ pc[t].name = Line.name
     /\ Line.m = LookupResult(Line.name)
     /\ Lookup(t)

TRes ==
  /\ IsEvent("res")
  /\ LET t == Line.t  m == Line.m IN
     /\ m \in ModIds
     /\ Line.fired = (mods[m].notifier = "set")
     /\ \/ pc[t].op = "close" /\ pc[t].m = m /\ CloseRes(t)
        \/ pc[t].op = "inst" /\ pc[t].m = m /\ FailRes(t)
        \/ pc[t].op = "rtclose" /\ StoreCloseMod(t, m)

TStoreClose ==
  /\ IsEvent("storeclose")
  /\ StoreCloseDone(Line.t)

TEnd ==
  /\ IsEvent("end")
  /\ LET t == Line.t  r == last[t] IN
     /\ pc[t].op = "idle" /\ r.op = Line.op
     /\ (Line.op \in {"inst", "close", "rtclose", "compile", "hostcompile"} => r.res = Line.res)
     /\ (Line.op \in {"inst", "lookup"} => r.m = Line.m)
  /\ UNCHANGED vars

TReset ==
  /\ IsEvent("reset")
  /\ rtClosed' = FALSE /\ storeClosed' = FALSE /\ owner' = [n \in Named |-> 0]
  /\ listed' = {} /\ lock' = "none" /\ mods' = <<>>
  /\ pc' = [t \in Threads |-> Idle] /\ ops' = [t \in Threads |-> 0]
  /\ hist' = <<>> /\ snaps' = <<>> /\ last' = [t \in Threads |-> [op |-> "none"]]

(* unlogged lock-free steps; they consume no trace line *)
Silent(t) == \/ InstCheck(t) \/ FailCAS(t) \/ Attach(t) \/ CloseCAS(t) \/ RtCAS(t) \/ StoreLock(t) \/ Compile(t) \/ CompileAdd(t)
             \/ InstEngineClosed(t) \/ (\E m \in listed : StoreCloseCAS(t, m))

TNext == \/ TBegin \/ TRegister \/ TUnlist \/ TLookup \/ TRes \/ TStoreClose \/ TEnd \/ TReset
         \/ (\E t \in Threads : Silent(t) /\ UNCHANGED l)

TraceSpec == TInit /\ [][TNext]_tvars

(* acceptance: high-water mark of consumed lines (silent steps make the diameter useless) *)
ASSUME TLCSet(1, 0)
HighWater == TLCSet(1, IF l > TLCGet(1) THEN l ELSE TLCGet(1))
TraceAccepted == TLCGet(1) = Len(Trace) + 1
PrintHigh == PrintT(<<"HIGHWATER", TLCGet(1), Len(Trace)>>)
Post == PrintHigh /\ TraceAccepted

TThreads == {"g1", "g2", "g3", "g4", "g5", "g6"}
TNames == {"a", "b", "c", ""}
TOps == {"inst", "close", "lookup", "rtclose", "compile", "hostcompile"}
StartsBoth == {"none", "exit"}
=============================================================================
