------------------------------ MODULE MemoryMC ------------------------------
EXTENDS Memory
(* scale 1 (1 unit = 1 page): limits far below 4 GiB plus the default limit *)
Mins1 == {0, 1, 2}
Maxs1 == {-1, 0, 1, 2, 3, 65536, 65537}
Limits1 == {0, 1, 2, 3, 65536}
(* scale 16384 (4 units = 4 GiB) *)
Mins4 == {0, 1, 3, 4}
Maxs4 == {-1, 1, 3, 4, 5}
Limits4 == {0, 1, 3, 4}

Bases == {"zero", "last", "size", "top"}
GrowOps == [op : {"ggrow", "hgrow", "xgrow"}, d : {0, 1, 2, -1, -2, -3}]
SizeOps == [op : {"gsize", "hsize", "xsize"}]
PutOps  == [op : {"gput", "hput", "gget", "hget"}, base : {"zero", "last", "size"}]
EdgeOps == [op : {"gedge", "hedge"}, base : {"size", "top"}, delta : {-8, -4, -1, 0}, len : {0, 1, 2, 4, 8}] \cup
           [op : {"gedge", "hedge"}, base : {"zero", "last"}, delta : {0}, len : {1, 8}]
ViewOps == {[op |-> "happend"]}
AllOps == GrowOps \cup SizeOps \cup PutOps \cup EdgeOps \cup ViewOps
CoreOps == [op : {"ggrow", "hgrow", "xgrow"}, d : {1, -1, -2}] \cup SizeOps \cup
           [op : {"gput", "hput", "gget", "hget"}, base : {"last"}] \cup ViewOps
=============================================================================
