------------------------------- MODULE LinkMC -------------------------------
EXTENDS Link
Base == [mem |-> <<1, -1>>, tab |-> <<4, -1>>, tabtype |-> "funcref", gtype |-> "i32", gmut |-> TRUE, incsig |-> "",
         kmut |-> FALSE, data |-> <<>>, elem |-> <<>>, start |-> ""]
(* one dimension varied at a time from the compatible base declaration *)
MemDecls  == {[Base EXCEPT !.mem = <<mn, mx>>] : mn \in {0, 1, 2, 3}, mx \in {-1, 2, 4, 8}}
TabDecls  == {[Base EXCEPT !.tab = <<mn, mx>>, !.tabtype = ty] : mn \in {0, 4, 5, 6}, mx \in {-1, 6, 8, 16}, ty \in {"funcref", "externref"}}
GlobDecls == {[Base EXCEPT !.gtype = ty, !.gmut = mu] : ty \in {"i32", "i64"}, mu \in BOOLEAN}
FuncDecls == {[Base EXCEPT !.incsig = "i32"], [Base EXCEPT !.kmut = TRUE]}
OOB == 300000
DataDecls == {[Base EXCEPT !.data = d] : d \in {<<[off |-> -1, bytes |-> <<66, 66>>]>>,
                                               <<[off |-> 16, bytes |-> <<88, 89>>], [off |-> OOB, bytes |-> <<90>>]>>,
                                               <<[off |-> OOB, bytes |-> <<90>>], [off |-> 16, bytes |-> <<88, 89>>]>>,
                                               <<[off |-> 7, bytes |-> <<70, 71>>]>>}}
ElemDecls == {[Base EXCEPT !.elem = e] : e \in {<<[off |-> 1, fns |-> <<1>>]>>,
                                               <<[off |-> 0, fns |-> <<2, 1>>], [off |-> 100, fns |-> <<1>>]>>,
                                               <<[off |-> 3, fns |-> <<1, 2>>]>>}}
StartDecls == {[Base EXCEPT !.start = s] : s \in {"ok", "trap", "gset"}} \cup
              {[Base EXCEPT !.start = "trap", !.data = <<[off |-> 16, bytes |-> <<88, 89>>]>>, !.elem = <<[off |-> 1, fns |-> <<1>>]>>]}
AllDecls == MemDecls \cup TabDecls \cup GlobDecls \cup FuncDecls \cup DataDecls \cup ElemDecls \cup StartDecls
SomeDecls == {Base} \cup FuncDecls \cup DataDecls \cup ElemDecls \cup StartDecls \cup
             {[Base EXCEPT !.mem = <<2, 4>>], [Base EXCEPT !.tab = <<5, 8>>]}

Op(o, x, y) == [op |-> o, x |-> x, y |-> y]
AOps == {Op("gset", 3, 0), Op("gget", 0, 0), Op("st", 0, 11), Op("st", 8, 22), Op("ld", 7, 0), Op("ld", 16, 0), Op("msize", 0, 0),
         Op("mgrow", 1, 0), Op("tset", 0, 1), Op("tset", 5, 2), Op("tnull", 1, 0), Op("tisnull", 1, 0), Op("tcall", 0, 0),
         Op("tcall", 1, 0), Op("trcall", 1, 0), Op("trcall", 0, 0), Op("tset", 1, 3), Op("tset", 2, 3), Op("tcall", 2, 0), Op("tsize", 0, 0), Op("tgrow", 1, 0), Op("tgrow", 3, 0), Op("callinc", 0, 0)}
BOps == AOps \cup {Op("kget", 0, 0), Op("gset", 5, 0), Op("galias", 6, 0), Op("tset", 1, 2), Op("tcall", 3, 0), Op("ld", 5, 0), Op("ld", 0, 0), Op("ld", 8, 0)}
(* focused family: two consumers from ONE compiled module, function references travelling through the shared table *)
BaseOnly == {Base}
FocusA == {Op("tcall", 1, 0), Op("trcall", 1, 0)}
FocusB == {Op("tset", 1, 1), Op("tset", 1, 3), Op("tcall", 1, 0), Op("trcall", 1, 0)}
AMemsAll == {<<1, -1>>, <<1, 2>>, <<2, 4>>}
ATabMaxAll == {-1, 8}
HValsAll == {5, 7}
AMemsQ == {<<1, 2>>, <<2, 4>>}
ATabMaxQ == {8}
HValsQ == {5}
=============================================================================
