SPECIFICATION Spec
CONSTANTS
  MaxSteps = 3
  MaxB = 1
  Decls <- AllDecls
  OpsA <- AOps
  OpsB <- BOps
  AMems <- AMemsAll
  ATabMax <- ATabMaxAll
  HVals <- HValsAll
INVARIANTS SizeOK AliveOnlyIfCompatible
VIEW DesignView
CHECK_DEADLOCK FALSE
