SPECIFICATION Spec
CONSTANTS
  TopU = 4
  MaxOps = 3
  Mins <- Mins4
  Maxs <- Maxs4
  Limits <- Limits4
  Ops <- AllOps
INVARIANTS SizeWithinBounds ZeroFill
PROPERTIES GrowMonotone ContentsPreserved
VIEW DesignView
CHECK_DEADLOCK FALSE
