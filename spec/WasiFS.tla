------------------------------- MODULE WasiFS -------------------------------
(***************************************************************************)
(* A POSIX-style reference model of WASI file operations on one mounted    *)
(* directory (C16, C17): names, inodes (so that open-then-unlinked or      *)
(* renamed files keep working), descriptors allocated lowest-free, file    *)
(* offsets, append mode, truncation.                                       *)
(*                                                                         *)
(* Every operation yields <<result, outputs, state'>>.  Where POSIX/WASI   *)
(* leave the error number open the result is a SET of allowed errnos.      *)
(* ReadOnly = TRUE models a read-only mount: every mutating operation      *)
(* must fail (any errno) and the tree never changes.                       *)
(***************************************************************************)
EXTENDS Integers, Sequences, FiniteSets, TLC, Json

CONSTANTS MaxSteps, Ops, ReadOnly, InitNames

VARIABLES names,      \* name -> 0 (absent) | -1 (directory) | inode id
          inodes,     \* sequence of contents (sequences of bytes)
          fds,        \* fd -> [ino (-1 dir), name, off, app, rd, wr] ; DOMAIN fds = open descriptors
          hist, fin

vars == <<names, inodes, fds, hist, fin>>

Names == {"a", "b", "d"}
Preopen == 3
FirstFd == 4
MaxFd == 9

Init == /\ names = InitNames.names
        /\ inodes = InitNames.inodes
        /\ fds = <<>>                       \* as a function with empty domain
        /\ hist = <<>> /\ fin = FALSE

IsOpen(fd) == fd \in DOMAIN fds
LowestFree == CHOOSE f \in FirstFd..MaxFd + 1 : f \notin DOMAIN fds /\ \A x \in FirstFd..f - 1 : x \in DOMAIN fds
PutFd(f, e) == [x \in DOMAIN fds \cup {f} |-> IF x = f THEN e ELSE fds[x]]
DropFd(f) == [x \in DOMAIN fds \ {f} |-> fds[x]]

Min(x, y) == IF x < y THEN x ELSE y
Zeros(n) == [i \in 1..n |-> 0]
(* write bytes at offset (extending with zeros when beyond the end) *)
WriteAt(c, off, bytes) ==
  LET c1 == IF off > Len(c) THEN c \o Zeros(off - Len(c)) ELSE c
      n == Len(bytes)
      newLen == IF off + n > Len(c1) THEN off + n ELSE Len(c1) IN
  [i \in 1..newLen |-> IF i > off /\ i <= off + n THEN bytes[i - off] ELSE c1[i]]
Resize(c, n) == IF n <= Len(c) THEN SubSeq(c, 1, n) ELSE c \o Zeros(n - Len(c))

Snapshot(nm, ino, fd) ==
  [tree |-> [n \in Names |-> IF nm[n] = 0 THEN "absent" ELSE IF nm[n] = -1 THEN "dir" ELSE "file"],
   content |-> [n \in Names |-> IF nm[n] > 0 THEN ino[nm[n]] ELSE <<>>],
   fds |-> [f \in FirstFd..MaxFd |-> IF f \in DOMAIN fd THEN (IF fd[f].ino = -1 THEN "dir" ELSE "file") ELSE "closed"],
   offs |-> [f \in FirstFd..MaxFd |-> IF f \in DOMAIN fd /\ fd[f].ino # -1 THEN fd[f].off ELSE 0]]

(* record: errs = set of allowed errnos ({"ok"} on success); out = outputs *)
Rec(o, errs, out, nm, ino, fd) ==
  hist' = Append(hist, [op |-> o, errs |-> errs, out |-> out, st |-> Snapshot(nm, ino, fd)])

Same(o, errs, out) == /\ UNCHANGED <<names, inodes, fds>> /\ Rec(o, errs, out, names, inodes, fds)
Upd(o, out, nm, ino, fd) == /\ names' = nm /\ inodes' = ino /\ fds' = fd /\ Rec(o, {"ok"}, out, nm, ino, fd)

RO == {"EROFS", "ENOSYS", "EBADF", "EPERM", "EACCES", "EISDIR", "EINVAL", "ENOTSUP"}   \* read-only mount: some errno

-----------------------------------------------------------------------------
PathOpen(o) ==
  LET n == o.name  cur == names[n]
      creat == "C" \in o.of  excl == "X" \in o.of  trunc == "T" \in o.of  dirf == "D" \in o.of
      \* access mode: from the rights (read / write bits); without either, read-only unless O_CREAT, O_TRUNC or APPEND
      wr == o.rt \in {"w", "rw"} \/ (o.rt = "" /\ (creat \/ trunc \/ o.ap))
      rd == o.rt \in {"r", "rw", ""}
      f == LowestFree IN
  IF f > MaxFd THEN Same(o, {"skip"}, <<>>)
  ELSE IF ReadOnly /\ (wr \/ creat \/ trunc) /\ cur # -1
       THEN Same(o, RO \cup (IF cur = 0 THEN {"ENOENT"} ELSE {}), <<>>)
  ELSE IF cur = 0
       THEN IF creat /\ ~dirf
            THEN LET ino == Len(inodes) + 1 IN
                 Upd(o, <<f>>, [names EXCEPT ![n] = ino], Append(inodes, <<>>),
                     PutFd(f, [ino |-> ino, nm |-> n, off |-> 0, app |-> o.ap, rd |-> rd, wr |-> wr]))
            ELSE IF creat /\ dirf THEN Same(o, {"EINVAL", "ENOENT"}, <<>>)
            ELSE Same(o, {"ENOENT"}, <<>>)
  ELSE IF cur = -1
       THEN IF creat /\ excl THEN Same(o, {"EEXIST"}, <<>>)
            ELSE IF wr \/ trunc \/ creat THEN Same(o, {"EISDIR"}, <<>>)     \* Linux: O_CREAT on an existing directory is EISDIR
            ELSE Upd(o, <<f>>, names, inodes, PutFd(f, [ino |-> -1, nm |-> n, off |-> 0, app |-> FALSE, rd |-> TRUE, wr |-> FALSE]))
  ELSE \* regular file
       IF creat /\ excl THEN Same(o, {"EEXIST"}, <<>>)
       ELSE IF dirf THEN Same(o, {"ENOTDIR"}, <<>>)
       ELSE LET ino2 == IF trunc /\ wr THEN [inodes EXCEPT ![cur] = <<>>] ELSE inodes IN
            IF trunc /\ ~wr THEN Same(o, {"skip"}, <<>>)     \* O_TRUNC without write access: unspecified by POSIX
            ELSE Upd(o, <<f>>, names, ino2, PutFd(f, [ino |-> cur, nm |-> n, off |-> 0, app |-> o.ap, rd |-> rd, wr |-> wr]))

Close(o) ==
  IF o.fd = Preopen THEN Same(o, {"skip"}, <<>>)
  ELSE IF ~IsOpen(o.fd) THEN Same(o, {"EBADF"}, <<>>)
  ELSE Upd(o, <<>>, names, inodes, DropFd(o.fd))

Renumber(o) ==      \* fd_renumber(from = o.fd, to = o.n)
  LET from == o.fd  to == o.n IN
  IF from = Preopen \/ to = Preopen \/ to \in 0..2 THEN Same(o, {"ENOTSUP", "EBADF"}, <<>>)       \* refused: NOTHING changes, the source stays open
  ELSE IF ~IsOpen(from) THEN Same(o, {"EBADF"}, <<>>)
  ELSE IF from = to THEN Same(o, {"ok"}, <<>>)                        \* onto itself: a no-op
  ELSE Upd(o, <<>>, names, inodes, [x \in (DOMAIN fds \ {from}) \cup {to} |-> IF x = to THEN fds[from] ELSE fds[x]])

Write(o) ==         \* fd_write / fd_pwrite(o.off) of o.data
  IF ~IsOpen(o.fd) THEN Same(o, {"EBADF"}, <<>>)
  ELSE LET e == fds[o.fd] IN
       IF e.ino = -1 THEN Same(o, {"EBADF", "EISDIR"}, <<>>)
       ELSE IF ~e.wr THEN Same(o, {"EBADF"} \cup (IF ReadOnly THEN RO ELSE {}) \cup
                                  (IF o.op = "pwrite" /\ e.app THEN {"EIO"} ELSE {}), <<>>)   \* not writable: EBADF (wazero: EIO for pwrite+append)
       ELSE IF o.op = "pwrite" /\ e.app THEN Same(o, {"skip"}, <<>>)   \* pwrite on an O_APPEND descriptor: Linux appends, POSIX does not
       ELSE LET c == inodes[e.ino]
                at == IF o.op = "pwrite" THEN o.off ELSE IF e.app THEN Len(c) ELSE e.off
                c2 == WriteAt(c, at, o.data)
                off2 == IF o.op = "pwrite" THEN e.off ELSE at + Len(o.data) IN
            Upd(o, <<Len(o.data)>>, names, [inodes EXCEPT ![e.ino] = c2], [fds EXCEPT ![o.fd].off = off2])

Read(o) ==          \* fd_read / fd_pread(o.off) of up to o.n bytes
  IF ~IsOpen(o.fd) THEN Same(o, {"EBADF"}, <<>>)
  ELSE LET e == fds[o.fd] IN
       IF e.ino = -1 THEN Same(o, {"EBADF", "EISDIR"}, <<>>)
       ELSE IF ~e.rd THEN Same(o, {"EBADF"}, <<>>)
       ELSE LET c == inodes[e.ino]
                at == IF o.op = "pread" THEN o.off ELSE e.off
                k == IF at >= Len(c) THEN 0 ELSE Min(o.n, Len(c) - at)
                bytes == SubSeq(c, at + 1, at + k) IN
            /\ UNCHANGED <<names, inodes>>
            /\ fds' = IF o.op = "pread" THEN fds ELSE [fds EXCEPT ![o.fd].off = at + k]
            /\ Rec(o, {"ok"}, bytes, names, inodes, fds')

Seek(o) ==          \* fd_seek(fd, o.off, whence o.n: 0 set, 1 cur, 2 end); fd_tell = seek(0, cur)
  IF ~IsOpen(o.fd) THEN Same(o, {"EBADF"}, <<>>)
  ELSE LET e == fds[o.fd] IN
       IF e.ino = -1 THEN Same(o, {"skip"}, <<>>)
       ELSE IF o.n > 2 THEN Same(o, {"EINVAL"}, <<>>)       \* whence is one of three values, whatever its low bits say
       ELSE LET base == IF o.n = 0 THEN 0 ELSE IF o.n = 1 THEN e.off ELSE Len(inodes[e.ino])
                new == base + o.off IN
            IF new < 0 THEN Same(o, {"EINVAL"}, <<>>)
            ELSE Upd(o, <<new>>, names, inodes, [fds EXCEPT ![o.fd].off = new])

SetSize(o) ==       \* fd_filestat_set_size(fd, o.n)
  IF ~IsOpen(o.fd) THEN Same(o, {"EBADF"}, <<>>)
  ELSE LET e == fds[o.fd] IN
       IF e.ino = -1 THEN Same(o, {"EBADF", "EISDIR", "EINVAL"}, <<>>)
       ELSE IF ~e.wr THEN Same(o, {"EBADF", "EINVAL"} \cup (IF ReadOnly THEN RO ELSE {}), <<>>)
       ELSE Upd(o, <<>>, names, [inodes EXCEPT ![e.ino] = Resize(@, o.n)], fds)

FdSize(o) ==        \* fd_filestat_get -> size
  IF ~IsOpen(o.fd) THEN Same(o, {"EBADF"}, <<>>)
  ELSE LET e == fds[o.fd] IN Same(o, {"ok"}, IF e.ino = -1 THEN <<"dir">> ELSE <<Len(inodes[e.ino])>>)

PathSize(o) ==      \* path_filestat_get
  LET cur == names[o.name] IN
  IF cur = 0 THEN Same(o, {"ENOENT"}, <<>>)
  ELSE Same(o, {"ok"}, IF cur = -1 THEN <<"dir">> ELSE <<Len(inodes[cur])>>)

Unlink(o) ==
  LET cur == names[o.name] IN
  IF ReadOnly THEN Same(o, RO \cup (IF cur = 0 THEN {"ENOENT"} ELSE {}), <<>>)
  ELSE IF cur = 0 THEN Same(o, {"ENOENT"}, <<>>)
  ELSE IF cur = -1 THEN Same(o, {"EISDIR", "EPERM"}, <<>>)
  ELSE Upd(o, <<>>, [names EXCEPT ![o.name] = 0], inodes, fds)

Rename(o) ==        \* path_rename(o.name -> o.name2)
  LET src == names[o.name]  dst == names[o.name2] IN
  IF ReadOnly THEN Same(o, RO \cup (IF src = 0 THEN {"ENOENT"} ELSE {}), <<>>)
  ELSE IF src = 0 THEN Same(o, IF o.name = o.name2 THEN {"ENOENT", "ok"} ELSE {"ENOENT"}, <<>>)   \* x -> x on a missing x: wazero short-cuts to success
  ELSE IF o.name = o.name2 THEN Same(o, {"ok"}, <<>>)
  ELSE IF src > 0 /\ dst = -1 THEN Same(o, {"EISDIR"}, <<>>)
  ELSE IF src = -1 /\ dst > 0 THEN Same(o, {"ENOTDIR"}, <<>>)
  ELSE Upd(o, <<>>, [names EXCEPT ![o.name] = 0, ![o.name2] = src], inodes, fds)

MkDir(o) ==
  LET cur == names[o.name] IN
  IF ReadOnly THEN Same(o, RO \cup (IF cur # 0 THEN {"EEXIST"} ELSE {}), <<>>)
  ELSE IF cur # 0 THEN Same(o, {"EEXIST"}, <<>>)
  ELSE Upd(o, <<>>, [names EXCEPT ![o.name] = -1], inodes, fds)

RmDir(o) ==
  LET cur == names[o.name] IN
  IF ReadOnly THEN Same(o, RO \cup (IF cur = 0 THEN {"ENOENT"} ELSE IF cur > 0 THEN {"ENOTDIR"} ELSE {}), <<>>)
  ELSE IF cur = 0 THEN Same(o, {"ENOENT"}, <<>>)
  ELSE IF cur > 0 THEN Same(o, {"ENOTDIR"}, <<>>)
  ELSE Upd(o, <<>>, [names EXCEPT ![o.name] = 0], inodes, fds)

SetTimes(o) ==      \* fd_filestat_set_times(fd, now) / path_filestat_set_times(name, now): timestamps are not modelled
  IF o.op = "settimes"
  THEN IF ~IsOpen(o.fd) THEN Same(o, {"EBADF"}, <<>>) ELSE Same(o, {"ok", "EBADF", "EPERM", "ENOSYS", "EINVAL", "EROFS"}, <<>>)
  ELSE IF names[o.name] = 0 THEN Same(o, {"ENOENT"} \cup (IF ReadOnly THEN RO ELSE {}), <<>>)
       ELSE Same(o, {"ok", "EPERM", "ENOSYS", "EINVAL", "EROFS"} \cup (IF names[o.name] = -1 THEN {"EISDIR"} ELSE {}), <<>>)

SetAppend(o) ==     \* fd_fdstat_set_flags(fd, APPEND)
  IF ~IsOpen(o.fd) THEN Same(o, {"EBADF"}, <<>>)
  ELSE IF fds[o.fd].ino = -1 THEN Same(o, {"skip"}, <<>>)
  ELSE IF ReadOnly THEN Same(o, {"skip"}, <<>>)
  \* wazero re-opens the file by the path it was opened with: unspecified once that name no longer leads to the file
  ELSE IF names[fds[o.fd].nm] # fds[o.fd].ino THEN Same(o, {"skip"}, <<>>)
  ELSE Upd(o, <<>>, names, inodes, [fds EXCEPT ![o.fd].app = TRUE])

Do(o) == CASE o.op = "open"     -> PathOpen(o)
           [] o.op \in {"settimes", "pathtimes"} -> SetTimes(o)
           [] o.op = "setappend" -> SetAppend(o)
           [] o.op = "close"    -> Close(o)
           [] o.op = "renumber" -> Renumber(o)
           [] o.op \in {"write", "pwrite"} -> Write(o)
           [] o.op \in {"read", "pread"}   -> Read(o)
           [] o.op = "seek"     -> Seek(o)
           [] o.op = "setsize"  -> SetSize(o)
           [] o.op = "fdsize"   -> FdSize(o)
           [] o.op = "pathsize" -> PathSize(o)
           [] o.op = "unlink"   -> Unlink(o)
           [] o.op = "rename"   -> Rename(o)
           [] o.op = "mkdir"    -> MkDir(o)
           [] o.op = "rmdir"    -> RmDir(o)

Step == ~fin /\ Len(hist) < MaxSteps /\ (\E o \in Ops : Do(o)) /\ UNCHANGED fin
Finish == ~fin /\ Len(hist) > 0 /\ fin' = TRUE /\ UNCHANGED <<names, inodes, fds, hist>>
Next == Step \/ Finish
Spec == Init /\ [][Next]_vars

-----------------------------------------------------------------------------
(* design invariants *)
FdsValid == \A f \in DOMAIN fds : f >= FirstFd /\ (fds[f].ino = -1 \/ fds[f].ino \in 1..Len(inodes)) /\ fds[f].off >= 0
NamesValid == \A n \in Names : names[n] \in {0, -1} \cup 1..Len(inodes)
(* a successful open always returns the lowest free descriptor *)
LowestFreeAlloc == \A k \in 1..Len(hist) : (hist[k].op.op = "open" /\ hist[k].errs = {"ok"}) =>
                     LET f == hist[k].out[1] IN
                     \A x \in FirstFd..f - 1 : k > 1 => hist[k - 1].st.fds[x] # "closed"
(* read-only mounts never change *)
TreeFrozen == [][ReadOnly => (names' = names /\ inodes' = inodes)]_vars

Emit == fin => PrintT(<<"EMIT", ToJson([hist |-> hist])>>)
DesignView == <<names, inodes, fds, Len(hist), fin>>
=============================================================================
