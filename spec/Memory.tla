------------------------------- MODULE Memory -------------------------------
(***************************************************************************)
(* Linear memory: declaration limits, growth and the host/guest views of   *)
(* its size and contents (C14).                                            *)
(*                                                                         *)
(* Sizes are in UNITS; the driver replays every behaviour under several    *)
(* scale maps unit -> pages (1 unit = 1 page, ..., 1 unit = 16384 pages so *)
(* that 4 units are the 4 GiB limit).  TopU is the number of units in      *)
(* 2^32 bytes under the scale map in use.  A byte address is a pair        *)
(* <<unit, delta>> meaning unit*UnitBytes + delta with a small delta       *)
(* (possibly negative): TLC's 32-bit integers never see a byte count.      *)
(***************************************************************************)
EXTENDS Integers, Sequences, FiniteSets, TLC, Json

CONSTANTS TopU,          \* units in 2^32 bytes (65536 with 1 unit = 1 page; 4 with 1 unit = 16384 pages)
          MaxOps,        \* operations per behaviour
          Mins, Maxs, Limits,   \* sets the declaration is drawn from; -1 in Maxs = no declared maximum
          Ops            \* set of operation records the behaviour may use

VARIABLES cfg,           \* [min, max, limit, capFromMax]
          accepted,      \* the declaration was accepted by CompileModule
          pages,         \* current size in units
          cell,          \* function unit -> tag of the byte at the start of that unit (0 = never written)
          ntag,          \* last tag handed out
          hist,          \* operations with their expected results
          fin

vars == <<cfg, accepted, pages, cell, ntag, hist, fin>>

-----------------------------------------------------------------------------
(* declaration: accepted iff it is valid WebAssembly (min <= max <= 2^32 bytes) and the minimum fits the
   configured limit; the effective maximum is the smaller of the declared maximum and the limit *)
NoMax == -1   \* "no declared maximum"
DeclMax(c) == IF c.max = NoMax THEN TopU ELSE c.max
Valid(c)   == /\ DeclMax(c) <= TopU /\ c.min <= DeclMax(c) /\ c.min <= c.limit
EffMax(c)  == IF DeclMax(c) < c.limit THEN DeclMax(c) ELSE c.limit

(* address arithmetic on <<unit, delta>> pairs; size is <<pages, 0>> *)
AddA(a, b) == <<a[1] + b[1], a[2] + b[2]>>
LeqSize(a, sz) == a[1] < sz \/ (a[1] = sz /\ a[2] <= 0)
NonNeg(a) == a[1] > 0 \/ (a[1] = 0 /\ a[2] >= 0)

(* resolve an address class against the current size *)
Addr(base, delta) == CASE base = "zero" -> <<0, delta>>
                       [] base = "size" -> <<pages, delta>>
                       [] base = "last" -> <<pages - 1, delta>>
                       [] base = "top"  -> <<TopU, delta>>
InBounds(base, delta, len) ==
  LET a == Addr(base, delta) IN NonNeg(a) /\ LeqSize(AddA(a, <<0, len>>), pages)
(* offsets are 32-bit: an address at or beyond 2^32 cannot be expressed, such cases are not generated *)
Expressible(base, delta) == LET a == Addr(base, delta) IN NonNeg(a) /\ (a[1] < TopU \/ (a[1] = TopU /\ a[2] < 0))

-----------------------------------------------------------------------------
Init == /\ cfg \in [min : Mins, max : Maxs, limit : Limits, capFromMax : BOOLEAN]
        /\ accepted = Valid(cfg)
        /\ pages = IF Valid(cfg) THEN cfg.min ELSE 0
        /\ cell = <<>>                      \* sparse: units never written are absent (= 0)
        /\ ntag = 0 /\ hist = <<>> /\ fin = FALSE

CellAt(u) == IF u \in DOMAIN cell THEN cell[u] ELSE 0
SetCell(u, v) == [x \in DOMAIN cell \cup {u} |-> IF x = u THEN v ELSE cell[x]]

Rec(o, r, np) == hist' = Append(hist, [op |-> o, exp |-> r, pages |-> np])

(* symbolic deltas: -1 = exactly what remains, -2 = one more than remains, -3 = 2^32 bytes *)
GrowDelta(d) == CASE d = -1 -> EffMax(cfg) - pages
                  [] d = -2 -> EffMax(cfg) - pages + 1
                  [] d = -3 -> TopU                       \* more than can ever fit (unless empty at 4 GiB)
                  [] OTHER  -> d

Grow(o) ==      \* guest memory.grow and host Memory.Grow have the same contract
  LET d == GrowDelta(o.d) IN
  /\ o.op \in {"ggrow", "hgrow", "xgrow"}   \* xgrow: memory.grow executed by this instance's function while it
                                           \* is called from ANOTHER instance that has a memory of its own
  /\ IF pages + d <= EffMax(cfg)
     THEN /\ pages' = pages + d
          /\ Rec(o, [ok |-> TRUE, prev |-> pages], pages + d)
     ELSE /\ pages' = pages
          /\ Rec(o, [ok |-> FALSE, prev |-> 0], pages)
  /\ UNCHANGED <<cell, ntag>>

Size(o) ==      \* memory.size, Memory.Grow(0), Memory.Size()
  /\ o.op \in {"gsize", "hsize", "xsize"}
  /\ Rec(o, [ok |-> TRUE, prev |-> pages], pages)
  /\ UNCHANGED <<pages, cell, ntag>>

Put(o) ==       \* write a fresh tag at the first byte of a unit (guest store8 / host WriteByte)
  /\ o.op \in {"gput", "hput"}
  /\ LET u == IF o.base = "last" THEN pages - 1 ELSE IF o.base = "size" THEN pages ELSE 0 IN
     IF u >= 0 /\ u < pages
     THEN /\ ntag' = ntag + 1
          /\ cell' = SetCell(u, ntag + 1)
          /\ Rec(o, [ok |-> TRUE, prev |-> ntag + 1], pages)
     ELSE /\ UNCHANGED <<cell, ntag>>
          /\ Rec(o, [ok |-> FALSE, prev |-> 0], pages)
  /\ UNCHANGED pages

Get(o) ==       \* read it back through either view: contents preserved by growth, new pages zero
  /\ o.op \in {"gget", "hget"}
  /\ LET u == IF o.base = "last" THEN pages - 1 ELSE IF o.base = "size" THEN pages ELSE 0 IN
     IF u >= 0 /\ u < pages
     THEN Rec(o, [ok |-> TRUE, prev |-> CellAt(u)], pages)
     ELSE Rec(o, [ok |-> FALSE, prev |-> 0], pages)
  /\ UNCHANGED <<pages, cell, ntag>>

Edge(o) ==      \* an access of o.len bytes at <<base, delta>>: succeeds iff it lies within [0, size)
  /\ o.op \in {"gedge", "hedge"}
  /\ Expressible(o.base, o.delta)
  /\ Rec(o, [ok |-> InBounds(o.base, o.delta, o.len), prev |-> 0], pages)
  /\ UNCHANGED <<pages, cell, ntag>>

ViewAppend(o) ==   \* the host appends to a view (api.Memory.Read) that ends at the current size: the view is disconnected by
                   \* the append, the memory - also the part that is not exposed yet - is untouched
  /\ o.op = "happend"
  /\ Rec(o, [ok |-> TRUE, prev |-> 0], pages)
  /\ UNCHANGED <<pages, cell, ntag>>

Step == /\ accepted /\ ~fin /\ Len(hist) < MaxOps
        /\ \E o \in Ops : Grow(o) \/ Size(o) \/ Put(o) \/ Get(o) \/ Edge(o) \/ ViewAppend(o)
        /\ UNCHANGED <<cfg, accepted, fin>>

Finish == /\ ~fin /\ (Len(hist) = MaxOps \/ ~accepted)
          /\ fin' = TRUE /\ UNCHANGED <<cfg, accepted, pages, cell, ntag, hist>>

Next == Step \/ Finish
Spec == Init /\ [][Next]_vars

-----------------------------------------------------------------------------
SizeWithinBounds == accepted => cfg.min <= pages /\ pages <= EffMax(cfg) /\ pages <= cfg.limit
GrowMonotone == [][pages' >= pages]_vars
ZeroFill == \A u \in DOMAIN cell : u < pages      \* nothing was ever written at or beyond the size
ContentsPreserved == [][\A u \in DOMAIN cell : cell'[u] # cell[u] => cell'[u] = ntag']_vars

Emit == fin => PrintT(<<"EMIT", ToJson([cfg |-> cfg, accepted |-> accepted, hist |-> hist])>>)
DesignView == <<cfg, accepted, pages, cell, ntag, Len(hist), fin>>
=============================================================================
