SPECIFICATION Spec
CONSTANTS
  Threads <- T2
  Names <- N2
  MaxMods = 3
  MaxOps = 2
  UnlistByIdentity = TRUE
  AttachEarly = TRUE
  KeepHist = FALSE
  StartKinds <- StartsBoth
  OpKinds <- CoreOps
INVARIANTS TypeOK NameUnique OwnerFindable LookupOnlyOpen ListedOnlyLive AfterRuntimeClose AtMostOnce ExactlyOnce
VIEW DesignView
CHECK_DEADLOCK FALSE
