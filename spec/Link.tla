-------------------------------- MODULE Link --------------------------------
(***************************************************************************)
(* Linking (C04): a provider instance A exports a memory, a table, a       *)
(* mutable global g, an immutable global h and a function inc; consumer    *)
(* instances B import them with DECLARED types chosen by TLC.              *)
(*                                                                         *)
(*   - an import is accepted only if ImportMatch holds (WebAssembly spec:  *)
(*     limits against the CURRENT size, equal element type, equal global   *)
(*     type and mutability, equal function signature);                     *)
(*   - afterwards A and every B observe ONE object per extern;             *)
(*   - values captured at instantiation (k = global.get h, segment         *)
(*     offsets) are the current values;                                    *)
(*   - a failing instantiation (out-of-bounds segment, trapping start)     *)
(*     keeps what earlier segments wrote and leaves A and earlier Bs       *)
(*     working.                                                            *)
(***************************************************************************)
EXTENDS Integers, Sequences, FiniteSets, TLC, Json

CONSTANTS MaxSteps,       \* steps per history
          MaxB,           \* consumer instances
          Decls,          \* set of declaration records for InstB
          OpsA, OpsB,     \* operations for the provider / consumers
          AMems, ATabMax, HVals

VARIABLES a,              \* provider parameters [mem |-> [min,max], tabmax, hval]
          pages, cells, g, tab, \* the shared objects
          insts,          \* sequence of instances: [kind, alive, k]
          hist, fin

vars == <<a, pages, cells, g, tab, insts, hist, fin>>

Addrs == {0, 5, 7, 8, 16, 17}
Null == <<0, 0>>

Init == /\ a \in [mem : AMems, tabmax : ATabMax, hval : HVals]
        /\ pages = a.mem[1]
        /\ cells = [x \in Addrs |-> 0]
        /\ g = 1
        /\ tab = [s \in 1..4 |-> Null]
        /\ insts = <<[kind |-> "A", alive |-> TRUE, k |-> 0, sure |-> TRUE, reexp |-> TRUE]>>
        /\ hist = <<>> /\ fin = FALSE

MemMax == IF a.mem[2] < 0 THEN 65536 ELSE a.mem[2]
TabMax == IF a.tabmax < 0 THEN 1000 ELSE a.tabmax

(* identity of an instance as its functions report it: the driver assigns it right after a SUCCESSFUL
   instantiation, so functions of an instance whose instantiation failed report 0 *)
IdOf(ins, j) == IF j <= Len(ins) /\ ins[j].alive THEN j ELSE 0
Snapshot(p, c, gg, t) == [pages |-> p, cells |-> [x \in Addrs |-> c[x]], g |-> gg,
                          tab |-> [s \in 1..Len(t) |-> [inst |-> t[s][1], k |-> t[s][2]]]]

-----------------------------------------------------------------------------
(* import matching, WebAssembly spec 4.5.x "Import matching" *)
LimitsMatch(curMin, actMax, declMin, declMax) ==
  /\ curMin >= declMin
  /\ (declMax < 0 \/ (actMax >= 0 /\ actMax <= declMax))

ImportMatch(d) ==
  /\ LimitsMatch(pages, a.mem[2], d.mem[1], d.mem[2])
  /\ d.tabtype = "funcref"
  /\ LimitsMatch(Len(tab), a.tabmax, d.tab[1], d.tab[2])
  /\ d.gtype = "i32" /\ d.gmut
  /\ d.incsig = ""

(* a mutable global in a constant expression is not valid WebAssembly: such a module must be rejected *)
ValidDecl(d) == ~d.kmut

(* wazero compares a table import's minimum with the exporter's DECLARED minimum, not with the current length:
   it may reject what the specification accepts after a table.grow.  The property only demands that nothing
   incompatible is accepted, so this direction is latitude (reported as a note by the driver). *)
MayRejectAnyway(d) == d.tab[1] > 4

-----------------------------------------------------------------------------
(* element / data segments: applied in order; the first out-of-bounds one stops the instantiation; what was
   written before persists *)
RECURSIVE ApplyElems(_, _, _)
ApplyElems(t, segs, inst) ==
  IF segs = <<>> THEN [t |-> t, ok |-> TRUE]
  ELSE LET s == Head(segs) IN
       IF s.off + Len(s.fns) > Len(t) THEN [t |-> t, ok |-> FALSE]
       ELSE ApplyElems([x \in 1..Len(t) |-> IF x > s.off /\ x <= s.off + Len(s.fns) THEN <<inst, s.fns[x - s.off]>> ELSE t[x]],
                       Tail(segs), inst)

RECURSIVE ApplyData(_, _)
ApplyData(c, segs) ==
  IF segs = <<>> THEN [c |-> c, ok |-> TRUE]
  ELSE LET s == Head(segs)  off == IF s.off < 0 THEN a.hval ELSE s.off IN
       IF off + Len(s.bytes) > pages * 65536 THEN [c |-> c, ok |-> FALSE]
       ELSE ApplyData([x \in Addrs |-> IF x >= off /\ x < off + Len(s.bytes) THEN s.bytes[x - off + 1] ELSE c[x]], Tail(segs))

(* A consumer imports either from the provider A (via = 0) or from an earlier, alive consumer (via = its index): every
   consumer exports its imports again under the same names, and what is imported through such a chain is the very same
   object with the same type - matching is against the object, not against what the intermediate module declared. *)
Vias == {0} \cup {j \in 2..Len(insts) : insts[j].alive /\ insts[j].sure /\ insts[j].reexp}      \* not through an instance that exists only by latitude
(* whether a consumer exports its imports again is a property of its module, chosen with the declaration (re) *)
InstVia(d, via, re) ==
  /\ Len(insts) < MaxB + 1
  /\ LET me == Len(insts) + 1 IN
     IF ~ValidDecl(d) \/ ~ImportMatch(d)
     THEN /\ insts' = Append(insts, [kind |-> "B", alive |-> FALSE, k |-> 0, sure |-> TRUE, reexp |-> re])
          /\ hist' = Append(hist, [i |-> me, op |-> "inst", decl |-> d, via |-> via, reexp |-> re, res |-> "reject",
                                   may |-> "reject", st |-> Snapshot(pages, cells, g, tab)])
          /\ UNCHANGED <<pages, cells, g, tab>>
     ELSE LET e == ApplyElems(tab, d.elem, me)
              dd == IF e.ok THEN ApplyData(cells, d.data) ELSE [c |-> cells, ok |-> FALSE]
              startOK == d.start # "trap"
              ok == e.ok /\ dd.ok /\ startOK
              g2 == IF e.ok /\ dd.ok /\ d.start = "gset" THEN 9 ELSE g IN
          /\ tab' = e.t /\ cells' = dd.c /\ g' = g2 /\ UNCHANGED pages
          /\ insts' = Append(insts, [kind |-> "B", alive |-> ok, k |-> a.hval, sure |-> e.ok /\ ~MayRejectAnyway(d), reexp |-> re])
          /\ hist' = Append(hist, [i |-> me, op |-> "inst", decl |-> d, via |-> via, reexp |-> re, res |-> IF ok THEN "ok" ELSE "fail",
                                   \* an out-of-bounds ELEMENT segment: wazero documents that it ignores it instead of failing
                                   may |-> IF ~e.ok THEN "ok-or-fail" ELSE IF MayRejectAnyway(d) THEN "ok-or-reject"
                                           ELSE IF ok THEN "ok" ELSE "fail",
                                   st |-> Snapshot(pages, dd.c, g2, e.t)])
  /\ UNCHANGED <<a, fin>>

InstB(d) == \E via \in Vias : \E re \in BOOLEAN : InstVia(d, via, re)

-----------------------------------------------------------------------------
(* operations of an alive instance i on the shared objects *)
Ret(i, o, r, p, c, gg, t) == hist' = Append(hist, [i |-> i, op |-> o.op, x |-> o.x, y |-> o.y, res |-> r, st |-> Snapshot(p, c, gg, t)])

Do(i, o) ==
  /\ insts[i].alive /\ insts[i].sure          \* an instance that exists only by latitude is not operated (the real one may not exist)
  /\ CASE o.op = "gset"  -> g' = o.x /\ UNCHANGED <<pages, cells, tab>> /\ Ret(i, o, "void", pages, cells, o.x, tab)
       [] o.op = "gget"  -> UNCHANGED <<pages, cells, g, tab>> /\ Ret(i, o, g, pages, cells, g, tab)
       [] o.op = "galias" -> \* a consumer imports g TWICE; in one function: read through the second import, write x through the
                             \* first, read through the second again: the second read sees the write (one global, two indexes)
                             insts[i].kind = "B" /\ g' = o.x /\ UNCHANGED <<pages, cells, tab>> /\ Ret(i, o, g * 1000 + o.x, pages, cells, o.x, tab)
       [] o.op = "kget"  -> insts[i].kind = "B" /\ UNCHANGED <<pages, cells, g, tab>> /\ Ret(i, o, insts[i].k, pages, cells, g, tab)
       [] o.op = "st"    -> /\ cells' = [cells EXCEPT ![o.x] = o.y] /\ UNCHANGED <<pages, g, tab>>
                            /\ Ret(i, o, "void", pages, [cells EXCEPT ![o.x] = o.y], g, tab)
       [] o.op = "ld"    -> UNCHANGED <<pages, cells, g, tab>> /\ Ret(i, o, cells[o.x], pages, cells, g, tab)
       [] o.op = "msize" -> UNCHANGED <<pages, cells, g, tab>> /\ Ret(i, o, pages, pages, cells, g, tab)
       [] o.op = "mgrow" -> IF pages + o.x <= MemMax
                            THEN pages' = pages + o.x /\ UNCHANGED <<cells, g, tab>> /\ Ret(i, o, pages, pages + o.x, cells, g, tab)
                            ELSE UNCHANGED <<pages, cells, g, tab>> /\ Ret(i, o, -1, pages, cells, g, tab)
       [] o.op = "tset"  -> IF o.x < Len(tab)
                            THEN LET t2 == [tab EXCEPT ![o.x + 1] = <<i, o.y>>] IN
                                 tab' = t2 /\ UNCHANGED <<pages, cells, g>> /\ Ret(i, o, "void", pages, cells, g, t2)
                            ELSE UNCHANGED <<pages, cells, g, tab>> /\ Ret(i, o, "trap", pages, cells, g, tab)
       [] o.op = "tnull" -> IF o.x < Len(tab)
                            THEN LET t2 == [tab EXCEPT ![o.x + 1] = Null] IN
                                 tab' = t2 /\ UNCHANGED <<pages, cells, g>> /\ Ret(i, o, "void", pages, cells, g, t2)
                            ELSE UNCHANGED <<pages, cells, g, tab>> /\ Ret(i, o, "trap", pages, cells, g, tab)
       [] o.op = "tisnull" -> UNCHANGED <<pages, cells, g, tab>> /\
                            Ret(i, o, IF o.x >= Len(tab) THEN "trap" ELSE IF tab[o.x + 1] = Null THEN 1 ELSE 0, pages, cells, g, tab)
       [] o.op \in {"tcall", "trcall"} ->   \* call_indirect / return_call_indirect: the callee runs in ITS instance
            IF o.x >= Len(tab) \/ tab[o.x + 1] = Null
            THEN UNCHANGED <<pages, cells, g, tab>> /\ Ret(i, o, "trap", pages, cells, g, tab)
            ELSE LET d == tab[o.x + 1][1]  k == tab[o.x + 1][2] IN
                 IF k = 3    \* f3: table.set 0 (ref.func f1) executed by the DEFINING instance, whoever entered
                 THEN LET t2 == [tab EXCEPT ![1] = <<d, 1>>] IN
                      tab' = t2 /\ UNCHANGED <<pages, cells, g>> /\ Ret(i, o, IdOf(insts, d) * 10 + 3, pages, cells, g, t2)
                 ELSE UNCHANGED <<pages, cells, g, tab>> /\ Ret(i, o, IdOf(insts, d) * 10 + k, pages, cells, g, tab)
       [] o.op = "tsize" -> UNCHANGED <<pages, cells, g, tab>> /\ Ret(i, o, Len(tab), pages, cells, g, tab)
       [] o.op = "tgrow" -> IF Len(tab) + o.x <= TabMax
                            THEN LET t2 == tab \o [s \in 1..o.x |-> Null] IN
                                 tab' = t2 /\ UNCHANGED <<pages, cells, g>> /\ Ret(i, o, Len(tab), pages, cells, g, t2)
                            ELSE UNCHANGED <<pages, cells, g, tab>> /\ Ret(i, o, -1, pages, cells, g, tab)
       [] o.op = "callinc" -> g' = g + 1 /\ UNCHANGED <<pages, cells, tab>> /\ Ret(i, o, 13, pages, cells, g + 1, tab)
  /\ UNCHANGED <<a, insts, fin>>

Step == /\ ~fin /\ Len(hist) < MaxSteps
        /\ \/ \E d \in Decls : InstB(d)
           \/ \E o \in OpsA : Do(1, o)
           \/ \E i \in 2..Len(insts), o \in OpsB : Do(i, o)

Finish == ~fin /\ Len(hist) > 0 /\ fin' = TRUE /\ UNCHANGED <<a, pages, cells, g, tab, insts, hist>>

Next == Step \/ Finish
Spec == Init /\ [][Next]_vars

-----------------------------------------------------------------------------
(* design properties of the model *)
SizeOK == pages >= a.mem[1] /\ pages <= MemMax /\ Len(tab) >= 4 /\ Len(tab) <= TabMax
(* nothing incompatible is ever alive *)
AliveOnlyIfCompatible == \A k \in 1..Len(hist) :
   (hist[k].op = "inst" /\ hist[k].res # "reject") => ValidDecl(hist[k].decl)
Emit == fin => PrintT(<<"EMIT", ToJson([a |-> a, hist |-> hist])>>)
DesignView == <<a, pages, cells, g, tab, insts, Len(hist), fin>>
=============================================================================
