------------------------------ MODULE ConfigMC ------------------------------
EXTENDS Config

EnvKeys == {"A", "B", "C", "D", "E"}
EnvM(keys)  == [op : {"WithEnv"}, k : keys, v : {"1", "2"}]
ArgsM  == [op : {"WithArgs"}, args : {<<>>, <<"x">>, <<"x", "y">>}]
NameM  == [op : {"WithName"}, name : {"", "n1"}]
StartM == [op : {"WithStartFunctions"}, fns : {<<>>, <<"s1">>}]
FsCfgM == [op : {"WithFSConfig"}, fsnode : 1..4]
IoM    == [op : {"WithStdout", "WithStderr", "WithStdin", "WithRandSource", "WithWalltime", "WithNanotime",
                 "WithNanosleep", "WithOsyield"}, id : {"w1", "w2"}]
SysM   == [op : {"WithSysWalltime", "WithSysNanotime", "WithSysNanosleep"}]
UseM   == [op : {"Use"}, sock : BOOLEAN]   \* instantiate, with / without a socket configuration in the context
MountM == [op : {"WithDirMount", "WithReadOnlyDirMount", "WithFSMount"}, guest : {"/", "/a", "a/", "/b"},
           dir : {"d1", "d2"}]
RcM    == [op : {"WithCoreFeatures"}, f : {"v1", "v2"}] \cup
          [op : {"WithMemoryLimitPages"}, n : {1, 2}] \cup
          [op : {"WithCloseOnContextDone", "WithMemoryCapacityFromMax", "WithDebugInfoEnabled",
                 "WithCustomSections"}, b : BOOLEAN] \cup
          [op : {"WithCompilationCache"}, id : {"c1", "c2"}]
SockM  == [op : {"WithTCPListener"}, host : {"h1", "h2"}, port : {1, 2}]

(* step k adds the k-th fresh key: histories differ only in the choice of parents, so every tree shape
   over a growing slice (capacities 1,2,4,8) is visited: 720 trees at depth 6 *)
FreshKey == <<"A", "B", "C", "D", "E", "F", "G">>
FreshGuest == <<"/", "/a", "/b", "/c", "/d", "/e", "/f">>
MethodsFreshEnv == {[op |-> "WithEnv", k |-> FreshKey[i], v |-> "1", idx |-> i] : i \in 1..7}
MethodsFreshMount == {[op |-> "WithDirMount", guest |-> FreshGuest[i], dir |-> "d1", idx |-> i] : i \in 1..7}
RootsFsOnly == <<"fs">>

(* alphabets per configuration *)
MethodsEnv   == EnvM(EnvKeys) \cup UseM
MethodsMod   == EnvM({"A", "B"}) \cup ArgsM \cup NameM \cup StartM \cup FsCfgM \cup UseM \cup
                [op : {"WithStdout", "WithRandSource", "WithWalltime"}, id : {"w1", "w2"}] \cup
                [op : {"WithSysNanotime"}] \cup
                [op : {"WithDirMount", "WithReadOnlyDirMount"}, guest : {"/", "a/"}, dir : {"d1"}]
MethodsFs    == MountM \cup FsCfgM \cup UseM
MethodsRc    == RcM
MethodsSock  == SockM \cup UseM
RootsMc == <<"mc">>
RootsAll == <<"mc", "fs", "rc", "sk">>
RootsFs == <<"mc", "fs">>
RootsRc == <<"rc">>
MethodsAll   == EnvM({"A", "B", "C"}) \cup ArgsM \cup NameM \cup StartM \cup FsCfgM \cup IoM \cup SysM \cup
                UseM \cup MountM \cup RcM \cup SockM
=============================================================================
