------------------------------- MODULE Numeric -------------------------------
(***************************************************************************)
(* Numeric instructions of WebAssembly defined on BIT VECTORS (C05).       *)
(*                                                                         *)
(* TLC integers are 32-bit, so a value is a sequence of bits, least        *)
(* significant first (Len = 8, 16, 32, 64 or 128).  Integer arithmetic is  *)
(* ripple-carry / shift-add / restoring division; floats are handled on    *)
(* their IEEE-754 fields (sign, exponent, fraction) wherever the           *)
(* instruction is defined without rounding of an inexact real result:      *)
(* abs neg copysign min max ceil floor trunc nearest, comparisons,         *)
(* promote, demote (rounding of the fraction only), float->int truncation  *)
(* (trapping and saturating) and int->float conversion (round to nearest   *)
(* even on the integer's own bits).  f32/f64 add sub mul div sqrt are NOT  *)
(* defined here (see DESIGN.md).  Vector instructions are the lane-wise    *)
(* maps of these definitions.                                              *)
(*                                                                         *)
(* TLC is used as an evaluator: Cases is read from cases.ndjson (operands  *)
(* as byte sequences) and the results are printed for the driver.          *)
(***************************************************************************)
EXTENDS Integers, Sequences, FiniteSets, TLC, Json, IOUtils

Cases == ndJsonDeserialize("cases.ndjson")
VARIABLE pos                     \* index of the case under evaluation

-----------------------------------------------------------------------------
(* bits and bytes *)
ByteBits(b) == [i \in 1..8 |-> (b \div (2 ^ (i - 1))) % 2]
RECURSIVE BytesToBits(_)
BytesToBits(bs) == IF bs = <<>> THEN <<>> ELSE ByteBits(Head(bs)) \o BytesToBits(Tail(bs))
BitsToByte(b) == b[1] + 2 * b[2] + 4 * b[3] + 8 * b[4] + 16 * b[5] + 32 * b[6] + 64 * b[7] + 128 * b[8]
RECURSIVE BitsToBytes(_)
BitsToBytes(b) == IF b = <<>> THEN <<>> ELSE <<BitsToByte(SubSeq(b, 1, 8))>> \o BitsToBytes(SubSeq(b, 9, Len(b)))

Zero(n) == [i \in 1..n |-> 0]
Ones(n) == [i \in 1..n |-> 1]
One(n) == [i \in 1..n |-> IF i = 1 THEN 1 ELSE 0]
IsZero(a) == \A i \in 1..Len(a) : a[i] = 0
Msb(a) == a[Len(a)]
Not(a) == [i \in 1..Len(a) |-> 1 - a[i]]
And(a, b) == [i \in 1..Len(a) |-> a[i] * b[i]]
Or(a, b) == [i \in 1..Len(a) |-> IF a[i] + b[i] > 0 THEN 1 ELSE 0]
Xor(a, b) == [i \in 1..Len(a) |-> (a[i] + b[i]) % 2]

(* small natural <-> bits (only for values that fit TLC integers: shift counts, exponents, bit counts) *)
RECURSIVE ToNat(_)
ToNat(a) == IF a = <<>> THEN 0 ELSE a[1] + 2 * ToNat(Tail(a))
FromNat(v, n) == [i \in 1..n |-> IF i <= 30 THEN (v \div (2 ^ (i - 1))) % 2 ELSE 0]       \* v < 2^30

(* ripple-carry addition: returns the n-bit sum; carry-in c *)
RECURSIVE AddC(_, _, _)
AddC(a, b, c) == IF a = <<>> THEN <<>>
                 ELSE LET s == a[1] + b[1] + c IN <<s % 2>> \o AddC(Tail(a), Tail(b), s \div 2)
Add(a, b) == AddC(a, b, 0)
Neg(a) == AddC(Not(a), Zero(Len(a)), 1)
Sub(a, b) == AddC(a, Not(b), 1)
(* carry out of a + b (for unsigned comparison): a <u b  iff  no carry out of a + ~b + 1 *)
RECURSIVE CarryOut(_, _, _)
CarryOut(a, b, c) == IF a = <<>> THEN c ELSE CarryOut(Tail(a), Tail(b), (a[1] + b[1] + c) \div 2)
LtU(a, b) == CarryOut(a, Not(b), 1) = 0
LtS(a, b) == IF Msb(a) # Msb(b) THEN Msb(a) = 1 ELSE LtU(a, b)

ShlBy(a, k) == [i \in 1..Len(a) |-> IF i - k >= 1 THEN a[i - k] ELSE 0]
ShrUBy(a, k) == [i \in 1..Len(a) |-> IF i + k <= Len(a) THEN a[i + k] ELSE 0]
ShrSBy(a, k) == [i \in 1..Len(a) |-> IF i + k <= Len(a) THEN a[i + k] ELSE Msb(a)]
RotlBy(a, k) == [i \in 1..Len(a) |-> a[((i - 1 - k) % Len(a)) + 1]]
RotrBy(a, k) == [i \in 1..Len(a) |-> a[((i - 1 + k) % Len(a)) + 1]]
Log2(n) == CASE n = 8 -> 3 [] n = 16 -> 4 [] n = 32 -> 5 [] n = 64 -> 6
Count(a, b) == ToNat(SubSeq(b, 1, Log2(Len(a))))       \* shift / rotate counts are taken modulo the width

(* shift-add multiplication, truncated to the width *)
RECURSIVE MulAcc(_, _, _, _)
MulAcc(a, b, i, acc) == IF i > Len(b) THEN acc
                        ELSE MulAcc(a, b, i + 1, IF b[i] = 1 THEN Add(acc, ShlBy(a, i - 1)) ELSE acc)
Mul(a, b) == MulAcc(a, b, 1, Zero(Len(a)))

(* restoring division, unsigned: returns <<quotient, remainder>> *)
RECURSIVE DivStep(_, _, _, _, _)
DivStep(a, b, i, q, r) ==
  IF i = 0 THEN <<q, r>>
  ELSE LET r1 == <<a[i]>> \o SubSeq(r, 1, Len(r) - 1)          \* r := (r << 1) | a[i]   (r has one spare bit)
           ge == ~LtU(r1, b \o <<0>>)
           r2 == IF ge THEN Sub(r1, b \o <<0>>) ELSE r1 IN
       DivStep(a, b, i - 1, [q EXCEPT ![i] = IF ge THEN 1 ELSE 0], r2)
DivModU(a, b) == LET res == DivStep(a, b, Len(a), Zero(Len(a)), Zero(Len(a) + 1)) IN <<res[1], SubSeq(res[2], 1, Len(a))>>
Abs(a) == IF Msb(a) = 1 THEN Neg(a) ELSE a
MinS(n) == [i \in 1..n |-> IF i = n THEN 1 ELSE 0]
MaxS(n) == [i \in 1..n |-> IF i = n THEN 0 ELSE 1]

RECURSIVE Clz(_)
Clz(a) == IF a = <<>> \/ Msb(a) = 1 THEN 0 ELSE 1 + Clz(SubSeq(a, 1, Len(a) - 1))
RECURSIVE Ctz(_)
Ctz(a) == IF a = <<>> \/ a[1] = 1 THEN 0 ELSE 1 + Ctz(Tail(a))
RECURSIVE Popcnt(_)
Popcnt(a) == IF a = <<>> THEN 0 ELSE a[1] + Popcnt(Tail(a))

Bool(n, p) == IF p THEN One(n) ELSE Zero(n)
ZExt(a, n) == a \o Zero(n - Len(a))
SExt(a, n) == a \o [i \in 1..(n - Len(a)) |-> Msb(a)]
Wrap(a, n) == SubSeq(a, 1, n)

TRAP(k) == [trap |-> k]
OK(v) == [v |-> v]

-----------------------------------------------------------------------------
(* integer instructions; n = width *)
IntBin(op, a, b) ==
  LET n == Len(a) IN
  CASE op = "add" -> OK(Add(a, b)) [] op = "sub" -> OK(Sub(a, b)) [] op = "mul" -> OK(Mul(a, b))
    [] op = "and" -> OK(And(a, b)) [] op = "or" -> OK(Or(a, b)) [] op = "xor" -> OK(Xor(a, b))
    [] op = "shl" -> OK(ShlBy(a, Count(a, b))) [] op = "shr_u" -> OK(ShrUBy(a, Count(a, b))) [] op = "shr_s" -> OK(ShrSBy(a, Count(a, b)))
    [] op = "rotl" -> OK(RotlBy(a, Count(a, b))) [] op = "rotr" -> OK(RotrBy(a, Count(a, b)))
    [] op = "div_u" -> IF IsZero(b) THEN TRAP("integer divide by zero") ELSE OK(DivModU(a, b)[1])
    [] op = "rem_u" -> IF IsZero(b) THEN TRAP("integer divide by zero") ELSE OK(DivModU(a, b)[2])
    [] op = "div_s" -> IF IsZero(b) THEN TRAP("integer divide by zero")
                       ELSE IF a = MinS(n) /\ b = Ones(n) THEN TRAP("integer overflow")
                       ELSE LET q == DivModU(Abs(a), Abs(b))[1] IN OK(IF Msb(a) # Msb(b) THEN Neg(q) ELSE q)
    [] op = "rem_s" -> IF IsZero(b) THEN TRAP("integer divide by zero")
                       ELSE LET r == DivModU(Abs(a), Abs(b))[2] IN OK(IF Msb(a) = 1 THEN Neg(r) ELSE r)     \* sign of the dividend
    [] op = "min_u" -> OK(IF LtU(b, a) THEN b ELSE a) [] op = "max_u" -> OK(IF LtU(a, b) THEN b ELSE a)
    [] op = "min_s" -> OK(IF LtS(b, a) THEN b ELSE a) [] op = "max_s" -> OK(IF LtS(a, b) THEN b ELSE a)
    [] op = "add_sat_u" -> OK(IF CarryOut(a, b, 0) = 1 THEN Ones(n) ELSE Add(a, b))
    [] op = "sub_sat_u" -> OK(IF LtU(a, b) THEN Zero(n) ELSE Sub(a, b))
    [] op = "add_sat_s" -> LET s == Add(a, b) IN       \* overflow iff the operands agree in sign and the sum does not
                           OK(IF Msb(a) = Msb(b) /\ Msb(s) # Msb(a) THEN (IF Msb(a) = 1 THEN MinS(n) ELSE MaxS(n)) ELSE s)
    [] op = "sub_sat_s" -> LET d == Sub(a, b) IN
                           OK(IF Msb(a) # Msb(b) /\ Msb(d) # Msb(a) THEN (IF Msb(a) = 1 THEN MinS(n) ELSE MaxS(n)) ELSE d)
    [] op = "avgr_u" -> OK(Wrap(ShrUBy(AddC(ZExt(a, n + 1), ZExt(b, n + 1), 1), 1), n))       \* (a + b + 1) / 2 without overflow
    [] op = "eq" -> OK(Bool(32, a = b)) [] op = "ne" -> OK(Bool(32, a # b))
    [] op = "lt_u" -> OK(Bool(32, LtU(a, b))) [] op = "gt_u" -> OK(Bool(32, LtU(b, a)))
    [] op = "le_u" -> OK(Bool(32, ~LtU(b, a))) [] op = "ge_u" -> OK(Bool(32, ~LtU(a, b)))
    [] op = "lt_s" -> OK(Bool(32, LtS(a, b))) [] op = "gt_s" -> OK(Bool(32, LtS(b, a)))
    [] op = "le_s" -> OK(Bool(32, ~LtS(b, a))) [] op = "ge_s" -> OK(Bool(32, ~LtS(a, b)))

IntUn(op, a) ==
  LET n == Len(a) IN
  CASE op = "clz" -> OK(FromNat(Clz(a), n)) [] op = "ctz" -> OK(FromNat(Ctz(a), n)) [] op = "popcnt" -> OK(FromNat(Popcnt(a), n))
    [] op = "eqz" -> OK(Bool(32, IsZero(a)))
    [] op = "abs" -> OK(Abs(a)) [] op = "neg" -> OK(Neg(a))
    [] op = "extend8_s" -> OK(SExt(Wrap(a, 8), n)) [] op = "extend16_s" -> OK(SExt(Wrap(a, 16), n)) [] op = "extend32_s" -> OK(SExt(Wrap(a, 32), n))
    [] op = "wrap_i64" -> OK(Wrap(a, 32)) [] op = "extend_i32_s" -> OK(SExt(a, 64)) [] op = "extend_i32_u" -> OK(ZExt(a, 64))

-----------------------------------------------------------------------------
(* IEEE-754 fields.  f32: 23 fraction bits, 8 exponent bits; f64: 52 and 11. *)
FracBits(x) == IF Len(x) = 32 THEN 23 ELSE 52
ExpBits(x) == IF Len(x) = 32 THEN 8 ELSE 11
Bias(x) == IF Len(x) = 32 THEN 127 ELSE 1023
Frac(x) == SubSeq(x, 1, FracBits(x))
ExpF(x) == ToNat(SubSeq(x, FracBits(x) + 1, Len(x) - 1))
Sign(x) == x[Len(x)]
ExpMax(x) == 2 ^ ExpBits(x) - 1
IsNaN(x) == ExpF(x) = ExpMax(x) /\ ~IsZero(Frac(x))
IsInf(x) == ExpF(x) = ExpMax(x) /\ IsZero(Frac(x))
IsFZero(x) == ExpF(x) = 0 /\ IsZero(Frac(x))
MkF(n, s, e, f) == f \o FromNat(e, IF n = 32 THEN 8 ELSE 11) \o <<s>>
NaNResult == [nan |-> TRUE]          \* the payload is left open by the specification: compared by class
FAbs(x) == [x EXCEPT ![Len(x)] = 0]
FNeg(x) == [x EXCEPT ![Len(x)] = 1 - x[Len(x)]]
Magnitude(x) == SubSeq(x, 1, Len(x) - 1)
(* x < y for non-NaN operands; -0 = +0 *)
FLt(x, y) == IF IsFZero(x) /\ IsFZero(y) THEN FALSE
             ELSE IF Sign(x) # Sign(y) THEN Sign(x) = 1
             ELSE IF Sign(x) = 0 THEN LtU(Magnitude(x), Magnitude(y)) ELSE LtU(Magnitude(y), Magnitude(x))
FEq(x, y) == (IsFZero(x) /\ IsFZero(y)) \/ x = y

FloatCmp(op, x, y) ==
  IF IsNaN(x) \/ IsNaN(y) THEN OK(Bool(32, op = "ne"))
  ELSE CASE op = "eq" -> OK(Bool(32, FEq(x, y))) [] op = "ne" -> OK(Bool(32, ~FEq(x, y)))
         [] op = "lt" -> OK(Bool(32, FLt(x, y))) [] op = "gt" -> OK(Bool(32, FLt(y, x)))
         [] op = "le" -> OK(Bool(32, ~FLt(y, x))) [] op = "ge" -> OK(Bool(32, ~FLt(x, y)))

FloatMinMax(op, x, y) ==
  IF IsNaN(x) \/ IsNaN(y) THEN NaNResult
  ELSE IF IsFZero(x) /\ IsFZero(y) THEN OK(IF op = "min" THEN (IF Sign(x) = 1 THEN x ELSE y) ELSE (IF Sign(x) = 0 THEN x ELSE y))
  ELSE IF op = "min" THEN OK(IF FLt(y, x) THEN y ELSE x) ELSE OK(IF FLt(x, y) THEN y ELSE x)

(* rounding to an integral value: e = unbiased exponent; fraction bits below 2^0 are cleared / decide the rounding *)
RoundInt(mode, x) ==
  IF IsNaN(x) THEN NaNResult
  ELSE IF IsInf(x) \/ IsFZero(x) THEN OK(x)
  ELSE LET n == Len(x)  fb == FracBits(x)  e == ExpF(x) - Bias(x) IN
       IF e >= fb THEN OK(x)                                         \* already integral
       ELSE IF e < 0
            THEN \* |x| < 1
                 LET one == MkF(n, Sign(x), Bias(x), Zero(fb))  zero == MkF(n, Sign(x), 0, Zero(fb))
                     half == e = -1 /\ IsZero(Frac(x)) /\ ExpF(x) # 0      \* exactly 0.5
                     aboveHalf == e = -1 /\ ~IsZero(Frac(x)) IN
                 CASE mode = "trunc" -> OK(zero)
                   [] mode = "ceil" -> OK(IF Sign(x) = 0 THEN one ELSE zero)
                   [] mode = "floor" -> OK(IF Sign(x) = 1 THEN one ELSE zero)
                   [] mode = "nearest" -> OK(IF aboveHalf THEN one ELSE zero)      \* 0.5 -> 0 (even)
            ELSE LET k == fb - e                                      \* number of fraction bits below the integer part
                     low == SubSeq(Frac(x), 1, k)
                     kept == [i \in 1..fb |-> IF i <= k THEN 0 ELSE Frac(x)[i]]
                     truncated == MkF(n, Sign(x), ExpF(x), kept)
                     \* next integer away from zero: add 1 ulp-of-integer to the magnitude (may carry into the exponent)
                     up == Add(Magnitude(truncated), ShlBy(One(n - 1), k)) \o <<Sign(x)>>
                     inexact == ~IsZero(low)
                     halfBit == low[k]  restZero == IsZero(SubSeq(low, 1, k - 1))
                     odd == IF k = fb THEN 1 ELSE Frac(x)[k + 1]     \* lowest integer bit (the implicit 1 when k = fb)
                 IN
                 CASE mode = "trunc" -> OK(truncated)
                   [] mode = "ceil" -> OK(IF inexact /\ Sign(x) = 0 THEN up ELSE truncated)
                   [] mode = "floor" -> OK(IF inexact /\ Sign(x) = 1 THEN up ELSE truncated)
                   [] mode = "nearest" -> OK(IF halfBit = 1 /\ (~restZero \/ odd = 1) THEN up ELSE truncated)

(* the significand with its implicit bit as an integer of w bits, and the power of two it is scaled by *)
Significand(x, w) == ZExt(Frac(x) \o <<IF ExpF(x) = 0 THEN 0 ELSE 1>>, w)
(* float -> integer truncation toward zero.  Returns OK(bits) or a trap; sat = saturating variant *)
TruncToInt(x, n, signed, sat) ==
  IF IsNaN(x) THEN (IF sat THEN OK(Zero(n)) ELSE TRAP("invalid conversion to integer"))
  ELSE LET fb == FracBits(x)  e == ExpF(x) - Bias(x)
           lim == IF signed THEN n - 1 ELSE n                       \* magnitudes below 2^lim fit
           tooBig == IsInf(x) \/ e >= lim
           w == IF n > fb + 1 THEN n ELSE fb + 1
           sig == Significand(x, w + 1)
           mag == IF e >= fb THEN ShlBy(sig, e - fb) ELSE ShrUBy(sig, fb - e)   \* the magnitude truncated toward zero
           \* the range test is on the truncated value: everything in (-2^(n-1) - 1, -2^(n-1)] truncates to -2^(n-1), which fits
           exactMin == signed /\ Sign(x) = 1 /\ e = n - 1 /\ ~IsInf(x) /\ Wrap(mag, n) = MinS(n)
           negative == Sign(x) = 1 /\ ~(e < 0)                       \* magnitude >= 1 and negative
       IN
       IF ExpF(x) = 0 \/ e < 0 THEN OK(Zero(n))                      \* |x| < 1 truncates to 0 (also for negative values, also unsigned)
       ELSE IF exactMin THEN OK(MinS(n))
       ELSE IF tooBig \/ (~signed /\ negative)
            THEN IF sat THEN OK(IF Sign(x) = 1 THEN (IF signed THEN MinS(n) ELSE Zero(n)) ELSE (IF signed THEN MaxS(n) ELSE Ones(n)))
                 ELSE TRAP("integer overflow")
       ELSE LET m == Wrap(mag, n) IN
            OK(IF Sign(x) = 1 THEN Neg(m) ELSE m)

(* integer -> float, round to nearest even *)
ConvertFromInt(a, signed, fn) ==
  LET n == Len(a)
      neg == signed /\ Msb(a) = 1
      mag == IF neg THEN Neg(a) ELSE a                               \* MinS negates to itself = 2^(n-1) as unsigned: correct
      fb == IF fn = 32 THEN 23 ELSE 52
      bias == IF fn = 32 THEN 127 ELSE 1023 IN
  IF IsZero(mag) THEN OK(Zero(fn))
  ELSE LET p == n - 1 - Clz(mag)                                     \* position of the leading one: value in [2^p, 2^(p+1))
       IN IF p <= fb
          THEN OK(MkF(fn, IF neg THEN 1 ELSE 0, p + bias, Wrap(ShlBy(ZExt(mag, 64), fb - p), fb)))       \* exact
          ELSE LET k == p - fb                                       \* bits that do not fit
                   low == SubSeq(mag, 1, k)
                   kept == Wrap(ShrUBy(mag, k), fb)                   \* fraction without the leading one
                   halfBit == low[k]  restZero == IsZero(SubSeq(low, 1, k - 1))
                   odd == kept[1]
                   roundUp == halfBit = 1 /\ (~restZero \/ odd = 1)
                   base == kept \o FromNat(p + bias, IF fn = 32 THEN 8 ELSE 11)          \* magnitude bits (fraction + exponent)
                   r == IF roundUp THEN Add(base, One(fn - 1)) ELSE base IN  \* a carry out of the fraction bumps the exponent
               OK(r \o <<IF neg THEN 1 ELSE 0>>)

Promote(x) ==     \* f32 -> f64, exact
  IF IsNaN(x) THEN NaNResult
  ELSE IF IsInf(x) THEN OK(MkF(64, Sign(x), 2047, Zero(52)))
  ELSE IF IsFZero(x) THEN OK(MkF(64, Sign(x), 0, Zero(52)))
  ELSE IF ExpF(x) # 0 THEN OK(MkF(64, Sign(x), ExpF(x) - 127 + 1023, Zero(29) \o Frac(x)))
  ELSE \* subnormal: value = frac * 2^-149; normalise
       LET lead == 22 - Clz(Frac(x))                                 \* index (0-based) of the leading one within the 23 fraction bits
           f == Wrap(ShlBy(Zero(29) \o Frac(x), 52 - (lead + 29)), 52) IN
       OK(MkF(64, Sign(x), lead - 149 + 1023, f))

Demote(x) ==      \* f64 -> f32, round to nearest even on the fraction
  IF IsNaN(x) THEN NaNResult
  ELSE IF IsInf(x) THEN OK(MkF(32, Sign(x), 255, Zero(23)))
  ELSE IF IsFZero(x) THEN OK(MkF(32, Sign(x), 0, Zero(23)))
  ELSE LET e == ExpF(x) - 1023 IN
       IF ExpF(x) = 0 \/ e < -150 THEN OK(MkF(32, Sign(x), 0, Zero(23)))            \* far below the smallest f32 subnormal
       ELSE LET sig == Frac(x) \o <<1>>                                \* 53-bit significand, value = sig * 2^(e-52)
                \* target: normal if e >= -126 (drop 29 bits), else subnormal (drop 29 + (-126 - e) bits)
                k == IF e >= -126 THEN 29 ELSE 29 + (-126 - e)
                low == SubSeq(sig, 1, IF k <= 53 THEN k ELSE 53)
                keptAll == ShrUBy(sig \o Zero(8), k)                   \* 61 bits wide
                halfBit == IF k <= 53 THEN sig[k] ELSE 0
                restZero == IsZero(SubSeq(sig, 1, (IF k <= 53 THEN k ELSE 54) - 1))
                odd == keptAll[1]
                roundUp == halfBit = 1 /\ (~restZero \/ odd = 1)
                \* magnitude bits of the f32 result before rounding: fraction (23) + exponent (8)
                base == IF e >= -126 THEN Wrap(keptAll, 23) \o FromNat(e + 127, 8) ELSE Wrap(keptAll, 23) \o FromNat(0, 8)
                r == IF roundUp THEN Add(base, One(31)) ELSE base IN
            IF e > 127 THEN OK(MkF(32, Sign(x), 255, Zero(23)))
            ELSE OK(r \o <<Sign(x)>>)                                  \* overflow by rounding lands exactly on infinity's encoding



-----------------------------------------------------------------------------
(* IEEE-754 arithmetic, round to nearest even.  A finite non-zero value is  sig * 2^e  with sig an integer given as bits
   (any width).  RoundPack rounds such a value to the format: it finds the leading one, drops the bits below the format's
   quantum (the quantum of a subnormal result is fixed at 2^(emin - fb)) with half / sticky / odd, lets a carry out of the
   fraction bump the exponent, and turns an exponent beyond the largest finite one into infinity. *)
Fb(fn) == IF fn = 32 THEN 23 ELSE 52
BiasOf(fn) == IF fn = 32 THEN 127 ELSE 1023
EMin(fn) == 1 - BiasOf(fn)                         \* exponent of the smallest normal
Inf(fn, sg) == MkF(fn, sg, IF fn = 32 THEN 255 ELSE 2047, Zero(Fb(fn)))
FZero(fn, sg) == MkF(fn, sg, 0, Zero(Fb(fn)))
TopBit(b) == Len(b) - 1 - Clz(b)                   \* index (from 0) of the leading one; b # 0
AnyBelow(b, k) == k > 0 /\ ~IsZero(SubSeq(b, 1, IF k > Len(b) THEN Len(b) ELSE k))
BitAt(b, k) == IF k >= 0 /\ k < Len(b) THEN b[k + 1] ELSE 0
RoundPack(sg, sig, e, fn) ==
  IF IsZero(sig) THEN FZero(fn, sg)
  ELSE LET fb == Fb(fn)
           E == TopBit(sig) + e                                        \* value in [2^E, 2^(E+1))
           q == (IF E >= EMin(fn) THEN E ELSE EMin(fn)) - fb           \* exponent of the result's last place
           drop == q - e                                               \* bits of sig below the last place
           kept == IF drop <= 0 THEN ShlBy(ZExt(sig, Len(sig) - drop + 1), 0 - drop)
                   ELSE ShrUBy(sig, drop)
           half == IF drop >= 1 THEN BitAt(sig, drop - 1) ELSE 0
           sticky == drop >= 2 /\ AnyBelow(sig, drop - 1)
           up == half = 1 /\ (sticky \/ BitAt(kept, 0) = 1)
           \* magnitude bits as one integer: biased exponent field above the fraction; the implicit one of a normal number adds
           \* exactly one to the exponent field, so  field*2^fb + (kept - 2^fb)  =  (field - 1)*2^fb + kept
           field == IF E >= EMin(fn) THEN E - EMin(fn) + 1 ELSE 0
           w == fn + 14
           base == Add(Wrap(ZExt(kept, Len(kept) + w), w), ShlBy(FromNat(IF field = 0 THEN 0 ELSE field - 1, w), fb))
           r == IF up THEN Add(base, One(w)) ELSE base
           expField == ToNat(SubSeq(r, fb + 1, fb + 12))               \* wide enough for both formats
       IN IF expField >= (IF fn = 32 THEN 255 ELSE 2047) THEN Inf(fn, sg) ELSE Wrap(r, fn - 1) \o <<sg>>

(* sig (with the implicit one) and the exponent of its last place, for a finite non-zero x *)
SigOf(x) == Frac(x) \o <<IF ExpF(x) = 0 THEN 0 ELSE 1>>
ExpOfLsb(x) == (IF ExpF(x) = 0 THEN 1 ELSE ExpF(x)) - Bias(x) - FracBits(x)

FAdd(x, y0, sub) ==
  LET fn == Len(x)  y == IF sub THEN FNeg(y0) ELSE y0 IN
  IF IsNaN(x) \/ IsNaN(y) THEN NaNResult
  ELSE IF IsInf(x) \/ IsInf(y) THEN (IF IsInf(x) /\ IsInf(y) /\ Sign(x) # Sign(y) THEN NaNResult ELSE OK(IF IsInf(x) THEN x ELSE y))
  ELSE IF IsFZero(x) /\ IsFZero(y) THEN OK(FZero(fn, IF Sign(x) = 1 /\ Sign(y) = 1 THEN 1 ELSE 0))
  ELSE IF IsFZero(x) THEN OK(y) ELSE IF IsFZero(y) THEN OK(x)
  ELSE LET fb == Fb(fn)
           swap == ExpOfLsb(x) < ExpOfLsb(y)
           a == IF swap THEN y ELSE x   b == IF swap THEN x ELSE y        \* a has the larger exponent
           d0 == ExpOfLsb(a) - ExpOfLsb(b)
           \* a far smaller operand only matters as "something below": keep it just below three guard bits
           far == d0 > fb + 4
           d == IF far THEN fb + 4 ELSE d0
           w == 2 * fb + 10
           A == ShlBy(ZExt(SigOf(a), w), d)
           B == IF far THEN One(w) ELSE ZExt(SigOf(b), w)
           e == ExpOfLsb(a) - d
       IN IF Sign(a) = Sign(b) THEN OK(RoundPack(Sign(a), Add(A, B), e, fn))
          ELSE IF A = B THEN OK(FZero(fn, 0))                              \* exact cancellation: +0 under round to nearest
          ELSE IF LtU(B, A) THEN OK(RoundPack(Sign(a), Sub(A, B), e, fn)) ELSE OK(RoundPack(Sign(b), Sub(B, A), e, fn))

FMul(x, y) ==
  LET fn == Len(x)  sg == (Sign(x) + Sign(y)) % 2 IN
  IF IsNaN(x) \/ IsNaN(y) THEN NaNResult
  ELSE IF (IsInf(x) /\ IsFZero(y)) \/ (IsFZero(x) /\ IsInf(y)) THEN NaNResult
  ELSE IF IsInf(x) \/ IsInf(y) THEN OK(Inf(fn, sg))
  ELSE IF IsFZero(x) \/ IsFZero(y) THEN OK(FZero(fn, sg))
  ELSE LET w == 2 * Fb(fn) + 4 IN
       OK(RoundPack(sg, Mul(ZExt(SigOf(x), w), ZExt(SigOf(y), w)), ExpOfLsb(x) + ExpOfLsb(y), fn))

(* normalised significand: leading one at position fb, exponent adjusted *)
NormSig(x) == LET sgf == SigOf(x)  sh == FracBits(x) - TopBit(sgf) IN [s |-> ShlBy(sgf, sh), e |-> ExpOfLsb(x) - sh]
FDiv(x, y) ==
  LET fn == Len(x)  sg == (Sign(x) + Sign(y)) % 2 IN
  IF IsNaN(x) \/ IsNaN(y) THEN NaNResult
  ELSE IF (IsInf(x) /\ IsInf(y)) \/ (IsFZero(x) /\ IsFZero(y)) THEN NaNResult
  ELSE IF IsInf(x) \/ IsFZero(y) THEN OK(Inf(fn, sg))
  ELSE IF IsInf(y) \/ IsFZero(x) THEN OK(FZero(fn, sg))
  ELSE LET fb == Fb(fn)  nx == NormSig(x)  ny == NormSig(y)
           w == 2 * fb + 8
           num == ShlBy(ZExt(nx.s, w), fb + 3)                             \* quotient with fb+3 or fb+4 significant bits
           qr == DivModU(num, ZExt(ny.s, w))
           sig == ShlBy(qr[1], 1)                                          \* room for the sticky bit of the remainder
           sig2 == IF IsZero(qr[2]) THEN sig ELSE [sig EXCEPT ![1] = 1]
       IN OK(RoundPack(sg, sig2, nx.e - ny.e - (fb + 3) - 1, fn))

(* integer square root, bit by bit from the top: the largest r with r * r <= n *)
RECURSIVE ISqrt(_, _, _)
ISqrt(n, r, k) == IF k < 0 THEN r
                  ELSE LET t == [r EXCEPT ![k + 1] = 1] IN
                       ISqrt(n, IF LtU(n, Mul(ZExt(t, Len(n)), ZExt(t, Len(n)))) THEN r ELSE t, k - 1)
FSqrt(x) ==
  LET fn == Len(x) IN
  IF IsNaN(x) THEN NaNResult
  ELSE IF IsFZero(x) THEN OK(x)
  ELSE IF Sign(x) = 1 THEN NaNResult
  ELSE IF IsInf(x) THEN OK(x)
  ELSE LET fb == Fb(fn)  nx == NormSig(x)
           \* value = s * 2^e with s in [2^fb, 2^(fb+1)); shift so that the exponent is even and the root has fb+3 bits
           k0 == fb + 6
           k == IF (nx.e - k0) % 2 = 0 THEN k0 ELSE k0 + 1
           w == 2 * fb + 10
           n == ShlBy(ZExt(nx.s, w), k)
           hw == fb + 5                                                    \* bits of the root
           r == ISqrt(n, Zero(hw), hw - 1)
           exact == Mul(ZExt(r, w), ZExt(r, w)) = n
           sig == ShlBy(ZExt(r, hw + 1), 1)
           sig2 == IF exact THEN sig ELSE [sig EXCEPT ![1] = 1]
       IN OK(RoundPack(0, sig2, (nx.e - k) \div 2 - 1, fn))

-----------------------------------------------------------------------------
(* 128-bit vectors: 128 bits, lane 0 in the lowest bits.  Lane-wise instructions whose lane function is one of the
   scalar definitions above are checked through those (the driver packs scalar cases into lanes); here are the
   instructions that cross lanes, change the lane width, take a scalar, or have no scalar counterpart. *)
Lane(v, w, k) == SubSeq(v, k * w + 1, (k + 1) * w)                 \* k counts from 0
RECURSIVE JoinLanes(_, _, _)
JoinLanes(f, k, n) == IF k = n THEN <<>> ELSE f[k] \o JoinLanes(f, k + 1, n)
MapLanes(n, F(_)) == JoinLanes([k \in 0..(n - 1) |-> F(k)], 0, n)
(* a signed value of any width clamped into n bits, as a signed / as an unsigned result *)
SatS(x, n) == IF LtS(x, SExt(MinS(n), Len(x))) THEN MinS(n) ELSE IF LtS(SExt(MaxS(n), Len(x)), x) THEN MaxS(n) ELSE Wrap(x, n)
SatU(x, n) == IF Msb(x) = 1 THEN Zero(n) ELSE IF LtS(ZExt(Ones(n), Len(x)), x) THEN Ones(n) ELSE Wrap(x, n)
Ext(x, n, signed) == IF signed THEN SExt(x, n) ELSE ZExt(x, n)
IsNaNRes(r) == "nan" \in DOMAIN r
OKV(bits) == [v |-> bits]

VecEval(op, w, a, b, c) ==
  LET n == 128 \div w          \* number of lanes of width w
      cnt == IF Len(c) >= 32 THEN ToNat(SubSeq(c, 1, Log2(w))) ELSE 0          \* shift count modulo the lane width
      idx == IF Len(c) >= 8 THEN ToNat(SubSeq(c, 1, 5)) ELSE 0                   \* lane index immediate
      signed == op \in {"narrow_s", "extend_low_s", "extend_high_s", "extmul_low_s", "extmul_high_s", "extadd_s", "convert_low_s", "trunc_sat_zero_s", "extract_s"}
  IN
  CASE op = "vshl" -> OKV(MapLanes(n, LAMBDA k : ShlBy(Lane(a, w, k), cnt)))
    [] op = "vshr_u" -> OKV(MapLanes(n, LAMBDA k : ShrUBy(Lane(a, w, k), cnt)))
    [] op = "vshr_s" -> OKV(MapLanes(n, LAMBDA k : ShrSBy(Lane(a, w, k), cnt)))
    \* w = width of the SOURCE lanes for the width-changing instructions
    [] op \in {"narrow_s", "narrow_u"} ->
         OKV(MapLanes(2 * n, LAMBDA k : LET x == IF k < n THEN Lane(a, w, k) ELSE Lane(b, w, k - n) IN
                                        IF op = "narrow_s" THEN SatS(x, w \div 2) ELSE SatU(x, w \div 2)))
    [] op \in {"extend_low_s", "extend_low_u"} -> OKV(MapLanes(n \div 2, LAMBDA k : Ext(Lane(a, w, k), 2 * w, signed)))
    [] op \in {"extend_high_s", "extend_high_u"} -> OKV(MapLanes(n \div 2, LAMBDA k : Ext(Lane(a, w, k + n \div 2), 2 * w, signed)))
    [] op \in {"extmul_low_s", "extmul_low_u"} -> OKV(MapLanes(n \div 2, LAMBDA k : Mul(Ext(Lane(a, w, k), 2 * w, signed), Ext(Lane(b, w, k), 2 * w, signed))))
    [] op \in {"extmul_high_s", "extmul_high_u"} ->
         OKV(MapLanes(n \div 2, LAMBDA k : Mul(Ext(Lane(a, w, k + n \div 2), 2 * w, signed), Ext(Lane(b, w, k + n \div 2), 2 * w, signed))))
    [] op \in {"extadd_s", "extadd_u"} -> OKV(MapLanes(n \div 2, LAMBDA k : Add(Ext(Lane(a, w, 2 * k), 2 * w, signed), Ext(Lane(a, w, 2 * k + 1), 2 * w, signed))))
    [] op = "dot" -> \* i32x4.dot_i16x8_s: the two products of each pair are added modulo 2^32
         OKV(MapLanes(4, LAMBDA k : Add(Mul(SExt(Lane(a, 16, 2 * k), 32), SExt(Lane(b, 16, 2 * k), 32)),
                                        Mul(SExt(Lane(a, 16, 2 * k + 1), 32), SExt(Lane(b, 16, 2 * k + 1), 32)))))
    [] op = "q15mulr" -> \* sat16((a * b + 2^14) >> 15)
         OKV(MapLanes(8, LAMBDA k : SatS(ShrSBy(Add(Mul(SExt(Lane(a, 16, k), 32), SExt(Lane(b, 16, k), 32)), ShlBy(One(32), 14)), 15), 16)))
    [] op = "bitmask" -> OKV([i \in 1..32 |-> IF i <= n THEN Msb(Lane(a, w, i - 1)) ELSE 0])
    [] op = "all_true" -> OKV(Bool(32, \A k \in 0..(n - 1) : ~IsZero(Lane(a, w, k))))
    [] op = "any_true" -> OKV(Bool(32, ~IsZero(a)))
    [] op = "swizzle" -> OKV(MapLanes(16, LAMBDA k : LET j == ToNat(Lane(b, 8, k)) IN IF j < 16 THEN Lane(a, 8, j) ELSE Zero(8)))
    [] op = "shuffle" -> OKV(MapLanes(16, LAMBDA k : LET j == ToNat(Lane(c, 8, k)) IN IF j < 16 THEN Lane(a, 8, j) ELSE Lane(b, 8, j - 16)))
    [] op = "bitselect" -> OKV(Or(And(a, c), And(b, Not(c))))
    [] op = "andnot" -> OKV(And(a, Not(b))) [] op = "vnot" -> OKV(Not(a))
    [] op = "vand" -> OKV(And(a, b)) [] op = "vor" -> OKV(Or(a, b)) [] op = "vxor" -> OKV(Xor(a, b))
    \* pseudo-minimum / maximum: b < a ? b : a and a < b ? b : a, with the plain comparison (false on NaN, -0 = +0)
    [] op = "pmin" -> OKV(MapLanes(n, LAMBDA k : LET x == Lane(a, w, k)  y == Lane(b, w, k) IN IF ~IsNaN(x) /\ ~IsNaN(y) /\ FLt(y, x) THEN y ELSE x))
    [] op = "pmax" -> OKV(MapLanes(n, LAMBDA k : LET x == Lane(a, w, k)  y == Lane(b, w, k) IN IF ~IsNaN(x) /\ ~IsNaN(y) /\ FLt(x, y) THEN y ELSE x))
    [] op \in {"convert_low_s", "convert_low_u"} -> OKV(MapLanes(2, LAMBDA k : ConvertFromInt(Lane(a, 32, k), signed, 64).v))
    [] op \in {"trunc_sat_zero_s", "trunc_sat_zero_u"} -> OKV(MapLanes(2, LAMBDA k : TruncToInt(Lane(a, 64, k), 32, signed, TRUE).v) \o Zero(64))
    [] op = "demote_zero" -> LET r == [k \in 0..1 |-> Demote(Lane(a, 64, k))] IN
                             [v |-> MapLanes(2, LAMBDA k : IF IsNaNRes(r[k]) THEN Zero(32) ELSE r[k].v) \o Zero(64),
                              nl |-> SelectSeq(<<0, 1>>, LAMBDA k : IsNaNRes(r[k])), lw |-> 32]
    [] op = "promote_low" -> LET r == [k \in 0..1 |-> Promote(Lane(a, 32, k))] IN
                             [v |-> MapLanes(2, LAMBDA k : IF IsNaNRes(r[k]) THEN Zero(64) ELSE r[k].v),
                              nl |-> SelectSeq(<<0, 1>>, LAMBDA k : IsNaNRes(r[k])), lw |-> 64]
    [] op = "splat" -> OKV(MapLanes(n, LAMBDA k : Wrap(a, w)))                    \* a = the scalar (i32 operands are wrapped to the lane)
    [] op = "extract_s" -> OKV(SExt(Lane(a, w, idx % n), IF w = 64 THEN 64 ELSE 32))
    [] op = "extract_u" -> OKV(ZExt(Lane(a, w, idx % n), IF w = 64 THEN 64 ELSE 32))
    [] op = "replace" -> OKV(MapLanes(n, LAMBDA k : IF k = idx % n THEN Wrap(b, w) ELSE Lane(a, w, k)))

(* what the vector definitions must satisfy among themselves *)
VecLaw(op, w, a, b, c) ==
  LET n == 128 \div w  r == VecEval(op, w, a, b, c) IN
  /\ (op = "narrow_s") => \A k \in 0..(n - 1) : SExt(Lane(r.v, w \div 2, k), w) = Lane(a, w, k) \/ Lane(r.v, w \div 2, k) \in {MinS(w \div 2), MaxS(w \div 2)}
  /\ (op = "extend_low_u") => VecEval("narrow_u", 2 * w, r.v, r.v, c).v = SubSeq(a, 1, 64) \o SubSeq(a, 1, 64) \/ w = 32      \* widening then narrowing gives the lanes back
  /\ (op \in {"extmul_low_s", "extmul_low_u"}) =>
        r.v = MapLanes(n \div 2, LAMBDA k : Mul(Lane(VecEval(IF op = "extmul_low_s" THEN "extend_low_s" ELSE "extend_low_u", w, a, b, c).v, 2 * w, k),
                                                Lane(VecEval(IF op = "extmul_low_s" THEN "extend_low_s" ELSE "extend_low_u", w, b, a, c).v, 2 * w, k)))
  /\ (op = "dot") => r.v = MapLanes(4, LAMBDA k : Add(Lane(VecEval("extmul_low_s", 16, a, b, c).v \o VecEval("extmul_high_s", 16, a, b, c).v, 32, 2 * k),
                                                      Lane(VecEval("extmul_low_s", 16, a, b, c).v \o VecEval("extmul_high_s", 16, a, b, c).v, 32, 2 * k + 1)))
  /\ (op = "bitmask") => (IsZero(r.v) <=> \A k \in 0..(n - 1) : Msb(Lane(a, w, k)) = 0)
  /\ (op = "vshl") => r.v = MapLanes(n, LAMBDA k : Mul(Lane(a, w, k), ShlBy(One(w), IF Len(c) >= 32 THEN ToNat(SubSeq(c, 1, Log2(w))) ELSE 0)))
  /\ (op = "bitselect") => r.v = Xor(b, And(Xor(a, b), c))
  /\ (op = "shuffle" /\ \A k \in 0..15 : ToNat(Lane(c, 8, k)) < 16) => r.v = VecEval("swizzle", 8, a, c, c).v
  /\ (op = "pmin") => \A k \in 0..(n - 1) : Lane(r.v, w, k) \in {Lane(a, w, k), Lane(b, w, k)}

-----------------------------------------------------------------------------
(* the dispatcher: c = [op, t (operand type), a, b (operands as bytes)] *)
Eval(c) ==
  LET a == BytesToBits(c.a)  b == BytesToBits(c.b)  op == c.op  t == c.t IN
  CASE t \in {"i32", "i64", "i8", "i16"} /\ op \in {"add", "sub", "mul", "and", "or", "xor", "shl", "shr_u", "shr_s", "rotl", "rotr", "div_u", "rem_u", "div_s",
                                       "rem_s", "eq", "ne", "lt_u", "gt_u", "le_u", "ge_u", "lt_s", "gt_s", "le_s", "ge_s", "min_u", "max_u", "min_s", "max_s",
                                       "add_sat_u", "sub_sat_u", "add_sat_s", "sub_sat_s", "avgr_u"} -> IntBin(op, a, b)
    [] t \in {"i8", "i16", "i32", "i64"} /\ op \in {"abs", "neg"} -> IntUn(op, a)
    [] t \in {"i8", "i32", "i64"} /\ op \in {"clz", "ctz", "popcnt", "eqz", "extend8_s", "extend16_s", "extend32_s", "wrap_i64", "extend_i32_s", "extend_i32_u"} -> IntUn(op, a)
    [] t \in {"f32", "f64"} /\ op \in {"eq", "ne", "lt", "gt", "le", "ge"} -> FloatCmp(op, a, b)
    [] t \in {"f32", "f64"} /\ op \in {"min", "max"} -> FloatMinMax(op, a, b)
    [] t \in {"f32", "f64"} /\ op \in {"ceil", "floor", "trunc", "nearest"} -> RoundInt(op, a)
    [] t \in {"f32", "f64"} /\ op = "abs" -> OK(FAbs(a)) [] t \in {"f32", "f64"} /\ op = "neg" -> OK(FNeg(a))
    [] t \in {"f32", "f64"} /\ op = "add" -> FAdd(a, b, FALSE) [] t \in {"f32", "f64"} /\ op = "sub" -> FAdd(a, b, TRUE)
    [] t \in {"f32", "f64"} /\ op = "mul" -> FMul(a, b) [] t \in {"f32", "f64"} /\ op = "div" -> FDiv(a, b)
    [] t \in {"f32", "f64"} /\ op = "sqrt" -> FSqrt(a)
    [] t \in {"f32", "f64"} /\ op = "copysign" -> OK([a EXCEPT ![Len(a)] = b[Len(b)]])
    [] op = "trunc_s32" -> TruncToInt(a, 32, TRUE, FALSE) [] op = "trunc_u32" -> TruncToInt(a, 32, FALSE, FALSE)
    [] op = "trunc_s64" -> TruncToInt(a, 64, TRUE, FALSE) [] op = "trunc_u64" -> TruncToInt(a, 64, FALSE, FALSE)
    [] op = "trunc_sat_s32" -> TruncToInt(a, 32, TRUE, TRUE) [] op = "trunc_sat_u32" -> TruncToInt(a, 32, FALSE, TRUE)
    [] op = "trunc_sat_s64" -> TruncToInt(a, 64, TRUE, TRUE) [] op = "trunc_sat_u64" -> TruncToInt(a, 64, FALSE, TRUE)
    [] op = "convert_s_f32" -> ConvertFromInt(a, TRUE, 32) [] op = "convert_u_f32" -> ConvertFromInt(a, FALSE, 32)
    [] op = "convert_s_f64" -> ConvertFromInt(a, TRUE, 64) [] op = "convert_u_f64" -> ConvertFromInt(a, FALSE, 64)
    [] op = "promote" -> Promote(a) [] op = "demote" -> Demote(a)
    [] t = "v128" -> VecEval(op, c.w, a, b, BytesToBits(c.c))

-----------------------------------------------------------------------------
(* Laws: redundant characterisations that every evaluated case must satisfy.  They tie the definitions above to
   each other (division to multiplication, rotations to each other, the two conversion directions, the four
   roundings), so that an error in one definition does not pass silently as "the expected value". *)
Law(c) ==
  LET a == BytesToBits(c.a)  b == BytesToBits(c.b)  op == c.op  t == c.t  n == Len(a)  r == Eval(c)
      isInt == t \in {"i8", "i16", "i32", "i64"}  isF == t \in {"f32", "f64"}
      ok == "v" \in DOMAIN r IN
  /\ (t = "v128") => VecLaw(op, c.w, a, b, BytesToBits(c.c))
  /\ (isInt /\ op \in {"div_u", "rem_u"} /\ ok) =>
        LET q == IntBin("div_u", a, b).v  m == IntBin("rem_u", a, b).v IN Add(Mul(q, b), m) = a /\ LtU(m, b)
  /\ (isInt /\ op \in {"div_s", "rem_s"} /\ ~IsZero(b) /\ ~(a = MinS(n) /\ b = Ones(n))) =>
        LET q == IntBin("div_s", a, b).v  m == IntBin("rem_s", a, b).v IN
        Add(Mul(q, b), m) = a /\ (IsZero(m) \/ Msb(m) = Msb(a)) /\ LtU(Abs(m), Abs(b))
  /\ (isInt /\ op = "sub") => r.v = Add(a, Neg(b))
  /\ (isInt /\ op \in {"add", "mul", "and", "or", "xor", "min_s", "min_u", "max_s", "max_u", "add_sat_s", "add_sat_u", "avgr_u", "eq", "ne"}) => r = IntBin(op, b, a)
  /\ (isInt /\ op = "rotl") => r.v = RotrBy(a, (n - Count(a, b)) % n)
  /\ (isInt /\ op = "shr_s" /\ Msb(a) = 0) => r = IntBin("shr_u", a, b)
  /\ (isInt /\ op = "shl") => r.v = Mul(a, ShlBy(One(n), Count(a, b)))
  /\ (isInt /\ op = "popcnt") => Popcnt(a) + Popcnt(Not(a)) = n
  /\ (isInt /\ op = "clz" /\ ~IsZero(a)) => Msb(ShlBy(a, Clz(a))) = 1
  /\ (isInt /\ op = "ctz" /\ ~IsZero(a)) => ShrUBy(a, Ctz(a))[1] = 1
  /\ (isInt /\ op \in {"lt_s", "lt_u"}) => r.v # IntBin(IF op = "lt_s" THEN "ge_s" ELSE "ge_u", a, b).v /\ r = IntBin(IF op = "lt_s" THEN "gt_s" ELSE "gt_u", b, a)
  /\ (isInt /\ op \in {"le_s", "le_u"}) => r.v # IntBin(IF op = "le_s" THEN "gt_s" ELSE "gt_u", a, b).v
  /\ (isInt /\ op \in {"add_sat_s", "sub_sat_s"}) =>      \* saturation = clamp of the exact result computed one bit wider
        LET wide == IF op = "add_sat_s" THEN Add(SExt(a, n + 1), SExt(b, n + 1)) ELSE Sub(SExt(a, n + 1), SExt(b, n + 1)) IN
        r.v = (IF LtS(wide, SExt(MinS(n), n + 1)) THEN MinS(n) ELSE IF LtS(SExt(MaxS(n), n + 1), wide) THEN MaxS(n) ELSE Wrap(wide, n))
  /\ (isInt /\ op = "abs") => (a = MinS(n) /\ r.v = a) \/ (Msb(r.v) = 0 /\ (r.v = a \/ r.v = Neg(a)))
  /\ (isF /\ op \in {"lt", "le", "eq", "ne"}) => r = FloatCmp(CASE op = "lt" -> "gt" [] op = "le" -> "ge" [] OTHER -> op, b, a)
  /\ (isF /\ op = "lt" /\ ~IsNaN(a) /\ ~IsNaN(b)) =>        \* trichotomy
        (IF FLt(a, b) THEN 1 ELSE 0) + (IF FLt(b, a) THEN 1 ELSE 0) + (IF FEq(a, b) THEN 1 ELSE 0) = 1
  /\ (isF /\ op \in {"min", "max"}) => r = FloatMinMax(op, b, a)
  /\ (isF /\ op \in {"min", "max"} /\ ok) => (r.v = a \/ r.v = b) /\ ~FLt(IF op = "min" THEN a ELSE r.v, IF op = "min" THEN r.v ELSE a)
  /\ (isF /\ op \in {"ceil", "floor", "trunc", "nearest"} /\ ok) =>
        LET fl == RoundInt("floor", a).v  ce == RoundInt("ceil", a).v IN
        /\ RoundInt(op, r.v) = r                                   \* idempotent
        /\ ~FLt(a, fl) /\ ~FLt(ce, a)                              \* floor <= x <= ceil
        /\ RoundInt("trunc", a).v = (IF Sign(a) = 1 THEN ce ELSE fl)
        /\ RoundInt("nearest", a).v \in {fl, ce}
        /\ (fl = ce) = (RoundInt("trunc", a).v = a)                \* exact iff already integral
        /\ Sign(r.v) = Sign(a)                                     \* the sign (also of a zero result) is the operand's
  /\ (isF /\ op \in {"trunc_s32", "trunc_u32", "trunc_s64", "trunc_u64"} /\ ok) =>
        r = TruncToInt(a, IF op \in {"trunc_s32", "trunc_u32"} THEN 32 ELSE 64, op \in {"trunc_s32", "trunc_s64"}, TRUE)   \* saturating = trapping where defined
  /\ (isF /\ op \in {"trunc_s32", "trunc_u32", "trunc_s64", "trunc_u64"} /\ ok) =>      \* converting the truncated integer back gives trunc(x)
        LET signed == op \in {"trunc_s32", "trunc_s64"}  back == ConvertFromInt(r.v, signed, Len(a))
            mag == IF signed /\ Msb(r.v) = 1 THEN Neg(r.v) ELSE r.v IN
        (IsZero(mag) \/ Len(mag) - Clz(mag) - Ctz(mag) <= FracBits(a) + 1) => FEq(back.v, RoundInt("trunc", a).v)
  /\ (op \in {"convert_s_f32", "convert_u_f32", "convert_s_f64", "convert_u_f64"}) =>
        LET signed == op \in {"convert_s_f32", "convert_s_f64"}  fn == IF op \in {"convert_s_f32", "convert_u_f32"} THEN 32 ELSE 64
            mag == IF signed /\ Msb(a) = 1 THEN Neg(a) ELSE a
            exact == IsZero(mag) \/ (n - Clz(mag) - Ctz(mag) <= (IF fn = 32 THEN 24 ELSE 53)) IN
        /\ exact => TruncToInt(r.v, n, signed, FALSE) = OK(a)       \* the two directions are inverse on exactly representable integers
        /\ RoundInt("trunc", r.v) = r                               \* the result is integral
        /\ (signed /\ a # MinS(n) /\ ~IsZero(a)) => ConvertFromInt(Neg(a), TRUE, fn).v = FNeg(r.v)
  /\ (op = "promote" /\ ok) => Demote(r.v) = OK(a)
  /\ (op = "demote" /\ ok /\ ~IsInf(r.v)) =>                        \* the result is one of the two f32 neighbours of x
        LET back == Promote(r.v).v IN
        back = a \/ (LET step == IF FLt(back, a) = (Sign(r.v) = 0) THEN Add(Magnitude(r.v), One(31)) ELSE Sub(Magnitude(r.v), One(31))
                         other == IF IsFZero(r.v) THEN MkF(32, Sign(a), 0, One(23)) ELSE step \o <<Sign(r.v)>>
                     IN IF IsNaN(other) THEN TRUE ELSE
                        LET ob == Promote(other).v IN IF FLt(back, a) THEN FLt(a, ob) \/ IsInf(other) ELSE FLt(ob, a))

Laws == pos > 0 => Law(Cases[pos])

Out(c) == LET r == Eval(c) IN
          IF "trap" \in DOMAIN r THEN [id |-> c.id, trap |-> r.trap]
          ELSE IF "nan" \in DOMAIN r THEN [id |-> c.id, nan |-> TRUE]
          ELSE IF "nl" \in DOMAIN r THEN [id |-> c.id, v |-> BitsToBytes(r.v), nl |-> r.nl, lw |-> r.lw]
          ELSE [id |-> c.id, v |-> BitsToBytes(r.v)]

Init == pos = 0
Next == pos < Len(Cases) /\ pos' = pos + 1
Spec == Init /\ [][Next]_pos
Emit == pos > 0 => PrintT(<<"EMIT", ToJson(Out(Cases[pos]))>>)
=============================================================================
