------------------------------ MODULE WasiSig ------------------------------
(***************************************************************************)
(* WASI calls are safe for ANY argument values (C15).                      *)
(*                                                                         *)
(* Sig[f] gives every parameter of f a ROLE:                               *)
(*   fd          a descriptor                                              *)
(*   in(k)       pointer to input bytes whose length is parameter k        *)
(*   out(k)      pointer to an output buffer whose length is parameter k   *)
(*   res(n)      pointer to a result of n bytes (the designated output)    *)
(*   iovr / iovw pointer to an iovec array (count = next parameter) whose  *)
(*               buffers are written (read calls) / only read              *)
(*   evs(k)      pointer to k * 32 bytes of events (poll_oneoff)           *)
(*   subs(k)     pointer to k * 48 bytes of subscriptions                  *)
(*   len, cnt    a byte length / an element count                          *)
(*   u64, flags  plain numbers                                             *)
(* TLC enumerates, per function, the all-valid argument vector, every      *)
(* single deviation and every pair of deviations to a boundary class of    *)
(* the parameter's role.  The post-condition of EVERY such call:           *)
(*   Outcome   an errno, or a guest trap - never a Go runtime error         *)
(*   Frame     bytes outside the designated output regions are unchanged   *)
(*   Table     descriptors other than those the call names keep their type; *)
(*             a call that fails leaves every descriptor as it was          *)
(*   Alloc     host allocation stays proportional to the guest memory      *)
(***************************************************************************)
EXTENDS Integers, Sequences, FiniteSets, TLC, Json

R(r, k) == [r |-> r, k |-> k]
Fd == R("fd", 0)  Ln == R("len", 0)  Cnt == R("cnt", 0)  U64 == R("u64", 0)  Fl == R("flags", 0)
In(k) == R("in", k)  Out(k) == R("out", k)  Res(n) == R("res", n)

Sig == [
  args_get |-> <<Res(64), Res(64)>>, args_sizes_get |-> <<Res(4), Res(4)>>,
  environ_get |-> <<Res(64), Res(64)>>, environ_sizes_get |-> <<Res(4), Res(4)>>,
  clock_res_get |-> <<Fl, Res(8)>>, clock_time_get |-> <<Fl, U64, Res(8)>>,
  fd_advise |-> <<Fd, U64, U64, Fl>>, fd_allocate |-> <<Fd, U64, U64>>, fd_close |-> <<Fd>>, fd_datasync |-> <<Fd>>,
  fd_fdstat_get |-> <<Fd, Res(24)>>, fd_fdstat_set_flags |-> <<Fd, Fl>>, fd_fdstat_set_rights |-> <<Fd, U64, U64>>,
  fd_filestat_get |-> <<Fd, Res(64)>>, fd_filestat_set_size |-> <<Fd, U64>>, fd_filestat_set_times |-> <<Fd, U64, U64, Fl>>,
  fd_pread |-> <<Fd, R("iovr", 0), Cnt, U64, Res(4)>>, fd_prestat_get |-> <<Fd, Res(8)>>, fd_prestat_dir_name |-> <<Fd, Out(3), Ln>>,
  fd_pwrite |-> <<Fd, R("iovw", 0), Cnt, U64, Res(4)>>, fd_read |-> <<Fd, R("iovr", 0), Cnt, Res(4)>>,
  fd_readdir |-> <<Fd, Out(3), Ln, U64, Res(4)>>, fd_renumber |-> <<Fd, Fd>>, fd_seek |-> <<Fd, U64, Fl, Res(8)>>,
  fd_sync |-> <<Fd>>, fd_tell |-> <<Fd, Res(8)>>, fd_write |-> <<Fd, R("iovw", 0), Cnt, Res(4)>>,
  path_create_directory |-> <<Fd, In(3), Ln>>, path_filestat_get |-> <<Fd, Fl, In(4), Ln, Res(64)>>,
  path_filestat_set_times |-> <<Fd, Fl, In(4), Ln, U64, U64, Fl>>,
  path_link |-> <<Fd, Fl, In(4), Ln, Fd, In(7), Ln>>,
  path_open |-> <<Fd, Fl, In(4), Ln, Fl, U64, U64, Fl, Res(4)>>,
  path_readlink |-> <<Fd, In(3), Ln, Out(5), Ln, Res(4)>>, path_remove_directory |-> <<Fd, In(3), Ln>>,
  path_rename |-> <<Fd, In(3), Ln, Fd, In(6), Ln>>, path_symlink |-> <<In(2), Ln, Fd, In(5), Ln>>,
  path_unlink_file |-> <<Fd, In(3), Ln>>,
  poll_oneoff |-> <<R("subs", 3), R("evs", 3), Cnt, Res(4)>>,
  proc_raise |-> <<Fl>>, random_get |-> <<Out(2), Ln>>, sched_yield |-> <<>>,
  sock_accept |-> <<Fd, Fl, Res(4)>>, sock_recv |-> <<Fd, R("iovr", 0), Cnt, Fl, Res(4), Res(4)>>,
  sock_send |-> <<Fd, R("iovw", 0), Cnt, Fl, Res(4)>>, sock_shutdown |-> <<Fd, Fl>>
]

Funcs == DOMAIN Sig

(* boundary classes per role; the first one is the valid default *)
Classes(role) ==
  \* washigh: a descriptor number that WAS open (moved there by fd_renumber, then closed); word2: another number of the same 64-block
  CASE role = "fd"    -> <<"file", "stdin", "stdout", "preopen", "dir", "closed", "neg1", "big", "washigh", "word2">>
    [] role \in {"in", "out", "res", "iovr", "iovw", "evs", "subs"} -> <<"valid", "zero", "end-4", "end-1", "end", "2^31", "max">>
    [] role = "len"   -> <<"8", "0", "1", "page", "2^28", "2^29", "2^31-1", "max">>
    [] role = "cnt"   -> <<"1", "0", "2", "2^28", "2^29", "2^31-1", "max">>
    [] role = "u64"   -> <<"0", "1", "2^63", "max">>
    [] role = "flags" -> <<"0", "1", "2", "all16", "all32">>

PathFuncs == {"path_create_directory", "path_filestat_get", "path_filestat_set_times", "path_link", "path_open", "path_readlink",
              "path_remove_directory", "path_rename", "path_symlink", "path_unlink_file", "fd_readdir", "fd_prestat_get", "fd_prestat_dir_name"}
Default(f) == [i \in 1..Len(Sig[f]) |-> IF Sig[f][i].r = "fd" /\ f \in PathFuncs THEN "preopen" ELSE Classes(Sig[f][i].r)[1]]
ClassSet(role) == {Classes(role)[j] : j \in 1..Len(Classes(role))}

(* all-valid vector, every single deviation, every pair of deviations *)
Tuples(f) ==
  LET n == Len(Sig[f])  d == Default(f) IN
  {d} \cup UNION {{[d EXCEPT ![i] = c] : c \in ClassSet(Sig[f][i].r)} : i \in 1..n} \cup
  UNION {{[d EXCEPT ![i] = c1, ![j] = c2] : c1 \in ClassSet(Sig[f][i].r), c2 \in ClassSet(Sig[f][j].r)} : i \in 1..n, j \in 1..n}

CONSTANTS Fs      \* the functions of this run (a subset of Funcs)

VARIABLES todo, last
vars == <<todo, last>>
Init == todo = Fs /\ last = ""
Next == /\ todo # {}
        /\ LET f == CHOOSE x \in todo : TRUE IN todo' = todo \ {f} /\ last' = f
Spec == Init /\ [][Next]_vars

(* the table itself: every in/out role refers to a length parameter that exists *)
TableOK == \A f \in Funcs : \A i \in 1..Len(Sig[f]) :
             Sig[f][i].r \in {"in", "out"} => (Sig[f][i].k \in 1..Len(Sig[f]) /\ Sig[f][Sig[f][i].k].r = "len")
Emit == last # "" => PrintT(<<"EMIT", ToJson([f |-> last, sig |-> Sig[last], tuples |-> Tuples(last)])>>)
=============================================================================
