--------------------------- MODULE WasmTypingMC ---------------------------
EXTENDS WasmTyping
S(p, r) == [p |-> p, r |-> r]
SigPool == {S(<<>>, <<"i32">>), S(<<"i32">>, <<"i32">>), S(<<"i32", "i64">>, <<"i64">>), S(<<"f32", "f64">>, <<"f64">>),
            S(<<"i64", "f32">>, <<"f32", "i32">>), S(<<"v128">>, <<"v128">>), S(<<"i32", "i32", "i32">>, <<>>),
            \* wide signatures: every integer argument register, more floats than float registers, stack-passed integers
            S(<<"i32", "i64", "i32", "i64", "i64", "i32", "i64">>, <<"i32">>),
            S(<<"f64", "f32", "f64", "f32", "f64", "f32", "f64", "f32", "f64">>, <<"i32">>),
            S(<<"i64", "i32", "i64", "i32", "i64", "i32", "i64", "i32", "i64", "i32">>, <<"i64", "i32">>)}
ScalarOps == {o \in OpSig : "v128" \notin {o.pop[i] : i \in 1..Len(o.pop)} \cup {o.push[i] : i \in 1..Len(o.push)}}
VecOps == OpSig \ ScalarOps
(* every memory instruction plus the little arithmetic that address computation and value production need *)
MemOps == {o \in OpSig : o.imm \in {"mem1", "mem2", "mem4", "mem8", "mem16", "memlane1", "memlane2", "memlane4", "memlane8"}}
          \cup {o \in OpSig : o.op \in {"i32.add", "i32.and", "i32.eqz", "i32.lt_u", "i64.add", "i64.ne", "i32.wrap_i64", "i64.extend_i32_u", "f32.add", "f64.add",
                                        "i8x16.add", "v128.not", "memory.size", "memory.grow"}}
(* one operation per signature class, for exhaustive enumeration of short bodies *)
ClassOps == {o \in ScalarOps : o.op \in {"i32.const", "i64.const", "f32.const", "f64.const", "i32.add", "i64.mul", "f32.div", "f64.sqrt", "i32.eqz",
                                        "i64.lt_s", "f64.ge", "i32.wrap_i64", "i64.extend_i32_u", "f32.demote_f64", "i32.trunc_f32_s", "i32.load", "i64.store"}}
AllFeatures == {"grow", "bulk", "table", "brtable", "atomic", "tailcall", "host", "multi", "dead"}
HostPool == {S(<<"i32", "i64">>, <<"i64">>), S(<<"f32", "f64">>, <<"f64">>), S(<<"i32">>, <<>>), S(<<>>, <<"i32">>)}
NoFeatures == {}
P_ii == <<"i32", "i64">>   R_i == <<"i32">>
P_fd == <<"f32", "f64">>   R_d == <<"f64">>
P_v == <<"v128", "i32">>   R_v == <<"v128">>
P_0 == <<>>                R_0 == <<>>
R_li == <<"i64", "i32">>
=============================================================================
