SPECIFICATION Spec
CONSTANTS
  Depth = 3
  Roots <- RootsMc
  Methods <- MethodsEnv
INVARIANTS Emit
CHECK_DEADLOCK FALSE
