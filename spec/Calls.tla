------------------------------- MODULE Calls -------------------------------
(***************************************************************************)
(* Call trees with failures (C06) and their listener events (C20).         *)
(*                                                                         *)
(* Instances: M (main guest; imports host.h0 and peer.peer) and A (peer).  *)
(* A top-level call enters a guest function; guest functions may call the  *)
(* host function h0, which follows a SCRIPT: return a value, panic, exit   *)
(* the module, or call back into a guest function and then propagate or    *)
(* swallow the callback's failure.  The outcome of a call is               *)
(*     ok(v) | trap(kind) | overflow | panic | exit(code)                  *)
(* Effects made before a failure persist (every guest function bumps the   *)
(* instance's counter g before it does anything else), an exit closes the  *)
(* instance: later calls on it yield exit(code) - wazero still RUNS the    *)
(* function and reports the exit error when it returns (modelled as the    *)
(* code does) - and every other failure leaves all instances usable.       *)
(*                                                                         *)
(* Listener events: each function entry emits before(f); each normal       *)
(* return after(f); a failure unwinding through a frame emits abort(f).    *)
(***************************************************************************)
EXTENDS Integers, Sequences, FiniteSets, TLC, Json

CONSTANTS MaxCalls,      \* top-level calls per history
          Tops,          \* set of top-level calls [inst, fn, arg, script]
          MaxDepth,      \* nesting bound of host callbacks (scripts are finite anyway)
          Starts         \* set of starter instantiations [body, via, script] ({} = none)

VARIABLES g,             \* [inst -> counter]
          closed,        \* [inst -> 0 | code + 1]
          sreg,          \* 1 while an instance of the starter module S is registered under its name
          hist, fin

vars == <<g, closed, sreg, hist, fin>>

(* S is instantiated and closed by the history (InstS / CloseS); its start function runs during instantiation.
   g["S"] is unused; closed["S"] is the exit code of the S instance being instantiated. *)
Insts == {"M", "A", "S"}
TypedFns == {"w64", "wf64", "wf32", "wide"}
Ok(v) == [k |-> "ok", v |-> v]
Fail(k, v) == [k |-> k, v |-> v]
IsOk(r) == r.k = "ok"

(* evaluation state threaded through a call tree *)
St0 == [g |-> g, closed |-> closed, script |-> <<>>, ev |-> <<>>]

Bump(st, i, d) == [st EXCEPT !.g[i] = @ + d]
(* event: kind, function, value (first parameter for before, result for after, 0 for abort) and, for before
   events, the call chain from the callee outward within the current Go->guest entry *)
Ev(st, kind, f, v, ch) == [st EXCEPT !.ev = Append(@, [e |-> kind, f |-> f, v |-> v, chain |-> ch])]

RECURSIVE Guest(_, _, _, _, _, _)
RECURSIVE Host(_, _, _, _, _)
RECURSIVE Entry(_, _, _, _, _)

(* leave a frame: after on success, abort on failure; stack overflow notifies nothing on the way out *)
Leave(f, res) == LET r == res.r  st == res.st IN
                 [r |-> r, st |-> IF IsOk(r) THEN Ev(st, "after", f, r.v, <<>>)
                                  ELSE IF r.k = "overflow" THEN st ELSE Ev(st, "abort", f, 0, <<>>)]

(* Guest(i, f, x, st, d, ch): guest function f of instance i called with argument x; ch = callers within this entry *)
Guest(i, f, x, st0, d, ch) ==
  LET me == <<f>> \o ch
      st == Bump(Ev(st0, "before", f, x, me), IF f = "peer" THEN "A" ELSE i, IF f = "mark" THEN x ELSE 1) IN
  CASE f = "mark"    -> Leave(f, [r |-> Ok(st.g[i]), st |-> st])
    [] f \in TypedFns -> \* parameters and results of other types than i32 (i64, f64, f32, a mixed five-parameter / three-result
                        \* signature): the integer x travels encoded in them and comes back as x + 3
                        Leave(f, [r |-> Ok(x + 3), st |-> st])
    [] f = "brret"   -> \* leaves through a br_table arm that targets the function label (x >= 1) or an inner block
                        Leave(f, [r |-> Ok(IF x = 0 THEN 21 ELSE 20), st |-> st])
    [] f = "trap"    -> Leave(f, [r |-> Fail("trap", x), st |-> st])     \* x selects the trap kind
    [] f = "rectrap" -> \* rectrap(n) = if n = 0 then unreachable else rectrap(n-1): n+1 frames
                        IF x = 0 THEN Leave(f, [r |-> Fail("trap", 0), st |-> st])
                        ELSE Leave(f, Guest(i, f, x - 1, st, d, me))
    [] f = "recfin"  -> \* recfin(n) = if n = 0 then 0 else recfin(n-1) + 1 ; an absurd depth exhausts the stack
                        IF x >= 1000000 THEN [r |-> Fail("overflow", 0), st |-> st]
                        ELSE IF x = 0 THEN Leave(f, [r |-> Ok(0), st |-> st])
                        ELSE LET in == Guest(i, f, x - 1, st, d, me) IN Leave(f, [r |-> Ok(in.r.v + 1), st |-> in.st])
    [] f = "recmix"  -> \* recmix(x), x = 2 * depth + flag: at the bottom trap (flag 1) or return 0; one function for deep failures and successes
                        IF x < 2 THEN Leave(f, [r |-> IF x = 1 THEN Fail("trap", 0) ELSE Ok(0), st |-> st])
                        ELSE LET in == Guest(i, f, x - 2, st, d, me) IN
                             Leave(f, [r |-> IF IsOk(in.r) THEN Ok(in.r.v + 1) ELSE in.r, st |-> in.st])
    [] f = "recinf"  -> [r |-> Fail("overflow", 0), st |-> st]           \* depth and events are not compared for this outcome
    [] f = "callpeer" -> \* M.callpeer(x) = A.peer(x) + 100
                        LET in == Guest("A", "peer", x, st, d, me) IN
                        Leave(f, [r |-> IF IsOk(in.r) THEN Ok(in.r.v + 100) ELSE in.r, st |-> in.st])
    [] f = "peer"    -> IF x = 1 THEN Leave(f, [r |-> Fail("trap", 0), st |-> st])
                        ELSE IF x = 2     \* A's function reaches the host function through call_indirect: the host sees A
                        THEN Leave(f, Host("A", x, st, d, me))
                        ELSE Leave(f, [r |-> Ok(st.g["A"]), st |-> st])
    [] f = "viahost" -> \* g += 1 ; r = h0(x, 0) ; g += 10 ; return r
                        LET h == Host(i, x, st, d, me) IN
                        IF IsOk(h.r) THEN Leave(f, [r |-> h.r, st |-> Bump(h.st, i, 10)]) ELSE Leave(f, h)

(* Host(i, x, st, d, ch): host function h0(x, 0) called by a guest function of instance i; consumes one script node *)
Host(i, x, st0, d, ch) ==
  LET st1 == Ev(st0, "before", "h0", x, <<"h0">> \o ch) IN
  IF st1.script = <<>> THEN Leave("h0", [r |-> Ok(7), st |-> st1])
  ELSE LET n == Head(st1.script)  st == [st1 EXCEPT !.script = Tail(@)] IN
    CASE n.t = "ret"   -> Leave("h0", [r |-> Ok(n.v), st |-> st])
      [] n.t = "panic" -> Leave("h0", [r |-> Fail("panic", 0), st |-> st])
      [] n.t = "exit"  -> \* CloseWithExitCode (first close wins) then panic(ExitError(n.v))
                          Leave("h0", [r |-> Fail("exit", n.v), st |-> [st EXCEPT !.closed[i] = IF @ = 0 THEN n.v + 1 ELSE @]])
      [] n.t = "cbrec" -> \* the host calls back into the guest function that called it, again and again: unbounded recursion
                          \* THROUGH the host (every level is a new Go->guest entry): a stack-overflow error, like recinf
                          [r |-> Fail("overflow", 0), st |-> st]
      [] n.t = "cb"    -> \* call back into guest function n.f of the same instance: a new Go->guest entry
           IF d >= MaxDepth THEN Leave("h0", [r |-> Ok(n.v), st |-> st])
           ELSE LET in == Entry(i, n.f, n.x, st, d + 1) IN
                IF IsOk(in.r) \/ n.swallow THEN Leave("h0", [r |-> Ok(n.v), st |-> in.st])
                ELSE Leave("h0", [r |-> in.r, st |-> in.st])              \* the host re-panics with the callback's error

(* A Go->guest entry (api.Function.Call): wazero does not refuse to run a closed module's function; it runs it and,
   if the call did not fail otherwise, reports the module's exit error at the end. *)
Entry(i, f, x, st, d) ==
  LET out == Guest(i, f, x, st, d, <<>>) IN
  IF IsOk(out.r) /\ out.st.closed[i] # 0 THEN [r |-> Fail("exit", out.st.closed[i] - 1), st |-> out.st] ELSE out

-----------------------------------------------------------------------------
Init == g = [i \in Insts |-> 0] /\ closed = [i \in Insts |-> 0] /\ sreg = 0 /\ hist = <<>> /\ fin = FALSE

Call(t) ==
  /\ ~fin /\ Len(hist) < MaxCalls
  /\ LET out == Entry(t.inst, t.fn, t.arg, [St0 EXCEPT !.script = t.script], 0) IN
          /\ g' = out.st.g /\ closed' = out.st.closed
          /\ hist' = Append(hist, [top |-> t, res |-> out.r, g |-> out.st.g, closed |-> out.st.closed, sreg |-> sreg, ev |-> out.st.ev])
  /\ UNCHANGED <<fin, sreg>>

(* ---- start functions.  The starter module S imports main.mark, main.trap, peer.peer and host.h0; its start function is
        mark(5) ; <body> ; mark(7)
   with body one of: nothing, main.trap(0), host.h0 (scripted: return / panic / exit - the exit closes S, the caller of the
   host function), peer.peer(2) (A reaches the host function: an exit there closes A).  The start function is either the
   module's start section or the exported _start that InstantiateModule calls.  Whatever happens, the effects made before
   the failure persist, an instantiation that fails leaves NO instance behind (nothing registered under the name, the name
   free again), and M and A stay usable. *)
StartBodies == {"plain", "trap", "host", "peer2"}
StartOf(body, script, st0) ==
  LET st1 == Bump([st0 EXCEPT !.closed["S"] = 0, !.script = script], "M", 5)
      out == CASE body = "plain" -> [r |-> Ok(0), st |-> st1]
               [] body = "trap"  -> Guest("M", "trap", 0, st1, 0, <<"start">>)
               [] body = "host"  -> Host("S", 0, st1, 0, <<"start">>)
               [] body = "peer2" -> Guest("A", "peer", 2, st1, 0, <<"start">>)
  IN [r |-> out.r, st |-> IF IsOk(out.r) THEN Bump(out.st, "M", 7) ELSE out.st]

InstS(k) ==     \* k = [body, via ("section" | "export"), script]
  /\ ~fin /\ Len(hist) < MaxCalls
  /\ LET top == [inst |-> "S", fn |-> "inst", arg |-> 0, script |-> k.script, body |-> k.body, via |-> k.via]
         nolink == closed["A"] # 0 \/ closed["M"] # 0
         \* the name is checked when the instance is REGISTERED: for a start section that is after the start function has run
         \* (with all its effects); the exported _start only runs once the instance is registered
         runs == ~nolink /\ (sreg = 0 \/ k.via = "section")
         out == IF runs THEN StartOf(k.body, k.script, St0) ELSE [r |-> Ok(0), st |-> St0]
         res == IF nolink THEN Fail("nolink", 0)          \* a module it imports from is closed (and gone): refused before anything runs
                ELSE IF sreg = 1 THEN (IF IsOk(out.r) THEN Fail("dup", 0) ELSE out.r)
                \* an exit with code 0 from the exported _start is "success": no error, but the instance is closed all the same
                ELSE IF out.r.k = "exit" /\ out.r.v = 0 /\ k.via = "export" THEN Ok(0) ELSE out.r
         stays == sreg = 1 \/ (~nolink /\ IsOk(out.r) /\ out.st.closed["S"] = 0) IN
     /\ g' = out.st.g /\ closed' = [out.st.closed EXCEPT !["S"] = 0]
     /\ sreg' = IF stays THEN 1 ELSE 0
     /\ hist' = Append(hist, [top |-> top, res |-> res, g |-> out.st.g, closed |-> closed', sreg |-> sreg', ev |-> <<>>])
  /\ UNCHANGED fin

CloseS ==
  /\ ~fin /\ Len(hist) < MaxCalls /\ sreg = 1
  /\ sreg' = 0
  /\ hist' = Append(hist, [top |-> [inst |-> "S", fn |-> "close", arg |-> 0, script |-> <<>>, body |-> "", via |-> ""],
                           res |-> Ok(0), g |-> g, closed |-> closed, sreg |-> 0, ev |-> <<>>])
  /\ UNCHANGED <<g, closed, fin>>

(* Every history ends with Runtime.Close: whatever happened before - failed, trapped or exited instantiations included -
   every instance the runtime still has is closed by it (an instance that exited keeps its code), nothing stays registered,
   and a later call of any function fails with an exit error.  Also: a per-call context that is cancelled AFTER the call
   has returned changes nothing (the driver runs every history once more with close-on-context-done and such contexts). *)
Finish == /\ ~fin /\ Len(hist) > 0 /\ fin' = TRUE /\ sreg' = 0
          /\ closed' = [i \in Insts |-> IF closed[i] = 0 /\ i # "S" THEN 1 ELSE closed[i]]
          /\ UNCHANGED <<g, hist>>
Next == (\E t \in Tops : Call(t)) \/ (\E k \in Starts : InstS(k)) \/ (Starts # {} /\ CloseS) \/ Finish
Spec == Init /\ [][Next]_vars

-----------------------------------------------------------------------------
(* properties of the model *)
(* events are properly bracketed in every call that does not end in stack overflow *)
RECURSIVE Balanced(_, _)
Balanced(ev, stack) ==
  IF ev = <<>> THEN stack = <<>>
  ELSE LET e == Head(ev) IN
       IF e.e = "before" THEN Balanced(Tail(ev), Append(stack, e.f))
       ELSE stack # <<>> /\ stack[Len(stack)] = e.f /\ Balanced(Tail(ev), SubSeq(stack, 1, Len(stack) - 1))
Bracketed == \A k \in 1..Len(hist) : hist[k].res.k # "overflow" => Balanced(hist[k].ev, <<>>)
(* once closed, always closed with the same code; counters never decrease *)
ClosedSticky == [][\A i \in Insts : closed[i] # 0 => closed'[i] = closed[i]]_vars
EffectsPersist == [][\A i \in Insts : g'[i] >= g[i]]_vars

Emit == fin => PrintT(<<"EMIT", ToJson([hist |-> hist])>>)
DesignView == <<g, closed, sreg, Len(hist), fin>>
(* an instantiation that fails leaves no instance behind: what is registered under the name is what was there before *)
NoHalfInstance == \A k \in 1..Len(hist) : (hist[k].top.fn = "inst" /\ hist[k].res.k # "ok") =>
                                              hist[k].sreg = (IF k = 1 THEN 0 ELSE hist[k - 1].sreg) \/ (hist[k].res.k = "exit" /\ hist[k].res.v = 0)
=============================================================================
