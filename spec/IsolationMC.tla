---------------------------- MODULE IsolationMC ----------------------------
EXTENDS Isolation
Op(o, x, y) == [op |-> o, x |-> x, y |-> y]
AllOps == {Op("gset", 5, 0), Op("gget", 0, 0), Op("st", 8, 33), Op("st", 65544, 44), Op("ld", 8, 0), Op("ld", 65544, 0), Op("ld", 0, 0),
           Op("msize", 0, 0), Op("mgrow", 1, 0), Op("tset", 0, 2), Op("tsetfg", 1, 0), Op("tcall", 0, 0), Op("tcall", 1, 0),
           Op("tgrow", 1, 0), Op("minit", 0, 0), Op("ddrop", 0, 0), Op("tinit", 0, 0), Op("edrop", 0, 0), Op("close", 0, 0)}
=============================================================================
