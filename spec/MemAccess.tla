----------------------------- MODULE MemAccess -----------------------------
(***************************************************************************)
(* Placements of memory accesses relative to earlier bounds checks, calls, *)
(* memory.grow and control-flow joins (C02).                               *)
(*                                                                         *)
(* A behaviour of this specification builds a small structured function    *)
(* body token by token (well-nested by construction) and then evaluates    *)
(* the REFERENCE semantics of WebAssembly on it for a set of inputs:       *)
(* an access traps iff effective address + width > current size; a trap    *)
(* ends the call and leaves memory unchanged; otherwise exactly the        *)
(* addressed bytes are read / written.                                     *)
(*                                                                         *)
(* Byte addresses are pairs <<unit, delta>> = unit*UnitBytes + delta       *)
(* (delta small, possibly negative): TLC never sees a byte count.  The     *)
(* driver instantiates units under several scale maps (1 unit = 1 page,    *)
(* 1 unit = 16384 pages = 1 GiB).  Effective addresses are exact sums      *)
(* (33-bit in WebAssembly): nothing wraps.                                 *)
(***************************************************************************)
EXTENDS Integers, Sequences, FiniteSets, TLC, Json

CONSTANTS MaxLen,        \* tokens per program
          MaxDepth,      \* nesting depth of if / loop
          AccToks,       \* set of access tokens [t |-> "acc", v, ou, od, w, st]
          OtherToks,     \* subset of {"call","callgrow","grow","growneg","if","else","end","loop","endloop","mix","touch"}
          Sizes,         \* initial sizes in units
          TopU           \* units in 2^32 bytes under the scale map

CalleeKinds == {"local", "host", "reenter"}

VARIABLES prog,          \* sequence of tokens
          open,          \* stack of open constructs: "if" | "else" | "loop"
          fin

vars == <<prog, open, fin>>

Tok(s) == [t |-> s, v |-> 0, ou |-> 0, od |-> 0, w |-> 0, st |-> FALSE]

-----------------------------------------------------------------------------
(* program construction: a typing automaton for the control skeleton *)
Init == prog = <<>> /\ open = <<>> /\ fin = FALSE

Top == open[Len(open)]
Room == Len(prog) + Len(open) < MaxLen     \* always leave room for the closing tokens

Emit1(tok) == prog' = Append(prog, tok)

AddAcc == /\ ~fin /\ Room
          /\ \E a \in AccToks : Emit1(a)
          /\ UNCHANGED <<open, fin>>

AddPlain == /\ ~fin /\ Room
            /\ \E s \in OtherToks \cap {"call", "callgrow", "grow", "growneg", "mix", "touch"} : Emit1(Tok(s))
            /\ UNCHANGED <<open, fin>>

OpenIf == /\ ~fin /\ "if" \in OtherToks /\ Len(prog) + Len(open) + 2 <= MaxLen /\ Len(open) < MaxDepth
          /\ Emit1(Tok("if")) /\ open' = Append(open, "if") /\ UNCHANGED fin

AddElse == /\ ~fin /\ "else" \in OtherToks /\ Len(open) > 0 /\ Top = "if" /\ Room
           /\ Emit1(Tok("else")) /\ open' = [open EXCEPT ![Len(open)] = "else"] /\ UNCHANGED fin

CloseIf == /\ ~fin /\ Len(open) > 0 /\ Top \in {"if", "else"}
           /\ Emit1(Tok("end")) /\ open' = SubSeq(open, 1, Len(open) - 1) /\ UNCHANGED fin

OpenLoop == /\ ~fin /\ "loop" \in OtherToks /\ Len(prog) + Len(open) + 2 <= MaxLen /\ Len(open) < MaxDepth
            /\ Emit1(Tok("loop")) /\ open' = Append(open, "loop") /\ UNCHANGED fin

CloseLoop == /\ ~fin /\ Len(open) > 0 /\ Top = "loop"
             /\ Emit1(Tok("endloop")) /\ open' = SubSeq(open, 1, Len(open) - 1) /\ UNCHANGED fin

HasAcc == \E i \in 1..Len(prog) : prog[i].t = "acc"
Finish == /\ ~fin /\ open = <<>> /\ Len(prog) > 0 /\ HasAcc
          /\ fin' = TRUE /\ UNCHANGED <<prog, open>>

Next == AddAcc \/ AddPlain \/ OpenIf \/ AddElse \/ CloseIf \/ OpenLoop \/ CloseLoop \/ Finish
Spec == Init /\ [][Next]_vars

-----------------------------------------------------------------------------
(* reference semantics *)

AddA(a, b) == <<a[1] + b[1], a[2] + b[2]>>
(* a + w <= size  (size = <<pages, 0>>), for small |delta| *)
EndsWithin(a, w, pages) == LET e == <<a[1], a[2] + w>> IN e[1] < pages \/ (e[1] = pages /\ e[2] <= 0)
NonNeg(a) == a[1] > 0 \/ (a[1] = 0 /\ a[2] >= 0)

(* matching tokens *)
RECURSIVE MatchFwd(_, _, _, _)
(* first index j > i at nesting level 0 whose token is in `stop` *)
MatchFwd(p, i, depth, stop) ==
  IF i > Len(p) THEN Len(p) + 1
  ELSE LET t == p[i].t IN
       IF depth = 0 /\ t \in stop THEN i
       ELSE MatchFwd(p, i + 1,
                     IF t \in {"if", "loop"} THEN depth + 1
                     ELSE IF t \in {"end", "endloop"} THEN depth - 1 ELSE depth, stop)

RECURSIVE MatchBack(_, _, _)
MatchBack(p, i, depth) ==       \* index of the "loop" token matching the "endloop" at i
  LET t == p[i].t IN
  IF t = "loop" /\ depth = 0 THEN i
  ELSE MatchBack(p, i - 1, IF t = "endloop" THEN depth + 1 ELSE IF t = "loop" THEN depth - 1 ELSE depth)

(* The machine: [pc, pages, trap, accs, iters] ; vals = <<v0, v1>> address pairs; c = condition.
   "call" / "callgrow" stand for every kind of callee - a function of the module, an imported host function (the growing
   one uses the host memory API on the caller's memory), a host function that calls back into the guest: the
   semantics is the same, the driver runs each program once per kind (CalleeKinds).
   "mix" swaps the roles of the two address values at run time (v0 := v1) so that a later access through
   the same LOCAL uses a different value than the one that was checked. *)
RECURSIVE Run(_, _, _, _)
Run(p, st, vals, c) ==
  IF st.trap \/ st.pc > Len(p) THEN st
  ELSE LET k == p[st.pc]  nx == [st EXCEPT !.pc = @ + 1] IN
    CASE k.t = "acc" ->
           LET ea == AddA(st.vals[k.v + 1], <<k.ou, k.od>>) IN
           IF NonNeg(ea) /\ EndsWithin(ea, k.w, st.pages)
           THEN Run(p, [nx EXCEPT !.accs = Append(@, [st |-> k.st, eu |-> ea[1], ed |-> ea[2], w |-> k.w, at |-> st.pc, pg |-> st.pages])], vals, c)
           ELSE [st EXCEPT !.trap = TRUE, !.trapAt = st.pc]
      [] k.t \in {"call", "growneg", "touch"} -> Run(p, nx, vals, c)   \* memory.grow with a negative delta fails: no effect;
                                                                       \* "touch" = memory.copy(0, 0, 0) or memory.fill(0, 0, 0): zero bytes at address 0 are within ANY size
                                                                       \* (also 0): no trap, no effect - but the instruction names the memory
      [] k.t \in {"callgrow", "grow"} ->
           Run(p, IF st.pages + 1 <= st.max THEN [nx EXCEPT !.pages = @ + 1] ELSE nx, vals, c)
      [] k.t = "mix" -> Run(p, [nx EXCEPT !.vals = <<st.vals[2], st.vals[1]>>], vals, c)
      [] k.t = "if" ->
           IF c = 1 THEN Run(p, nx, vals, c)
           ELSE LET j == MatchFwd(p, st.pc + 1, 0, {"else", "end"}) IN Run(p, [st EXCEPT !.pc = j + 1], vals, c)
      [] k.t = "else" ->     \* reached by falling out of the then-branch: skip to the matching end
           LET j == MatchFwd(p, st.pc + 1, 0, {"end"}) IN Run(p, [st EXCEPT !.pc = j + 1], vals, c)
      [] k.t = "end" -> Run(p, nx, vals, c)
      [] k.t = "loop" -> Run(p, nx, vals, c)
      [] k.t = "endloop" ->  \* every loop body runs exactly twice
           LET j == MatchBack(p, st.pc - 1, 0) IN
           IF st.iters[j] < 1 THEN Run(p, [st EXCEPT !.pc = j + 1, !.iters[j] = @ + 1], vals, c)
           ELSE Run(p, [nx EXCEPT !.iters[j] = 0], vals, c)

Start(size, max, vals) == [pc |-> 1, pages |-> size, max |-> max, trap |-> FALSE, trapAt |-> 0, accs |-> <<>>,
                           iters |-> [i \in 1..MaxLen |-> 0], vals |-> vals]

(* inputs: initial size s, address values relative to s, condition *)
AddrVals(s) == {<<0, 0>>, <<s, -8>>, <<s, -1>>, <<s, 0>>, <<s + 1, -8>>, <<TopU \div 2, 0>>, <<TopU, -1>>}
AddrVals1(s) == {<<0, 8>>, <<s, -1>>}
Inputs == {[s |-> s, v0 |-> a, v1 |-> b, c |-> c] : s \in Sizes, a \in UNION {AddrVals(x) : x \in Sizes},
                                                   b \in UNION {AddrVals1(x) : x \in Sizes}, c \in {0, 1}}
InputsOf(s) == {[s |-> s, v0 |-> a, v1 |-> b, c |-> c] : a \in AddrVals(s), b \in AddrVals1(s), c \in {0, 1}}
AllInputs == UNION {InputsOf(s) : s \in Sizes}

MaxOf(s) == IF s + 2 <= TopU THEN s + 2 ELSE TopU     \* declared maximum: two more units, at most 4 GiB
Outcome(i) == LET r == Run(prog, Start(i.s, MaxOf(i.s), <<i.v0, i.v1>>), <<i.v0, i.v1>>, i.c) IN
              [inp |-> [s |-> i.s, v0u |-> i.v0[1], v0d |-> i.v0[2], v1u |-> i.v1[1], v1d |-> i.v1[2], c |-> i.c],
               trap |-> r.trap, trapAt |-> r.trapAt, pages |-> r.pages, accs |-> r.accs]

SetToSeq(S) == LET RECURSIVE F(_) F(T) == IF T = {} THEN <<>> ELSE LET x == CHOOSE y \in T : TRUE IN <<x>> \o F(T \ {x}) IN F(S)

EmitProg == fin => PrintT(<<"EMIT", ToJson([prog |-> prog, runs |-> SetToSeq({Outcome(i) : i \in AllInputs})])>>)

(* design-level sanity of the reference semantics itself *)
RefSound == fin => \A i \in AllInputs :
              LET o == Outcome(i) IN
              /\ o.pages >= i.s /\ o.pages <= i.s + 2
              /\ \A k \in 1..Len(o.accs) : LET a == o.accs[k] IN
                   NonNeg(<<a.eu, a.ed>>) /\ EndsWithin(<<a.eu, a.ed>>, a.w, o.pages)
=============================================================================
