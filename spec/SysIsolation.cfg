SPECIFICATION Spec
CONSTANTS
  MaxSteps = 5
  MaxInst = 2
  Ops <- SysOps
INVARIANTS Emit
PROPERTIES NonInterference
CHECK_DEADLOCK FALSE
