---------------------------- MODULE CacheConfig ----------------------------
(***************************************************************************)
(* Non-semantic configuration (C12).  A runtime is configured by a point   *)
(* of a lattice of options documented as performance / tooling choices:    *)
(*   cache      none | mem | dir (cold or already warm)                    *)
(*   capFromMax, allocator (custom), nodebug (DWARF off), custom sections, *)
(*   listeners  none | recording | nil-factory, closeOnDone (never         *)
(*   triggered while a call runs; the per-call context is cancelled AFTER  *)
(*   each call returns, as `defer cancel()` does)                          *)
(* Several runtimes with different points may share one cache.  The        *)
(* compiled artifact a runtime obtains is looked up by a KEY (binary,      *)
(* which functions are listened, termination flag); everything a runtime   *)
(* bakes into an artifact must be covered by the key, otherwise another    *)
(* runtime receives an artifact built for different settings.              *)
(*                                                                         *)
(* SameBehaviour: what a guest observably does depends only on the binary  *)
(* and the semantic settings - never on the lattice point or on who        *)
(* touched the cache first.  The guest scripts and their expected          *)
(* observations come from Isolation.tla (the lone-instance machine).       *)
(***************************************************************************)
EXTENDS Integers, Sequences, FiniteSets, TLC, Json

CONSTANTS MaxRuntimes, Points

VARIABLES memCache,     \* set of keys present in the shared in-memory cache
          dirCache,     \* set of keys present on disk
          steps, fin

vars == <<memCache, dirCache, steps, fin>>

Listened(p) == p.listeners # "none"
(* what wazero's module identity / file-cache key covers *)
Key(p) == [listened |-> IF p.listeners = "recording" THEN "all" ELSE "none", term |-> p.closeOnDone]
(* what a compilation bakes into the artifact *)
Baked(p) == [trampolines |-> Listened(p), term |-> p.closeOnDone]
(* the key covers the baked settings iff equal keys imply equal baked settings *)
KeyCoversBaked == \A p, q \in Points : Key(p) = Key(q) => Baked(p) = Baked(q)

Init == memCache = {} /\ dirCache = {} /\ steps = <<>> /\ fin = FALSE

(* a runtime with point p and cache mode c compiles, instantiates and runs the canonical scripts *)
Use(p, c) ==
  /\ ~fin /\ Len(steps) < MaxRuntimes
  /\ LET k == Key(p)
         how == IF c = "none" THEN "compile"
                ELSE IF c = "mem" THEN (IF k \in memCache THEN "mem-hit" ELSE "compile")
                ELSE (IF k \in dirCache THEN "dir-hit" ELSE "compile") IN
     /\ steps' = Append(steps, [point |-> p, cache |-> c, how |-> how])
     /\ memCache' = IF c = "mem" THEN memCache \cup {k} ELSE memCache
     /\ dirCache' = IF c = "dir" THEN dirCache \cup {k} ELSE dirCache
  /\ UNCHANGED fin

Finish == ~fin /\ Len(steps) > 0 /\ fin' = TRUE /\ UNCHANGED <<memCache, dirCache, steps>>
Next == (\E p \in Points, c \in {"none", "mem", "dir"} : Use(p, c)) \/ Finish
Spec == Init /\ [][Next]_vars

(* sharing is only meaningful when a later runtime can hit what an earlier one added *)
Emit == fin => PrintT(<<"EMIT", ToJson([steps |-> steps])>>)
DesignView == <<memCache, dirCache, Len(steps), fin>>

(* allocator: "guard" reserves the maximum and exposes exactly the current size; "spare" hands out slices of a pre-dirtied
   slab with spare capacity and cleans a range only when it is asked to (Reallocate) *)
AllPoints == [capFromMax : BOOLEAN, allocator : {"none", "guard", "spare"}, nodebug : BOOLEAN, custom : BOOLEAN,
              listeners : {"none", "recording", "nilfactory"}, closeOnDone : BOOLEAN]
Bottom == [capFromMax |-> FALSE, allocator |-> "none", nodebug |-> FALSE, custom |-> FALSE, listeners |-> "none", closeOnDone |-> FALSE]
(* one dimension at a time from the bottom, plus the top *)
OneDim == {Bottom} \cup {[Bottom EXCEPT !.capFromMax = TRUE], [Bottom EXCEPT !.allocator = "guard"], [Bottom EXCEPT !.allocator = "spare"], [Bottom EXCEPT !.nodebug = TRUE],
           [Bottom EXCEPT !.custom = TRUE], [Bottom EXCEPT !.listeners = "recording"], [Bottom EXCEPT !.listeners = "nilfactory"],
           [Bottom EXCEPT !.closeOnDone = TRUE],
           [capFromMax |-> TRUE, allocator |-> "spare", nodebug |-> TRUE, custom |-> TRUE, listeners |-> "recording", closeOnDone |-> TRUE]}
=============================================================================
