------------------------------ MODULE Boundary ------------------------------
(***************************************************************************)
(* Values crossing the host/guest boundary (C08).                          *)
(*                                                                         *)
(* A crossing carries a vector of typed values from a sender to a          *)
(* receiver: Go -> exported function (Call / CallWithStack), guest -> host *)
(* function (reflective or stack-based definition), host -> guest results, *)
(* guest -> Go results, and the same again when the host function calls    *)
(* back into the guest.  The only law: position by position the receiver   *)
(* sees exactly the token the sender sent.  Values are opaque tokens (TLC  *)
(* cannot hold 64-bit values); the driver maps tokens to bit patterns.     *)
(*                                                                         *)
(* This module (1) generates the signatures / styles / forms to exercise   *)
(* and (2) is the specification recorded crossings are validated against   *)
(* (BoundaryTrace.tla).                                                    *)
(***************************************************************************)
EXTENDS Integers, Sequences, FiniteSets, TLC, Json

Types == {"i32", "i64", "f32", "f64", "externref"}
Styles == {"reflect", "reflect-ctx", "reflect-ctx-mod", "gofunc", "gomodfunc"}
Forms == {"call", "stack"}

CONSTANTS MaxSmall,      \* exhaustive bound on parameter-list length
          CliffLens,     \* lengths of the long homogeneous / alternating lists
          WideLens, WideTypes  \* parameter counts / types of the signatures that are long on both sides

Rep(t, n) == [i \in 1..n |-> t]
Alt(a, b, n) == [i \in 1..n |-> IF i % 2 = 1 THEN a ELSE b]

RECURSIVE Lists(_)
Lists(n) == IF n = 0 THEN {<<>>} ELSE Lists(n - 1) \cup {Append(l, t) : l \in {x \in Lists(n - 1) : Len(x) = n - 1}, t \in Types}

SmallSigs == {[params |-> p, results |-> r] : p \in Lists(MaxSmall), r \in Lists(2)}
CliffSigs == {[params |-> Rep(t, n), results |-> <<t>>] : t \in Types, n \in CliffLens} \cup
             {[params |-> Alt(a, b, n), results |-> <<a, b>>] : a \in {"i32", "i64"}, b \in {"f32", "f64"}, n \in CliffLens} \cup
             {[params |-> <<>>, results |-> Rep(t, n)] : t \in Types, n \in {3, 7, 10}} \cup
             {[params |-> Rep("i32", 6) \o Rep(t, n), results |-> <<t>>] : t \in {"i64", "f64", "externref"}, n \in {1, 2, 3, 4}} \cup
             \* many parameters AND many results: both spill to the stack, and the result area lies behind the parameter area
             {[params |-> Rep(t, n), results |-> Rep(t, m)] : t \in WideTypes, n \in WideLens, m \in {9, 10, 11, 12}} \cup
             {[params |-> Alt(a, b, n), results |-> Alt(b, a, m)] : a \in {"i64"}, b \in {"f64"}, n \in WideLens, m \in {17, 20, 21}}

VARIABLES pending, out
vars == <<pending, out>>
Init == pending = SmallSigs \cup CliffSigs /\ out = <<>>
Next == pending # {} /\ LET s == CHOOSE x \in pending : TRUE IN pending' = pending \ {s} /\ out' = <<s>>
Spec == Init /\ [][Next]_vars
Emit == out # <<>> => PrintT(<<"EMIT", ToJson(out[1])>>)

-----------------------------------------------------------------------------
(* the law, used by BoundaryTrace: a crossing record [at, sent, seen] conforms iff seen = sent *)
Conforms(c) == Len(c.seen) = Len(c.sent) /\ \A i \in 1..Len(c.sent) : c.seen[i] = c.sent[i]
=============================================================================
