----------------------------- MODULE RegistryMC -----------------------------
EXTENDS Registry
T1 == {"t1"}
T2 == {"t1", "t2"}
T3 == {"t1", "t2", "t3"}
N1 == {"a"}
N2 == {"a", ""}
N3 == {"a", "b", ""}
AllOps == {"inst", "close", "lookup", "rtclose", "compile", "hostcompile"}
StartsBoth == {"none", "exit"}
StartsNone == {"none"}
CoreOps == {"inst", "close", "lookup", "rtclose"}
=============================================================================
