------------------------------ MODULE ModuleIndex ------------------------------
(***************************************************************************)
(* Module-level index spaces (C03).  A module is a handful of index spaces *)
(* - types, functions (imported then defined), tables, memories, globals,  *)
(* data segments, element segments - and a set of REFERENCES into them:    *)
(* the function section's type indexes, the import descriptors, exports,   *)
(* the start function, element-segment entries and table indexes, the      *)
(* data count, and the index immediates of the instructions in the bodies. *)
(* A module is valid iff every reference is in range and the few side      *)
(* conditions the specification attaches to them hold (Valid below).       *)
(*                                                                         *)
(* A case is a base shape (all references valid) with ONE module-level     *)
(* reference replaced and ONE index-carrying instruction placed in one of  *)
(* the bodies; both choices range over in-range and out-of-range indexes,  *)
(* so a case can be invalid in the module, in the body, in both or in      *)
(* neither - and the two can interact (a body calling FORWARD to a         *)
(* function whose declared type index is out of range).                    *)
(*                                                                         *)
(* Types: type 0 = [] -> [], type 1 = [i32] -> [i32].  Every defined       *)
(* function has one extra i32 local.                                       *)
(***************************************************************************)
EXTENDS Integers, Sequences, FiniteSets, TLC, Json

CONSTANT Shapes

Range(s) == {s[k] : k \in 1..Len(s)}
NF(m) == Len(m.imptypes) + Len(m.ftypes)
NT(m) == IF m.table THEN 1 ELSE 0
NM(m) == IF m.mem THEN 1 ELSE 0
NG(m) == IF m.glob = "none" THEN 0 ELSE 1
ND(m) == IF m.data = "none" THEN 0 ELSE 1
NE(m) == IF m.elem.mode = "none" THEN 0 ELSE 1
TypeIdx(m, f) == IF f < Len(m.imptypes) THEN m.imptypes[f + 1] ELSE m.ftypes[f - Len(m.imptypes) + 1]
Oob(n) == {n, 99}
Near(n) == {x \in {0, n - 1} : x >= 0 /\ x < n} \cup Oob(n)

(* ---- the references a body instruction makes ---- *)
Declared(m) == {e.i : e \in {x \in Range(m.exports) : x.k = "func"}} \cup Range(m.elem.fs)
SelfType(m, j) == m.ftypes[j]
NLocals(m, j) == (IF SelfType(m, j) = 1 THEN 1 ELSE 0) + 1
BodyValid(m, b) ==
  LET j == b.fn IN
  CASE b.k = "none"          -> TRUE
    [] b.k = "call"          -> b.i < NF(m)
    [] b.k = "return_call"   -> b.i < NF(m) /\ TypeIdx(m, b.i) < m.ntypes /\ SelfType(m, j) < m.ntypes /\ TypeIdx(m, b.i) = SelfType(m, j)
    [] b.k = "call_indirect" -> b.i < m.ntypes /\ b.i2 < NT(m)
    [] b.k = "return_call_indirect" -> b.i < m.ntypes /\ b.i2 < NT(m) /\ SelfType(m, j) < m.ntypes /\ b.i = SelfType(m, j)
    [] b.k = "global.get"    -> b.i < NG(m)
    [] b.k = "global.set"    -> b.i < NG(m) /\ m.glob = "mut"
    [] b.k = "local.get"     -> b.i < NLocals(m, j)
    [] b.k = "local.set"     -> b.i < NLocals(m, j)
    [] b.k = "ref.func"      -> b.i < NF(m) /\ b.i \in Declared(m)
    [] b.k = "table.get"     -> b.i < NT(m)
    [] b.k = "table.size"    -> b.i < NT(m)
    [] b.k = "memory.size"   -> NM(m) > 0
    [] b.k = "i32.load"      -> NM(m) > 0
    [] b.k = "data.drop"     -> m.datacount >= 0 /\ b.i < m.datacount
    [] b.k = "memory.init"   -> m.datacount >= 0 /\ b.i < m.datacount /\ NM(m) > 0
    [] b.k = "elem.drop"     -> b.i < NE(m)
    [] b.k = "table.init"    -> b.i < NE(m) /\ b.i2 < NT(m)
    [] b.k = "br"            -> b.i <= 1            \* emitted inside one block: depth 0 = the block, 1 = the function

B(fn, k, i, i2) == [fn |-> fn, k |-> k, i |-> i, i2 |-> i2]
Bodies(m) ==
  {B(1, "none", 0, 0)} \cup
  UNION {
    {B(j, k, i, 0) : k \in {"call", "return_call"}, i \in (0..(NF(m) - 1)) \cup Oob(NF(m))} \cup
    {B(j, k, i, i2) : k \in {"call_indirect", "return_call_indirect"}, i \in Near(m.ntypes), i2 \in {0, 1}} \cup
    {B(j, k, i, 0) : k \in {"global.get", "global.set"}, i \in Near(NG(m))} \cup
    {B(j, k, i, 0) : k \in {"local.get", "local.set"}, i \in {0, 1, 2, 99}} \cup
    {B(j, "ref.func", i, 0) : i \in (0..(NF(m) - 1)) \cup Oob(NF(m))} \cup
    {B(j, k, i, 0) : k \in {"table.get", "table.size"}, i \in Near(NT(m))} \cup
    {B(j, k, 0, 0) : k \in {"memory.size", "i32.load"}} \cup
    {B(j, k, i, 0) : k \in {"data.drop", "memory.init"}, i \in Near(ND(m))} \cup
    {B(j, "elem.drop", i, 0) : i \in Near(NE(m))} \cup
    {B(j, "table.init", i, i2) : i \in Near(NE(m)), i2 \in {0, 1}} \cup
    {B(j, "br", i, 0) : i \in {0, 1, 2, 99}}
    : j \in 1..Len(m.ftypes)}

(* ---- binary layout: every non-custom section at most once and in the order type, import, function, table, memory,
        global, export, start, element, data count, code, data; custom sections anywhere ---- *)
Present(m) == {1, 3, 10} \cup (IF m.imptypes # <<>> THEN {2} ELSE {}) \cup (IF m.table THEN {4} ELSE {}) \cup (IF m.mem THEN {5} ELSE {})
              \cup (IF m.glob # "none" THEN {6} ELSE {}) \cup (IF m.exports # <<>> THEN {7} ELSE {}) \cup (IF m.start >= 0 THEN {8} ELSE {})
              \cup (IF m.elem.mode # "none" THEN {9} ELSE {}) \cup (IF m.datacount >= 0 THEN {12} ELSE {}) \cup (IF m.data # "none" THEN {11} ELSE {})
Layouts(m) == {[k |-> "dup", sec |-> x] : x \in Present(m)} \cup       \* the section is followed by a copy of itself
              {[k |-> "move", sec |-> x] : x \in Present(m) \ {IF m.data # "none" THEN 11 ELSE 10}} \cup   \* swapped with the section after it
              {[k |-> "custom", sec |-> 0]}                              \* a custom section before every section and at the end
LayoutValid(m) == m.layout.k \in {"none", "custom"}

(* ---- module-level rules ---- *)
ExportOK(m, e) == CASE e.k = "func" -> e.i < NF(m) [] e.k = "table" -> e.i < NT(m) [] e.k = "mem" -> e.i < NM(m) [] e.k = "global" -> e.i < NG(m)
ModuleValid(m) ==
  /\ \A t \in Range(m.imptypes) \cup Range(m.ftypes) : t < m.ntypes
  /\ m.ncode = Len(m.ftypes)
  /\ \A k \in 1..Len(m.exports) : ExportOK(m, m.exports[k])
  /\ \A k1, k2 \in 1..Len(m.exports) : m.exports[k1].n = m.exports[k2].n => k1 = k2
  /\ m.start >= 0 => m.start < NF(m) /\ TypeIdx(m, m.start) = 0
  /\ \A f \in Range(m.elem.fs) : f < NF(m)
  /\ m.elem.mode = "active" => m.elem.tbl < NT(m)
  /\ m.data = "active" => NM(m) > 0
  /\ m.datacount >= 0 => m.datacount = ND(m)
Valid(m) == ModuleValid(m) /\ BodyValid(m, m.body) /\ LayoutValid(m)

(* ---- one replaced module-level reference ---- *)
Vary(m) ==
  {m} \cup
  {[m EXCEPT !.imptypes[k] = v] : k \in 1..Len(m.imptypes), v \in Oob(m.ntypes)} \cup
  {[m EXCEPT !.ftypes[k] = v] : k \in 1..Len(m.ftypes), v \in Oob(m.ntypes)} \cup
  {[m EXCEPT !.ncode = v] : v \in {Len(m.ftypes) - 1, Len(m.ftypes) + 1}} \cup
  {[m EXCEPT !.exports = Append(@, [n |-> "extra", k |-> "func", i |-> v])] : v \in Near(NF(m))} \cup
  {[m EXCEPT !.exports = Append(@, [n |-> "extra", k |-> k, i |-> v])] : k \in {"table", "mem", "global"}, v \in {0, 1, 99}} \cup
  {[m EXCEPT !.exports = Append(@, [n |-> "f0", k |-> "func", i |-> Len(m.imptypes)])]} \cup      \* duplicate name
  {[m EXCEPT !.start = v] : v \in (0..(NF(m) - 1)) \cup Oob(NF(m))} \cup
  (IF m.elem.mode = "none" THEN {} ELSE
     {[m EXCEPT !.elem.fs = <<v>>] : v \in Near(NF(m))} \cup {[m EXCEPT !.elem.fs = <<>>]}) \cup
  (IF m.elem.mode # "active" THEN {} ELSE {[m EXCEPT !.elem.tbl = v] : v \in {1, 99}}) \cup
  {[m EXCEPT !.datacount = v] : v \in {-1, 0, 1, 2}} \cup
  {[m EXCEPT !.layout = v] : v \in Layouts(m)}

VARIABLE c
Init == \E s \in Shapes : \E m \in Vary(s) : \E b \in (IF m.layout.k = "none" THEN Bodies(m) ELSE {B(1, "none", 0, 0), B(1, "call", Len(m.imptypes), 0)}) : c = [m EXCEPT !.body = b, !.valid = Valid([m EXCEPT !.body = b])]
Next == UNCHANGED c
Spec == Init /\ [][Next]_c
Emit == PrintT(<<"EMIT", ToJson(c)>>)
=============================================================================
