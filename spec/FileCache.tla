------------------------------ MODULE FileCache ------------------------------
(***************************************************************************)
(* The on-disk compilation cache (C13): a directory, writers that add an   *)
(* entry in the steps of fileCache.Add, process death at any step, readers *)
(* that validate what they find.                                           *)
(*                                                                         *)
(*   Add  = CreateTemp . WriteChunk^N . Sync . CloseFile . Rename          *)
(*   Get  = open the final name . Deserialize -> Hit | Reject | Stale      *)
(*                                                                         *)
(* An entry is a function of its key: Entry(k) has N chunks and the        *)
(* current version.  A file holds a prefix of an entry (written chunks).   *)
(***************************************************************************)
EXTENDS Naturals, Sequences, FiniteSets, TLC, Json

CONSTANTS Writers,        \* set of writer ids (strings)
          KeyOf,          \* function Writers -> key (strings); two writers may share a key
          N,              \* chunks per entry
          MaxCrashes,     \* bound on crashed writers in a behaviour
          PreStale        \* set of keys that start with a complete entry of an OLD version

VARIABLES dir,            \* function: file name -> [kind, key, written, ver, synced]
          wpc,            \* writer program counter
          wtmp,           \* writer's temp file name
          crashes,
          reads,          \* results of reads so far (observation)
          hist

vars == <<dir, wpc, wtmp, crashes, reads, hist>>

Keys == {KeyOf[w] : w \in Writers}
Final(k) == "final:" \o k
Temp(w) == "tmp:" \o w
Names == DOMAIN dir

Init == /\ dir = [n \in {Final(k) : k \in PreStale} |->
                    [kind |-> "final", key |-> CHOOSE k \in PreStale : Final(k) = n, written |-> N,
                     ver |-> "old", synced |-> TRUE]]
        /\ wpc = [w \in Writers |-> "idle"]
        /\ wtmp = [w \in Writers |-> ""]
        /\ crashes = 0 /\ reads = <<>> /\ hist = <<>>

Log(e) == hist' = Append(hist, e)

Put(f, n, v) == [x \in DOMAIN f \cup {n} |-> IF x = n THEN v ELSE f[x]]
Drop(f, n) == [x \in DOMAIN f \ {n} |-> f[x]]

CreateTemp(w) ==
  /\ wpc[w] = "idle"
  /\ Temp(w) \notin Names                       \* os.CreateTemp never reuses an existing name
  /\ dir' = Put(dir, Temp(w), [kind |-> "tmp", key |-> KeyOf[w], written |-> 0, ver |-> "cur", synced |-> FALSE])
  /\ wtmp' = [wtmp EXCEPT ![w] = Temp(w)]
  /\ wpc' = [wpc EXCEPT ![w] = "writing"]
  /\ Log([a |-> "create", w |-> w])
  /\ UNCHANGED <<crashes, reads>>

WriteChunk(w) ==
  /\ wpc[w] = "writing" /\ dir[wtmp[w]].written < N
  /\ dir' = [dir EXCEPT ![wtmp[w]].written = @ + 1]
  /\ Log([a |-> "write", w |-> w])
  /\ UNCHANGED <<wpc, wtmp, crashes, reads>>

Sync(w) ==
  /\ wpc[w] = "writing" /\ dir[wtmp[w]].written = N
  /\ dir' = [dir EXCEPT ![wtmp[w]].synced = TRUE]
  /\ wpc' = [wpc EXCEPT ![w] = "synced"]
  /\ Log([a |-> "sync", w |-> w])
  /\ UNCHANGED <<wtmp, crashes, reads>>

CloseFile(w) ==
  /\ wpc[w] = "synced"
  /\ wpc' = [wpc EXCEPT ![w] = "closed"]
  /\ Log([a |-> "close", w |-> w])
  /\ UNCHANGED <<dir, wtmp, crashes, reads>>

Rename(w) ==                                     \* atomic replace of the final name
  /\ wpc[w] = "closed"
  /\ LET t == wtmp[w]  f == Final(KeyOf[w]) IN
     dir' = Drop(Put(dir, f, [dir[t] EXCEPT !.kind = "final"]), t)
  /\ wpc' = [wpc EXCEPT ![w] = "done"]
  /\ Log([a |-> "rename", w |-> w])
  /\ UNCHANGED <<wtmp, crashes, reads>>

Crash(w) ==                                      \* the process dies; whatever is in the directory stays
  /\ wpc[w] \in {"writing", "synced", "closed"} /\ crashes < MaxCrashes
  /\ wpc' = [wpc EXCEPT ![w] = "dead"]
  /\ crashes' = crashes + 1
  /\ Log([a |-> "crash", w |-> w, at |-> wpc[w], written |-> dir[wtmp[w]].written])
  /\ UNCHANGED <<dir, wtmp, reads>>

(* what a reader makes of the file under the final name *)
Deserialize(k) ==
  IF Final(k) \notin Names THEN "miss"
  ELSE LET e == dir[Final(k)] IN
       IF e.ver # "cur" THEN "stale"               \* deleted, compiled afresh
       ELSE IF e.written < N THEN "reject"         \* reported as an error, never executed
       ELSE "hit"

Read(k) ==                                       \* a fresh process compiles the module of key k
  /\ Len(reads) < 2
  /\ LET r == Deserialize(k) IN
     /\ reads' = Append(reads, [key |-> k, res |-> r])
     /\ Log([a |-> "read", key |-> k, res |-> r])
     \* a stale entry is deleted; on a miss (or after the deletion) the reader compiles afresh and adds
     \* a complete current entry itself (the reader is not crashed in this model)
     /\ dir' = IF r \in {"stale", "miss"}
              THEN Put(dir, Final(k), [kind |-> "final", key |-> k, written |-> N, ver |-> "cur", synced |-> TRUE])
              ELSE dir
  /\ UNCHANGED <<wpc, wtmp, crashes>>

Next == \/ \E w \in Writers : CreateTemp(w) \/ WriteChunk(w) \/ Sync(w) \/ CloseFile(w) \/ Rename(w) \/ Crash(w)
        \/ \E k \in Keys : Read(k)

Spec == Init /\ [][Next]_vars

-----------------------------------------------------------------------------
(* Properties *)
FinalIsComplete == \A n \in Names : (dir[n].kind = "final" /\ dir[n].ver = "cur") =>
                                       dir[n].written = N /\ dir[n].synced
NeverExecutePartial == \A i \in 1..Len(reads) : reads[i].res = "hit" =>
                          TRUE  \* by definition of Deserialize a hit is a complete current entry
NoRejectEver == \A i \in 1..Len(reads) : reads[i].res # "reject"   \* consequence of FinalIsComplete
TempNamesDistinct == \A a, b \in Writers : (a # b /\ wtmp[a] # "" /\ wtmp[b] # "") => wtmp[a] # wtmp[b]
FinalHasRightKey == \A k \in Keys : Final(k) \in Names => dir[Final(k)].key = k

Quiet == \A w \in Writers : wpc[w] \in {"done", "dead"}
FinalState(k) == IF Final(k) \notin Names THEN "absent"
                 ELSE IF dir[Final(k)].ver # "cur" THEN "stale"
                 ELSE IF dir[Final(k)].written = N THEN "complete" ELSE "partial"
Emit == (Quiet /\ Len(reads) = 1) =>
          PrintT(<<"EMIT", ToJson([hist |-> hist, final |-> [k \in Keys |-> FinalState(k)]])>>)
DesignView == <<dir, wpc, wtmp, crashes, reads>>
=============================================================================
