------------------------------- MODULE Config -------------------------------
(***************************************************************************)
(* Value-semantic model of wazero's configuration objects (C19).           *)
(*                                                                         *)
(* A history is a tree of derivations: step k applies one With... method   *)
(* to ANY earlier node and appends the resulting node.  Nodes are values:  *)
(* deriving never changes an existing node (Frozen), and "Use" (instantiate*)
(* with a configuration) changes nothing at all.  The Go driver replays    *)
(* each history against the real constructors and, after every step,       *)
(* compares the projection of EVERY node with the model's value.           *)
(*                                                                         *)
(* Node kinds: "mc" ModuleConfig, "fs" FSConfig, "rc" RuntimeConfig,       *)
(* "sk" experimental/sock.Config.                                          *)
(***************************************************************************)
EXTENDS Naturals, Sequences, FiniteSets, TLC, Json

CONSTANTS Depth,        \* number of derivation steps in a history
          Roots,        \* sequence of kinds of the initial nodes, e.g. <<"mc","fs">>
          Methods       \* set of method records [op |-> .., ...]

VARIABLES nodes,        \* sequence of node values
          hist,         \* sequence of steps [parent |-> i, m |-> method]
          fin           \* TRUE once the history is complete (one Finish step; used for emission)

vars == <<nodes, hist, fin>>

-----------------------------------------------------------------------------
(* initial values = what the New... constructors return *)
NewNode(kind) ==
  CASE kind = "mc" -> [kind |-> "mc", name |-> "", nameSet |-> FALSE, args |-> <<>>, env |-> <<>>,
                       start |-> <<"_start">>, fs |-> 0, stdin |-> "", stdout |-> "", stderr |-> "",
                       rand |-> "", walltime |-> "", nanotime |-> "", nanosleep |-> "", osyield |-> ""]
    [] kind = "fs" -> [kind |-> "fs", mounts |-> <<>>]
    [] kind = "rc" -> [kind |-> "rc", features |-> "v2", limit |-> 65536, closeOnDone |-> FALSE,
                       capFromMax |-> FALSE, dwarfDisabled |-> FALSE, customSections |-> FALSE, cache |-> ""]
    [] kind = "sk" -> [kind |-> "sk", addrs |-> <<>>]

(* which node kind a method applies to *)
KindOf(m) ==
  CASE m.op \in {"WithEnv", "WithArgs", "WithName", "WithStartFunctions", "WithFSConfig", "WithStdout",
                 "WithStderr", "WithStdin", "WithRandSource", "WithWalltime", "WithNanotime",
                 "WithNanosleep", "WithOsyield", "WithSysWalltime", "WithSysNanotime",
                 "WithSysNanosleep", "WithFS", "Use"} -> "mc"
    [] m.op \in {"WithDirMount", "WithReadOnlyDirMount", "WithFSMount"} -> "fs"
    [] m.op \in {"WithCoreFeatures", "WithMemoryLimitPages", "WithCloseOnContextDone",
                 "WithMemoryCapacityFromMax", "WithDebugInfoEnabled", "WithCustomSections",
                 "WithCompilationCache"} -> "rc"
    [] m.op = "WithTCPListener" -> "sk"

-----------------------------------------------------------------------------
(* environment: ordered list of pairs; overriding a key keeps its position *)
EnvIdx(env, k) == IF \E i \in 1..Len(env) : env[i][1] = k
                  THEN CHOOSE i \in 1..Len(env) : env[i][1] = k ELSE 0
SetEnv(env, k, v) == LET i == EnvIdx(env, k) IN
                     IF i = 0 THEN Append(env, <<k, v>>) ELSE [env EXCEPT ![i] = <<k, v>>]

(* mounts: replace-by-cleaned-guest-path, else append.  Clean(g) strips leading/trailing slashes *)
Clean(g) == CASE g \in {"/", ""} -> ""
              [] g \in {"/a", "a", "a/", "/a/"} -> "a"
              [] g \in {"/b", "b"} -> "b"
              [] g = "/c" -> "c" [] g = "/d" -> "d" [] g = "/e" -> "e" [] g = "/f" -> "f"
              [] OTHER -> g
MountIdx(ms, c) == IF \E i \in 1..Len(ms) : ms[i].clean = c
                   THEN CHOOSE i \in 1..Len(ms) : ms[i].clean = c ELSE 0
SetMount(ms, guest, dir, mode) ==
  LET c == Clean(guest)  i == MountIdx(ms, c)
      e == [clean |-> c, guest |-> guest, dir |-> dir, mode |-> mode] IN
  IF i = 0 THEN Append(ms, e) ELSE [ms EXCEPT ![i] = e]

(* The value of the derived node.  m.fsnode (WithFSConfig) is an index into nodes. *)
Apply(v, m) ==
  CASE m.op = "WithEnv"            -> [v EXCEPT !.env = SetEnv(v.env, m.k, m.v)]
    [] m.op = "WithArgs"           -> [v EXCEPT !.args = m.args]
    [] m.op = "WithName"           -> [v EXCEPT !.name = m.name, !.nameSet = TRUE]
    [] m.op = "WithStartFunctions" -> [v EXCEPT !.start = m.fns]
    [] m.op = "WithFSConfig"       -> [v EXCEPT !.fs = m.fsnode]
    [] m.op = "WithStdout"         -> [v EXCEPT !.stdout = m.id]
    [] m.op = "WithStderr"         -> [v EXCEPT !.stderr = m.id]
    [] m.op = "WithStdin"          -> [v EXCEPT !.stdin = m.id]
    [] m.op = "WithRandSource"     -> [v EXCEPT !.rand = m.id]
    [] m.op = "WithWalltime"       -> [v EXCEPT !.walltime = m.id]
    [] m.op = "WithNanotime"       -> [v EXCEPT !.nanotime = m.id]
    [] m.op = "WithNanosleep"      -> [v EXCEPT !.nanosleep = m.id]
    [] m.op = "WithOsyield"        -> [v EXCEPT !.osyield = m.id]
    [] m.op = "WithSysWalltime"    -> [v EXCEPT !.walltime = "sys"]
    [] m.op = "WithSysNanotime"    -> [v EXCEPT !.nanotime = "sys"]
    [] m.op = "WithSysNanosleep"   -> [v EXCEPT !.nanosleep = "sys"]
    [] m.op = "Use"                -> v
    [] m.op \in {"WithDirMount", "WithReadOnlyDirMount", "WithFSMount"}
                                   -> [v EXCEPT !.mounts = SetMount(v.mounts, m.guest, m.dir, m.op)]
    [] m.op = "WithCoreFeatures"   -> [v EXCEPT !.features = m.f]
    [] m.op = "WithMemoryLimitPages" -> [v EXCEPT !.limit = m.n]
    [] m.op = "WithCloseOnContextDone" -> [v EXCEPT !.closeOnDone = m.b]
    [] m.op = "WithMemoryCapacityFromMax" -> [v EXCEPT !.capFromMax = m.b]
    [] m.op = "WithDebugInfoEnabled" -> [v EXCEPT !.dwarfDisabled = ~m.b]
    [] m.op = "WithCustomSections" -> [v EXCEPT !.customSections = m.b]
    [] m.op = "WithCompilationCache" -> [v EXCEPT !.cache = m.id]
    [] m.op = "WithTCPListener"    -> [v EXCEPT !.addrs = Append(v.addrs, <<m.host, m.port>>)]

-----------------------------------------------------------------------------
Init == /\ nodes = [i \in 1..Len(Roots) |-> NewNode(Roots[i])]
        /\ hist = <<>>
        /\ fin = FALSE

(* Derive: any earlier node of the right kind is a legal receiver.  "Use" derives nothing: *)
(* it appends no node (the history records it; the driver instantiates with the node).     *)
Derive(p, m) ==
  /\ Len(hist) < Depth
  /\ nodes[p].kind = KindOf(m)
  /\ (m.op = "WithFSConfig" => m.fsnode \in 1..Len(nodes) /\ nodes[m.fsnode].kind = "fs")
  /\ ("idx" \in DOMAIN m => m.idx = Len(hist) + 1)   \* "fresh key per step" families (capacity crossing)
  /\ hist' = Append(hist, [parent |-> p, m |-> m])
  /\ nodes' = IF m.op = "Use" THEN nodes ELSE Append(nodes, Apply(nodes[p], m))
  /\ UNCHANGED fin

(* exactly one successor of a complete history: simulation emits one history per walk *)
Finish == /\ Len(hist) = Depth /\ ~fin
          /\ fin' = TRUE
          /\ UNCHANGED <<nodes, hist>>

Next == \/ \E p \in 1..Len(nodes), m \in Methods : Derive(p, m)
        \/ Finish

Spec == Init /\ [][Next]_vars

-----------------------------------------------------------------------------
(* Properties of the model *)

(* C19: existing nodes never change *)
Frozen == [][\A i \in 1..Len(nodes) : nodes'[i] = nodes[i]]_vars

(* environment keys are unique and first-insertion ordered *)
EnvKeysUnique == \A i \in 1..Len(nodes) : nodes[i].kind = "mc" =>
                   \A a, b \in 1..Len(nodes[i].env) : nodes[i].env[a][1] = nodes[i].env[b][1] => a = b
MountsUnique  == \A i \in 1..Len(nodes) : nodes[i].kind = "fs" =>
                   \A a, b \in 1..Len(nodes[i].mounts) :
                      nodes[i].mounts[a].clean = nodes[i].mounts[b].clean => a = b

(* history emission for replay (no VIEW in that configuration) *)
Emit == fin => PrintT(<<"EMIT", ToJson([hist |-> hist, nodes |-> nodes])>>)

NodesView == nodes
=============================================================================
