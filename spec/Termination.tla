---------------------------- MODULE Termination ----------------------------
(***************************************************************************)
(* Close-on-context-done (C07): a running guest is stopped by cancelling   *)
(* its context, by its deadline or by closing its module.                  *)
(*                                                                         *)
(* A guest is a set of functions; a function is a sequence of nodes        *)
(*    work | back(k) | call(f) | calli(f) | rcall(f) | rcalli(f) |         *)
(*    host(f) (a host function that calls back into f) | ret               *)
(* Each function belongs to a module ("app" is the module whose export     *)
(* was called; "lib" is another instance).  The environment closes "app"   *)
(* (Cancel).  An exit-code CHECK returns ExitError when the polled module  *)
(* is closed.  WHERE checks are placed and WHICH module they poll are      *)
(* parameters:                                                             *)
(*    CheckLoops      a check on every loop back edge                      *)
(*    CheckTailCalls  a check before every return_call(_indirect)          *)
(*    Polls           "entry"  the module whose export was called          *)
(*                    "caller" the module of the function that called the  *)
(*                             running function (the interpreter)          *)
(* Property Stops: once cancelled, the call eventually returns (under weak *)
(* fairness of guest steps).  Frames are bounded (stack overflow is a      *)
(* return, as the property allows).                                        *)
(***************************************************************************)
EXTENDS Integers, Sequences, FiniteSets, TLC

CONSTANTS Prog,            \* [fn -> [mod, body]] ; execution starts in "main"
          CheckLoops, CheckTailCalls, Polls,
          Ceiling          \* frame bound

VARIABLES stack,           \* sequence of [fn, pc, caller module]
          cancelled, done

vars == <<stack, cancelled, done>>

N(k, a) == [k |-> k, a |-> a]
Top == stack[Len(stack)]
Node == Prog[Top.fn].body[Top.pc]
ModOf(f) == Prog[f].mod

Init == stack = <<[fn |-> "main", pc |-> 1, cm |-> "app"]>> /\ cancelled = FALSE /\ done = "no"

Cancel == ~cancelled /\ done = "no" /\ cancelled' = TRUE /\ UNCHANGED <<stack, done>>

(* the module a check in the running function polls *)
Polled == IF Polls = "entry" THEN "app" ELSE Top.cm
CheckFires == cancelled /\ Polled = "app"       \* only "app" is ever closed

Advance == stack' = [stack EXCEPT ![Len(stack)].pc = @ + 1]
Push(f) == IF Len(stack) >= Ceiling THEN done' = "overflow" /\ UNCHANGED stack
           ELSE stack' = Append([stack EXCEPT ![Len(stack)].pc = @ + 1], [fn |-> f, pc |-> 1, cm |-> ModOf(Top.fn)]) /\ UNCHANGED done
Replace(f) == stack' = [stack EXCEPT ![Len(stack)] = [fn |-> f, pc |-> 1, cm |-> Top.cm]]

Step ==
  /\ done = "no"
  /\ LET n == Node IN
     CASE n.k = "work" -> Advance /\ UNCHANGED done
       [] n.k = "back" -> IF CheckLoops /\ CheckFires THEN done' = "exit" /\ UNCHANGED stack
                          ELSE stack' = [stack EXCEPT ![Len(stack)].pc = n.a] /\ UNCHANGED done
       [] n.k \in {"call", "calli", "host"} -> Push(n.a)
       [] n.k \in {"rcall", "rcalli"} -> IF CheckTailCalls /\ CheckFires THEN done' = "exit" /\ UNCHANGED stack
                                          ELSE Replace(n.a) /\ UNCHANGED done
       [] n.k = "ret" -> IF Len(stack) = 1 THEN done' = "returned" /\ UNCHANGED stack
                         ELSE stack' = SubSeq(stack, 1, Len(stack) - 1) /\ UNCHANGED done
  /\ UNCHANGED cancelled

Next == Cancel \/ Step
Spec == Init /\ [][Next]_vars /\ WF_vars(Step) /\ WF_vars(Cancel)

Stops == cancelled ~> (done # "no")
ExitKind == [](done = "exit" => cancelled)
=============================================================================
