---------------------------- MODULE Termination ----------------------------
(***************************************************************************)
(* Close-on-context-done (C07): a running guest is stopped by cancelling   *)
(* its context, by its deadline or by closing its module.                  *)
(*                                                                         *)
(* A guest is a set of functions; a function is a sequence of nodes        *)
(*    work | back(k) | call(f) | calli(f) | rcall(f) | rcalli(f) |         *)
(*    host(f) (a host function that calls back into f) | ret               *)
(*    hostd(f) the same, the callback runs under a DERIVED context with    *)
(*             its own deadline (whose expiry closes the module as well)   *)
(*    hosts(f) the same, but the host function swallows the callback's     *)
(*             error and returns normally: the caller continues            *)
(* Each function belongs to a module ("app" is the module whose export     *)
(* was called; "lib" is another instance).  The environment closes "app"   *)
(* (Cancel).  An exit-code CHECK returns ExitError when the polled module  *)
(* is closed.  WHERE checks are placed and WHICH module they poll are      *)
(* parameters:                                                             *)
(*    CheckLoops      a check on every loop back edge                      *)
(*    CheckTailCalls  a check before every return_call(_indirect)          *)
(*    Polls           "entry"  the module whose export was called          *)
(*                    "caller" the module of the function that called the  *)
(*                             running function (the interpreter)          *)
(* Property Stops: once cancelled, the call eventually returns (under weak *)
(* fairness of guest steps).  Frames are bounded (stack overflow is a      *)
(* return, as the property allows).                                        *)
(***************************************************************************)
EXTENDS Integers, Sequences, FiniteSets, TLC

CONSTANTS Prog,            \* [fn -> [mod, body]] ; execution starts in "main"
          CheckLoops, CheckTailCalls, Polls,
          Ceiling          \* frame bound

VARIABLES stack,           \* sequence of [fn, pc, caller module]
          cancelled, done

vars == <<stack, cancelled, done>>

N(k, a) == [k |-> k, a |-> a]
Top == stack[Len(stack)]
Node == Prog[Top.fn].body[Top.pc]
ModOf(f) == Prog[f].mod

Init == stack = <<[fn |-> "main", pc |-> 1, cm |-> "app", sw |-> FALSE]>> /\ cancelled = FALSE /\ done = "no"

Cancel == ~cancelled /\ done = "no" /\ cancelled' = TRUE /\ UNCHANGED <<stack, done>>

(* the module a check in the running function polls *)
Polled == IF Polls = "entry" THEN "app" ELSE Top.cm
CheckFires == cancelled /\ Polled = "app"       \* only "app" is ever closed

Advance == stack' = [stack EXCEPT ![Len(stack)].pc = @ + 1]
PushSw(f, sw) == IF Len(stack) >= Ceiling THEN done' = "overflow" /\ UNCHANGED stack
                 ELSE stack' = Append([stack EXCEPT ![Len(stack)].pc = @ + 1], [fn |-> f, pc |-> 1, cm |-> ModOf(Top.fn), sw |-> sw]) /\ UNCHANGED done
Push(f) == PushSw(f, FALSE)
Replace(f) == stack' = [stack EXCEPT ![Len(stack)] = [fn |-> f, pc |-> 1, cm |-> Top.cm, sw |-> Top.sw]]
(* a check that fires ends the innermost Go->guest entry with the exit error; a host function that swallows it lets its
   caller continue (the module stays closed, so the caller's own checks fire next) *)
SwFrames == {j \in 1..Len(stack) : stack[j].sw}
ExitHere == IF SwFrames = {} THEN done' = "exit" /\ UNCHANGED stack
            ELSE LET j == CHOOSE x \in SwFrames : \A y \in SwFrames : y <= x IN
                 stack' = SubSeq(stack, 1, j - 1) /\ UNCHANGED done

Step ==
  /\ done = "no"
  /\ LET n == Node IN
     CASE n.k = "work" -> Advance /\ UNCHANGED done
       [] n.k = "back" -> IF CheckLoops /\ CheckFires THEN ExitHere
                          ELSE stack' = [stack EXCEPT ![Len(stack)].pc = n.a] /\ UNCHANGED done
       [] n.k \in {"call", "calli", "host", "hostd"} -> Push(n.a)
       [] n.k = "hosts" -> PushSw(n.a, TRUE)
       [] n.k \in {"rcall", "rcalli"} -> IF CheckTailCalls /\ CheckFires THEN ExitHere
                                          ELSE Replace(n.a) /\ UNCHANGED done
       [] n.k = "ret" -> IF Len(stack) = 1 THEN done' = "returned" /\ UNCHANGED stack
                         ELSE stack' = SubSeq(stack, 1, Len(stack) - 1) /\ UNCHANGED done
  /\ UNCHANGED cancelled

Next == Cancel \/ Step
Spec == Init /\ [][Next]_vars /\ WF_vars(Step) /\ WF_vars(Cancel)

Stops == cancelled ~> (done # "no")
ExitKind == [](done = "exit" => cancelled)
=============================================================================
