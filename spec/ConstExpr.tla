------------------------------ MODULE ConstExpr ------------------------------
(***************************************************************************)
(* Constant expressions (C03): global initialisers and the offsets of      *)
(* active data / element segments.  A constant expression is one of        *)
(*   t.const c | global.get k | ref.func i | ref.null t                    *)
(* and is valid iff                                                        *)
(*   global.get k : k names an IMPORTED, IMMUTABLE global (its type is the *)
(*                  expression's type)                                     *)
(*   ref.func i   : i < number of functions           (type funcref)       *)
(* and the expression's type equals the type the context demands (the      *)
(* global's declared type; i32 for offsets).  TLC enumerates every module  *)
(* shape x expression x context and labels it valid or invalid.            *)
(***************************************************************************)
EXTENDS Integers, Sequences, FiniteSets, TLC, Json

GImports == {<<>>, <<[t |-> "i32", mut |-> FALSE]>>, <<[t |-> "i32", mut |-> TRUE]>>, <<[t |-> "i64", mut |-> FALSE]>>,
             <<[t |-> "i32", mut |-> FALSE], [t |-> "funcref", mut |-> FALSE]>>}
Exprs == {[k |-> "i32.const", i |-> 0], [k |-> "i64.const", i |-> 0], [k |-> "f32.const", i |-> 0], [k |-> "f64.const", i |-> 0]} \cup
         {[k |-> "global.get", i |-> i] : i \in 0..2} \cup {[k |-> "ref.func", i |-> i] : i \in 0..2} \cup
         {[k |-> "ref.null", i |-> i] : i \in 0..1}          \* 0 = funcref, 1 = externref
Contexts == {[c |-> "global", t |-> t] : t \in {"i32", "i64", "f32", "funcref", "externref"}} \cup {[c |-> "data", t |-> "i32"], [c |-> "elem", t |-> "i32"]}

TypeOf(e, nfuncs, gi) ==
  CASE e.k = "i32.const" -> "i32" [] e.k = "i64.const" -> "i64" [] e.k = "f32.const" -> "f32" [] e.k = "f64.const" -> "f64"
    [] e.k = "global.get" -> IF e.i < Len(gi) /\ ~gi[e.i + 1].mut THEN gi[e.i + 1].t ELSE "INVALID"
    [] e.k = "ref.func" -> IF e.i < nfuncs THEN "funcref" ELSE "INVALID"
    [] e.k = "ref.null" -> IF e.i = 0 THEN "funcref" ELSE "externref"

Valid(e, c, nfuncs, gi) == TypeOf(e, nfuncs, gi) = c.t

Cases == {[nfuncs |-> n, gimports |-> gi, expr |-> e, ctx |-> c, valid |-> Valid(e, c, n, gi)] :
          n \in 0..2, gi \in GImports, e \in Exprs, c \in Contexts}

VARIABLE done
Init == done = FALSE
Next == ~done /\ done' = TRUE
Spec == Init /\ [][Next]_done
RECURSIVE SetToSeq(_)
SetToSeq(S) == IF S = {} THEN <<>> ELSE LET x == CHOOSE y \in S : TRUE IN <<x>> \o SetToSeq(S \ {x})
Emit == done => PrintT(<<"EMIT", ToJson(SetToSeq(Cases))>>)
(* sanity: both verdicts occur for every context and every expression kind *)
NonVacuous == \A c \in Contexts : (\E x \in Cases : x.ctx = c /\ x.valid) /\ (\E x \in Cases : x.ctx = c /\ ~x.valid)
=============================================================================
