------------------------- MODULE WaitNotifyTrace -------------------------
(* Is a recorded concurrent execution of memory.atomic.wait32 / notify / atomic store (hooks H3 + the driver's
   begin / end lines) a behaviour of WaitNotify.tla with the time-out as coded?  The hook events are emitted under the
   waiters' lock (enqueue, notequal, notify, timeout-removed) or right after the blocking select (woken, timeout-fired). *)
EXTENDS WaitNotify, Json, IOUtils

Trace == ndJsonDeserialize("trace.ndjson")
VARIABLES l,        \* next line
          want,     \* [agent -> the operand of the operation it has begun: exp of wait, count of notify, value of store; -1 none]
          kind,     \* [agent -> "wait" | "notify" | "store" | ""]
          last      \* [agent -> what its last operation returned (-2: a store that has taken effect)]
tvars == <<vars, l, want, kind, last>>

Line == Trace[l]
IsEvent(e) == l <= Len(Trace) /\ Line.ev = e /\ l' = l + 1

TInit == Init /\ l = 1 /\ want = [a \in Agents |-> -1] /\ last = [a \in Agents |-> -1] /\ kind = [a \in Agents |-> ""]

TReset == /\ IsEvent("reset")
          /\ cell' = Line.cell /\ queue' = <<>> /\ pc' = [a \in Agents |-> "idle"] /\ finite' = [a \in Agents |-> FALSE]
          /\ woken' = [a \in Agents |-> FALSE] /\ nops' = [a \in Agents |-> 0] /\ counted' = 0 /\ ret0' = 0 /\ ret2' = 0
          /\ want' = [a \in Agents |-> -1] /\ last' = [a \in Agents |-> -1] /\ kind' = [a \in Agents |-> ""]
TBegin == /\ IsEvent("begin") /\ pc[Line.a] = "idle"
          /\ want' = [want EXCEPT ![Line.a] = Line.x] /\ kind' = [kind EXCEPT ![Line.a] = Line.op] /\ UNCHANGED <<vars, last>>
(* The comparison of a wait happens under the waiters' lock, but the hook line is written a little later (the recorder has
   its own lock): an atomic store bracketed entirely in between would appear before it.  So the comparison-and-enqueue step
   is placed by TLC anywhere after the begin line (last = -3: enqueued, 1: not equal) and the hook line confirms it; its
   order against notify - which takes the same lock and logs under it - is fixed by the logged results. *)
WaitNow(a) == /\ kind[a] = "wait" /\ last[a] = -1 /\ pc[a] = "idle" /\ Wait(a, want[a], TRUE)
              /\ last' = [last EXCEPT ![a] = IF cell = want[a] THEN -3 ELSE 1] /\ UNCHANGED <<want, kind, l>>
TEnqueue == /\ IsEvent("enqueue") /\ last[Line.a] = -3 /\ UNCHANGED <<vars, want, kind, last>>
TNotEqual == /\ IsEvent("notequal") /\ last[Line.a] = 1 /\ UNCHANGED <<vars, want, kind, last>>
(* the atomic store is lock free and not logged: it happens somewhere between its begin and end lines *)
StoreNow(a) == /\ kind[a] = "store" /\ last[a] = -1 /\ Store(a, want[a]) /\ last' = [last EXCEPT ![a] = -2] /\ UNCHANGED <<want, kind, l>>
(* notify: one line per woken waiter (written before its channel is closed, so before that waiter can log anything) and a
   final line with the count.  The atomic step of the model happens at the first of these lines. *)
TNotifyOne == /\ IsEvent("notify-one")
              /\ IF last[Line.a] = -1
                 THEN /\ Notify(Line.a, want[Line.a]) /\ woken'[Line.b]
                      /\ last' = [last EXCEPT ![Line.a] = counted' - counted]
                 ELSE /\ woken[Line.b] /\ UNCHANGED <<vars, last>>
              /\ UNCHANGED <<want, kind>>
TNotify == /\ IsEvent("notify")
           /\ IF last[Line.a] = -1
              THEN /\ Notify(Line.a, want[Line.a]) /\ counted' - counted = Line.n /\ last' = [last EXCEPT ![Line.a] = Line.n]
              ELSE /\ last[Line.a] = Line.n /\ UNCHANGED <<vars, last>>
           /\ UNCHANGED <<want, kind>>
TWoken == /\ IsEvent("woken") /\ WakeUp(Line.a) /\ last' = [last EXCEPT ![Line.a] = 0] /\ UNCHANGED <<want, kind>>
TFired == /\ IsEvent("timeout-fired") /\ TimeoutFire(Line.a) /\ UNCHANGED <<want, kind, last>>
TRemoved == /\ IsEvent("timeout-removed") /\ TimeoutRemove(Line.a) /\ last' = [last EXCEPT ![Line.a] = 2] /\ UNCHANGED <<want, kind>>
(* notify returns early, without the lock, while no list exists for the address yet: an unlogged step (the list is empty) *)
NotifyEarly(a) == /\ kind[a] = "notify" /\ last[a] = -1 /\ pc[a] = "idle" /\ queue = <<>> /\ Notify(a, want[a])
                  /\ last' = [last EXCEPT ![a] = 0] /\ UNCHANGED <<want, kind, l>>
TEnd == /\ IsEvent("end") /\ pc[Line.a] = "idle" /\ last[Line.a] = Line.ret
        /\ want' = [want EXCEPT ![Line.a] = -1] /\ last' = [last EXCEPT ![Line.a] = -1] /\ kind' = [kind EXCEPT ![Line.a] = ""] /\ UNCHANGED vars

TNext == TReset \/ TBegin \/ TEnqueue \/ TNotEqual \/ TNotify \/ TNotifyOne \/ TWoken \/ TFired \/ TRemoved \/ TEnd
         \/ \E a \in Agents : NotifyEarly(a) \/ StoreNow(a) \/ WaitNow(a)
TraceSpec == TInit /\ [][TNext]_tvars

ASSUME TLCSet(1, 0)
HighWater == TLCSet(1, IF l > TLCGet(1) THEN l ELSE TLCGet(1))
Post == PrintT(<<"HIGHWATER", TLCGet(1), Len(Trace)>>) /\ TLCGet(1) = Len(Trace) + 1
TAgents == {"a1", "a2", "a3", "a4"}
=============================================================================
