----------------------------- MODULE WaitNotify -----------------------------
(***************************************************************************)
(* memory.atomic.wait32/64 and memory.atomic.notify on one shared memory   *)
(* cell (threads proposal), at the grain of wazero's implementation        *)
(* (internal/wasm/memory.go: Wait32 / wait / Notify).  Beyond the listed   *)
(* properties: real concurrency of agents (goroutines).                    *)
(*                                                                         *)
(*   wait(exp, timeout):  under w.mux: read the cell; if it differs from   *)
(*       exp return 1 ("not-equal"); else append the agent to the FIFO     *)
(*       list of waiters, release the lock and block.  Woken -> 0.         *)
(*       A finite timeout may fire while blocked: the agent then takes the *)
(*       lock again, removes itself from the list and returns 2.           *)
(*   notify(count):  under w.mux: remove up to count waiters from the      *)
(*       front of the list, wake each, return how many.                    *)
(*   store(v): atomic store to the cell.                                   *)
(*                                                                         *)
(* TimeoutAtomic = TRUE is what the threads specification describes (the   *)
(* agent is taken off the list in the same critical step as the time-out); *)
(* FALSE is the code: the time-out is noticed first (select), the list is  *)
(* updated later under the lock - a notify in between removes and COUNTS   *)
(* the agent, which nevertheless returns 2.                                *)
(***************************************************************************)
EXTENDS Integers, Sequences, FiniteSets, TLC

CONSTANTS Agents,          \* set of agents
          Vals,            \* values of the cell
          MaxOps,          \* operations per agent
          TimeoutAtomic    \* see above

VARIABLES cell,            \* the shared cell
          queue,           \* FIFO list of blocked agents
          pc,              \* [agent -> "idle" | "blocked" | "timedout" (timer fired, lock not yet taken)]
          finite,          \* [agent -> the current wait has a finite timeout]
          woken,           \* [agent -> its channel has been closed by a notify]
          nops,            \* operations started per agent
          counted,         \* sum of the values returned by notify so far
          ret0, ret2       \* number of waits that returned 0 ("ok") / 2 ("timed-out")

vars == <<cell, queue, pc, finite, woken, nops, counted, ret0, ret2>>

Init == /\ cell \in Vals /\ queue = <<>>
        /\ pc = [a \in Agents |-> "idle"] /\ finite = [a \in Agents |-> FALSE] /\ woken = [a \in Agents |-> FALSE]
        /\ nops = [a \in Agents |-> 0] /\ counted = 0 /\ ret0 = 0 /\ ret2 = 0

Remove(q, a) == SelectSeq(q, LAMBDA x : x # a)
InQueue(a) == \E i \in 1..Len(queue) : queue[i] = a
Start(a) == pc[a] = "idle" /\ nops[a] < MaxOps /\ nops' = [nops EXCEPT ![a] = @ + 1]

(* wait: the comparison and the enqueueing are one critical section *)
Wait(a, exp, fin) ==
  /\ Start(a)
  /\ IF cell # exp
     THEN UNCHANGED <<queue, pc, finite, woken>>                       \* returns 1
     ELSE /\ queue' = Append(queue, a) /\ pc' = [pc EXCEPT ![a] = "blocked"]
          /\ finite' = [finite EXCEPT ![a] = fin] /\ woken' = [woken EXCEPT ![a] = FALSE]
  /\ UNCHANGED <<cell, counted, ret0, ret2>>

Store(a, v) == /\ Start(a) /\ cell' = v /\ UNCHANGED <<queue, pc, finite, woken, counted, ret0, ret2>>

Notify(a, count) ==
  /\ Start(a)
  /\ LET n == IF Len(queue) < count THEN Len(queue) ELSE count
         taken == SubSeq(queue, 1, n) IN
     /\ queue' = SubSeq(queue, n + 1, Len(queue))
     /\ woken' = [b \in Agents |-> IF \E i \in 1..n : taken[i] = b THEN TRUE ELSE woken[b]]
     /\ counted' = counted + n
  /\ UNCHANGED <<cell, pc, finite, ret0, ret2>>

(* a blocked agent whose channel was closed returns 0 *)
WakeUp(a) ==
  /\ pc[a] = "blocked" /\ woken[a]
  /\ pc' = [pc EXCEPT ![a] = "idle"] /\ ret0' = ret0 + 1
  /\ UNCHANGED <<cell, queue, finite, woken, nops, counted, ret2>>

(* the timer of a finite wait fires.  Atomic variant: the agent leaves the list in the same step and returns 2.
   As coded: select takes the timer branch (even if the channel has been closed meanwhile: "prioritising the timeout");
   the list is updated in a later step. *)
TimeoutFire(a) ==
  /\ pc[a] = "blocked" /\ finite[a]
  /\ IF TimeoutAtomic
     THEN /\ ~woken[a]
          /\ queue' = Remove(queue, a) /\ pc' = [pc EXCEPT ![a] = "idle"] /\ ret2' = ret2 + 1
     ELSE /\ pc' = [pc EXCEPT ![a] = "timedout"] /\ UNCHANGED <<queue, ret2>>
  /\ UNCHANGED <<cell, finite, woken, nops, counted, ret0>>

TimeoutRemove(a) ==      \* under the lock: remove the element (a no-op if a notify already did), return 2
  /\ pc[a] = "timedout"
  /\ queue' = Remove(queue, a) /\ pc' = [pc EXCEPT ![a] = "idle"] /\ ret2' = ret2 + 1
  /\ UNCHANGED <<cell, finite, woken, nops, counted, ret0>>

Next == \E a \in Agents :
          \/ \E e \in Vals : \E f \in BOOLEAN : Wait(a, e, f)
          \/ \E v \in Vals : Store(a, v)
          \/ \E c \in 1..2 : Notify(a, c)
          \/ WakeUp(a) \/ TimeoutFire(a) \/ TimeoutRemove(a)
Spec == Init /\ [][Next]_vars

-----------------------------------------------------------------------------
(* every agent counted by a notify returns 0, and only those do: at any time the waits that returned 0 plus the agents
   already woken but not yet running again equal the sum of the notify results *)
PendingWoken == Cardinality({a \in Agents : pc[a] # "idle" /\ woken[a]})
NotifyCountsWakeups == ret0 + PendingWoken = counted
(* the list holds exactly the blocked agents that were not woken *)
QueueExact == \A a \in Agents : InQueue(a) <=> (pc[a] \in {"blocked", "timedout"} /\ ~woken[a])
NoDuplicates == \A i, j \in 1..Len(queue) : queue[i] = queue[j] => i = j
(* a woken agent never reports a time-out (what the specification's atomic time-out guarantees) *)
WokenNeverTimesOut == \A a \in Agents : ~(pc[a] = "timedout" /\ woken[a])
=============================================================================
