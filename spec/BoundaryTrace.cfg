SPECIFICATION Spec
CONSTRAINT HighWater
POSTCONDITION Post
CHECK_DEADLOCK FALSE
