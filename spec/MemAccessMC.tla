---------------------------- MODULE MemAccessMC ----------------------------
EXTENDS MemAccess
(* static offsets as <<units, delta>>: 0, 8, one unit, 2^31, 2^32-1 *)
Acc(v, ou, od, w, st) == [t |-> "acc", v |-> v, ou |-> ou, od |-> od, w |-> w, st |-> st]
AccSmall == {Acc(v, 0, od, w, st) : v \in {0, 1}, od \in {0, 8}, w \in {1, 8}, st \in BOOLEAN}
AccWide  == {Acc(v, o[1], o[2], w, st) : v \in {0, 1}, o \in {<<0, 0>>, <<0, 1>>, <<0, 8>>, <<1, 0>>, <<TopU \div 2, 0>>, <<TopU, -1>>},
                                         w \in {1, 2, 4, 8, 16}, st \in BOOLEAN}
AccMin   == {Acc(0, 0, od, 8, st) : od \in {0, 8}, st \in BOOLEAN}
AccMin2  == {Acc(0, 0, 0, 8, FALSE), Acc(0, 0, 8, 8, TRUE)}
AllOther == {"call", "callgrow", "grow", "growneg", "if", "else", "end", "loop", "endloop", "mix"}
(* focus family: accesses through one base, a store and a load, around a join *)
AccSame  == {Acc(0, 0, 0, 1, TRUE), Acc(0, 0, 0, 8, FALSE)}
JoinToks == {"if", "else", "end", "call"}
JoinToksT == {"if", "else", "end", "call", "loop", "endloop", "grow"}
S4 == {4}
(* a memory that starts EMPTY: nothing can be accessed before it has grown, but a zero-length fill names it *)
S0 == {0}
EmptyToks == {"touch", "call", "callgrow", "grow"}
(* Dimensions the driver adds to every program (not part of the token alphabet):
   Provenances  where the two address values come from: "param" (the caller), "const" (constants in the body), "narrow" (a
                sign-extending 16-bit load inside the function, for addresses that are the sign extension of their low half), "wrap"
                (i32.wrap_i64 of a 64-bit value whose upper half is a marker);
   MemKinds     "own" (defined by the module) or "imported" (defined by another module), "shared" (own, shared between threads: its buffer is allocated
                for the declared maximum at once);
   CalleeKinds  what call / callgrow call: functions of the module, imported host functions, host functions that re-enter. *)
Provenances == {"param", "const", "narrow", "wrap"}
MemKinds == {"own", "imported", "shared"}
S13 == {1, 3}
S1 == {1}
S3 == {3}
=============================================================================
