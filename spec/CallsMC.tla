------------------------------ MODULE CallsMC ------------------------------
EXTENDS Calls
N(t, v, f, x, sw) == [t |-> t, v |-> v, f |-> f, x |-> x, swallow |-> sw]
Ret(v) == N("ret", v, "", 0, FALSE)
Panic == N("panic", 0, "", 0, FALSE)
Exit(c) == N("exit", c, "", 0, FALSE)
Cb(f, x, sw) == N("cb", 9, f, x, sw)
T(i, f, x, s) == [inst |-> i, fn |-> f, arg |-> x, script |-> s]

Leaves == {Ret(5), Panic, Exit(3), Exit(0)}
CbFns == {<<"brret", 1>>, <<"mark", 2>>, <<"trap", 0>>, <<"trap", 2>>, <<"callpeer", 1>>, <<"callpeer", 0>>, <<"rectrap", 3>>, <<"recinf", 0>>}
Cbs1 == {Cb(c[1], c[2], sw) : c \in CbFns, sw \in BOOLEAN}
(* scripts: one node; or a callback into viahost followed by the node the nested host call consumes *)
Scripts1 == {<<n>> : n \in Leaves \cup Cbs1}
Scripts2 == {<<Cb("viahost", 1, sw), n>> : sw \in BOOLEAN, n \in Leaves \cup {Cb("trap", 1, FALSE), Cb("mark", 1, TRUE)}}

Typed == {T("M", "w64", 5, <<>>), T("M", "w64", -2, <<>>), T("M", "wf64", 5, <<>>), T("M", "wf64", -2, <<>>), T("M", "wf32", 6, <<>>), T("M", "wide", 7, <<>>), T("M", "wide", -1, <<>>)}
Deep == {T("M", "rectrap", 40, <<>>), T("M", "recfin", 40, <<>>)}
Plain == {T("M", "brret", 0, <<>>), T("M", "brret", 1, <<>>), T("M", "brret", 2, <<>>), T("M", "mark", 1, <<>>), T("M", "mark", 4, <<>>), T("A", "peer", 0, <<>>), T("A", "peer", 1, <<>>),
          T("M", "callpeer", 0, <<>>), T("M", "callpeer", 1, <<>>), T("M", "recfin", 5, <<>>),
          T("M", "trap", 0, <<>>), T("M", "trap", 1, <<>>), T("M", "trap", 2, <<>>), T("M", "trap", 3, <<>>), T("M", "trap", 4, <<>>),
          T("M", "rectrap", 2, <<>>)} \cup Typed
PeerHost == {T(i[1], i[2], 2, <<n>>) : i \in {<<"M", "callpeer">>, <<"A", "peer">>}, n \in Leaves}
Heavy == {T("M", "recfin", 100000000, <<>>), T("M", "recinf", 0, <<>>), T("M", "recinf", 1, <<>>), T("M", "recinf", 2, <<>>)}
Via == {T("M", "viahost", 1, s) : s \in Scripts1 \cup Scripts2}
Reuse == {T("M", "recfin", 100000000, <<>>), T("M", "recfin", 3, <<>>), T("M", "recinf", 1, <<>>), T("M", "mark", 1, <<>>)}
(* a failure deep in a recursion, then a deep (but legal) recursion on the same function objects: frames left behind by the failure count *)
DeepReuse == {T("M", "recmix", 1601, <<>>), T("M", "recmix", 2600, <<>>), T("M", "recmix", 6, <<>>)}
(* unbounded recursion through the host, then an ordinary call: the instance must still be usable *)
HostRec == {T("M", "viahost", 1, <<N("cbrec", 9, "viahost", 1, FALSE)>>), T("M", "mark", 1, <<>>)}
K(b, v, s) == [body |-> b, via |-> v, script |-> s]
StartsAll == {K(b, v, <<>>) : b \in {"plain", "trap"}, v \in {"section", "export"}} \cup
             {K(b, v, <<n>>) : b \in {"host", "peer2"}, v \in {"section", "export"}, n \in Leaves}
NoStarts == {}
(* what runs between the instantiations: effects and liveness of M and A are observed through these *)
StartTops == {T("M", "mark", 1, <<>>), T("A", "peer", 0, <<>>), T("M", "callpeer", 0, <<>>)}
TopsAll == Plain \cup Via \cup Heavy \cup PeerHost \cup Deep
TopsLight == Plain \cup Via \cup PeerHost \cup Deep
TopsCore == {T("M", "callpeer", 2, <<Exit(3)>>), T("M", "recfin", 3, <<>>), T("M", "mark", 1, <<>>), T("A", "peer", 0, <<>>), T("M", "callpeer", 1, <<>>), T("M", "trap", 0, <<>>), T("M", "rectrap", 2, <<>>),
             T("M", "w64", 5, <<>>), T("M", "wf64", -2, <<>>), T("M", "wf32", 6, <<>>), T("M", "wide", 7, <<>>)} \cup
            {T("M", "viahost", 1, s) : s \in {<<Ret(5)>>, <<Panic>>, <<Exit(3)>>, <<Cb("trap", 0, FALSE)>>, <<Cb("trap", 0, TRUE)>>,
                                             <<Cb("viahost", 1, FALSE), Exit(3)>>, <<Cb("viahost", 1, TRUE), Panic>>}}
=============================================================================
