SPECIFICATION TraceSpec
CONSTANTS
  Threads <- TThreads
  Names <- TNames
  MaxMods = 1000000
  MaxOps = 1000000
  UnlistByIdentity = TRUE
  AttachEarly = TRUE
  KeepHist = FALSE
  StartKinds <- StartsBoth
  OpKinds <- TOps
INVARIANTS TypeOK NameUnique OwnerFindable LookupOnlyOpen ListedOnlyLive AfterRuntimeClose AtMostOnce ExactlyOnce
CONSTRAINT HighWater
POSTCONDITION Post
CHECK_DEADLOCK FALSE
