---------------------------- MODULE SysDefaults ----------------------------
(***************************************************************************)
(* Default module configuration (C18): no arguments, no environment, no    *)
(* files or sockets, empty stdin, discarded output, fake clocks that       *)
(* advance one millisecond PER READING OF THAT INSTANCE, fake sleep, and a *)
(* fixed random stream per instance.  A guest program is a sequence of     *)
(* WASI calls; the specification predicts every observation as a function  *)
(* of the program alone:                                                   *)
(*   realtime  k-th reading  = Epoch + k ms      (k counted per instance)  *)
(*   monotonic k-th reading  = k ms                                        *)
(*   random_get(n)           = R[off, off+n) of ONE fixed stream R         *)
(* Epoch and R are opaque here (TLC cannot hold 64-bit values): the driver *)
(* checks R by equality across instances, processes and engines.           *)
(***************************************************************************)
EXTENDS Integers, Sequences, FiniteSets, TLC, Json

CONSTANTS MaxCalls, Calls

VARIABLES prog, obs, w, m, roff, fin
vars == <<prog, obs, w, m, roff, fin>>

Init == prog = <<>> /\ obs = <<>> /\ w = 0 /\ m = 0 /\ roff = 0 /\ fin = FALSE

O(e, v, x) == [errno |-> e, v |-> v, x |-> x]

Do(c) ==
  /\ ~fin /\ Len(prog) < MaxCalls
  /\ prog' = Append(prog, c)
  /\ CASE c.c = "clock_time" /\ c.a = 0 -> obs' = Append(obs, O("ESUCCESS", w, 0)) /\ w' = w + 1 /\ UNCHANGED <<m, roff>>
       [] c.c = "clock_time" /\ c.a = 1 -> obs' = Append(obs, O("ESUCCESS", m, 0)) /\ m' = m + 1 /\ UNCHANGED <<w, roff>>
       [] c.c = "clock_time" /\ c.a > 1 -> obs' = Append(obs, O("EINVAL", 0, 0)) /\ UNCHANGED <<w, m, roff>>
       [] c.c = "clock_res"  -> obs' = Append(obs, IF c.a = 0 THEN O("ESUCCESS", 1000, 0) ELSE IF c.a = 1 THEN O("ESUCCESS", 1, 0)
                                                   ELSE O("EINVAL", 0, 0)) /\ UNCHANGED <<w, m, roff>>
       [] c.c = "random"     -> obs' = Append(obs, O("ESUCCESS", roff, c.a)) /\ roff' = roff + c.a /\ UNCHANGED <<w, m>>
       [] c.c \in {"args_sizes", "environ_sizes"} -> obs' = Append(obs, O("ESUCCESS", 0, 0)) /\ UNCHANGED <<w, m, roff>>
       [] c.c = "stdin_read" -> obs' = Append(obs, O("ESUCCESS", 0, 0)) /\ UNCHANGED <<w, m, roff>>        \* always EOF
       [] c.c = "out_write"  -> obs' = Append(obs, O("ESUCCESS", c.b, 0)) /\ UNCHANGED <<w, m, roff>>      \* everything "written", nothing kept
       [] c.c \in {"prestat", "path_open", "sock_accept", "readdir"} -> obs' = Append(obs, O("EBADF", 0, 0)) /\ UNCHANGED <<w, m, roff>>
       [] c.c = "fdstat"     -> obs' = Append(obs, IF c.a <= 2 THEN O("ESUCCESS", 0, 0) ELSE O("EBADF", 0, 0)) /\ UNCHANGED <<w, m, roff>>
       [] c.c = "poll_clock" -> obs' = Append(obs, O("ESUCCESS", 1, 0)) /\ UNCHANGED <<w, m, roff>>        \* fake sleep: returns at once, reads no clock
       [] c.c = "sched_yield" -> obs' = Append(obs, O("ESUCCESS", 0, 0)) /\ UNCHANGED <<w, m, roff>>
  /\ UNCHANGED fin

Finish == ~fin /\ Len(prog) > 0 /\ fin' = TRUE /\ UNCHANGED <<prog, obs, w, m, roff>>
Next == (\E c \in Calls : Do(c)) \/ Finish
Spec == Init /\ [][Next]_vars

(* the observations are a function of the program: two behaviours with the same program have the same observations
   (true by construction: every action is deterministic); counters only count *)
Counters == w + m <= Len(prog) /\ roff >= 0
Emit == fin => PrintT(<<"EMIT", ToJson([prog |-> prog, obs |-> obs])>>)

C(c, a, b) == [c |-> c, a |-> a, b |-> b]
AllCalls == {C("clock_time", a, 0) : a \in 0..3} \cup {C("clock_res", a, 0) : a \in 0..2} \cup {C("random", n, 0) : n \in {1, 3, 8}} \cup
            {C("args_sizes", 0, 0), C("environ_sizes", 0, 0), C("stdin_read", 16, 0), C("out_write", 1, 5), C("out_write", 2, 9),
             C("prestat", 3, 0), C("prestat", 4, 0), C("path_open", 3, 0), C("sock_accept", 3, 0), C("readdir", 3, 0),
             C("poll_clock", 0, 0), C("poll_clock", 1, 0), C("sched_yield", 0, 0)} \cup {C("fdstat", a, 0) : a \in 0..4}
=============================================================================
