SPECIFICATION Spec
CONSTANTS
  MaxLen = 3
  MaxDepth = 1
  AccToks <- AccMin
  OtherToks <- AllOther
  Sizes <- S1
  TopU = 4
INVARIANTS EmitProg RefSound
CHECK_DEADLOCK FALSE
