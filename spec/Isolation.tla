----------------------------- MODULE Isolation -----------------------------
(***************************************************************************)
(* Isolation (C11): N instances of ONE compiled module (and re-             *)
(* instantiations after close) that are not linked by any import.  The     *)
(* specification is N independent copies of the lone-instance machine:     *)
(* an operation on instance i reads and writes the state of i only, and a  *)
(* fresh instance always starts from the module's initial state.  TLC      *)
(* enumerates the interleavings; the driver replays them on real instances *)
(* and compares every result and each instance's complete state.           *)
(***************************************************************************)
EXTENDS Integers, Sequences, FiniteSets, TLC, Json

CONSTANTS MaxSteps, MaxInst, Ops

VARIABLES insts, hist, fin
vars == <<insts, hist, fin>>

Addrs == {0, 8, 65544}        \* the last one lies in the second page
Null == <<0, 0>>
Fresh == [alive |-> TRUE, g |-> 1, pages |-> 1, cells |-> [x \in Addrs |-> 0], tab |-> [s \in 1..4 |-> Null],
          ddrop |-> FALSE, edrop |-> FALSE]
MemMax == 3
TabMax == 6

Init == insts = <<Fresh>> /\ hist = <<>> /\ fin = FALSE

Obs(ins) == [j \in 1..Len(ins) |-> [alive |-> ins[j].alive, g |-> ins[j].g, pages |-> ins[j].pages,
                                    cells |-> [x \in Addrs |-> ins[j].cells[x]],
                                    tab |-> [s \in 1..Len(ins[j].tab) |-> [inst |-> ins[j].tab[s][1], k |-> ins[j].tab[s][2]]]]]

Rec(i, o, r, ins) == hist' = Append(hist, [i |-> i, op |-> o.op, x |-> o.x, y |-> o.y, res |-> r, st |-> Obs(ins)])

InBounds(s, x) == x < s.pages * 65536

Do(i, o) ==
  LET s == insts[i]
      upd(s2, r) == /\ insts' = [insts EXCEPT ![i] = s2] /\ Rec(i, o, r, [insts EXCEPT ![i] = s2])
      same(r) == /\ UNCHANGED insts /\ Rec(i, o, r, insts) IN
  /\ s.alive
  /\ CASE o.op = "gset"  -> upd([s EXCEPT !.g = o.x], "void")
       [] o.op = "gget"  -> same(s.g)
       [] o.op = "st"    -> IF InBounds(s, o.x) THEN upd([s EXCEPT !.cells[o.x] = o.y], "void") ELSE same("trap")
       [] o.op = "ld"    -> IF InBounds(s, o.x) THEN same(s.cells[o.x]) ELSE same("trap")
       [] o.op = "msize" -> same(s.pages)
       [] o.op = "mgrow" -> IF s.pages + o.x <= MemMax THEN upd([s EXCEPT !.pages = @ + o.x], s.pages) ELSE same(-1)
       [] o.op = "tset"  -> IF o.x < Len(s.tab) THEN upd([s EXCEPT !.tab[o.x + 1] = <<i, o.y>>], "void") ELSE same("trap")
       [] o.op = "tsetfg" -> \* table.set s (global.get fg), fg = ref.func f1 of THIS instance
                            IF o.x < Len(s.tab) THEN upd([s EXCEPT !.tab[o.x + 1] = <<i, 1>>], "void") ELSE same("trap")
       [] o.op = "tcall" -> IF o.x >= Len(s.tab) \/ s.tab[o.x + 1] = Null THEN same("trap")
                            ELSE same(s.tab[o.x + 1][1] * 10 + s.tab[o.x + 1][2])
       [] o.op = "tgrow" -> IF Len(s.tab) + o.x <= TabMax THEN upd([s EXCEPT !.tab = @ \o [q \in 1..o.x |-> Null]], Len(s.tab))
                            ELSE same(-1)
       [] o.op = "minit" -> \* memory.init 0 <- d0[0..2) = "ab" (97, 98 at addresses 0, 1): traps once d0 is dropped
                            IF s.ddrop THEN same("trap") ELSE upd([s EXCEPT !.cells[0] = 97], "void")
       [] o.op = "ddrop" -> upd([s EXCEPT !.ddrop = TRUE], "void")
       [] o.op = "tinit" -> \* table.init 0 <- e0 = [f1, f2]: traps once e0 is dropped
                            IF s.edrop THEN same("trap")
                            ELSE upd([s EXCEPT !.tab[1] = <<i, 1>>, !.tab[2] = <<i, 2>>], "void")
       [] o.op = "edrop" -> upd([s EXCEPT !.edrop = TRUE], "void")
       [] o.op = "close" -> upd([s EXCEPT !.alive = FALSE], "void")
  /\ UNCHANGED fin

NewInst == /\ Len(insts) < MaxInst
           /\ insts' = Append(insts, Fresh)
           /\ hist' = Append(hist, [i |-> Len(insts) + 1, op |-> "inst", x |-> 0, y |-> 0, res |-> "void",
                                    st |-> Obs(Append(insts, Fresh))])
           /\ UNCHANGED fin

Step == ~fin /\ Len(hist) < MaxSteps /\ (NewInst \/ \E i \in 1..Len(insts), o \in Ops : Do(i, o))
Finish == ~fin /\ Len(hist) > 0 /\ fin' = TRUE /\ UNCHANGED <<insts, hist>>
Next == Step \/ Finish
Spec == Init /\ [][Next]_vars

(* NonInterference: a step of instance i leaves every other instance's state untouched *)
NonInterference == [][\A j \in 1..Len(insts) :
                        (Len(hist') > Len(hist) /\ hist'[Len(hist')].i # j) => insts'[j] = insts[j]]_vars
FreshStart == \A k \in 1..Len(hist) : hist[k].op = "inst" => hist[k].st[hist[k].i].g = 1 /\ hist[k].st[hist[k].i].pages = 1

Emit == fin => PrintT(<<"EMIT", ToJson([hist |-> hist])>>)
DesignView == <<insts, Len(hist), fin>>
=============================================================================
