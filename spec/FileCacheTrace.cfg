SPECIFICATION TraceSpec
CONSTANTS
  Writers <- W1
  KeyOf <- K1
  N = 3
  MaxCrashes = 0
  PreStale <- NoStale
INVARIANTS FinalIsComplete TempNamesDistinct
CONSTRAINT HighWater
POSTCONDITION Post
CHECK_DEADLOCK FALSE
