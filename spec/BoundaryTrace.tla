--------------------------- MODULE BoundaryTrace ---------------------------
(* Recorded crossings (driver-side and host-function-side observations) checked against Boundary!Conforms. *)
EXTENDS Integers, Sequences, FiniteSets, TLC, Json, IOUtils
Trace == ndJsonDeserialize("trace.ndjson")
VARIABLE l
Conforms(c) == Len(c.seen) = Len(c.sent) /\ \A i \in 1..Len(c.sent) : c.seen[i] = c.sent[i]
Init == l = 1
Next == l <= Len(Trace) /\ Conforms(Trace[l]) /\ l' = l + 1
Spec == Init /\ [][Next]_l
ASSUME TLCSet(1, 0)
HighWater == TLCSet(1, IF l > TLCGet(1) THEN l ELSE TLCGet(1))
Post == PrintT(<<"HIGHWATER", TLCGet(1), Len(Trace)>>) /\ TLCGet(1) = Len(Trace) + 1
=============================================================================
