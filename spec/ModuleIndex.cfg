SPECIFICATION Spec
CONSTANT Shapes <- AllShapes
INVARIANT Emit
