------------------------------ MODULE WasiFSMC ------------------------------
EXTENDS WasiFS
O(op, fd, name, name2, of, ap, rt, n, off, data) ==
  [op |-> op, fd |-> fd, name |-> name, name2 |-> name2, of |-> of, ap |-> ap, rt |-> rt, n |-> n, off |-> off, data |-> data]
Open(name, of, ap, rt) == O("open", 0, name, "", of, ap, rt, 0, 0, <<>>)
F(op, fd, n, off, data) == O(op, fd, "", "", {}, FALSE, "", n, off, data)
P(op, name, name2) == O(op, 0, name, name2, {}, FALSE, "", 0, 0, <<>>)

(* initial tree: a = "hello"-like 3 bytes, d = directory, b absent *)
Tree0 == [names |-> [n \in {"a", "b", "d"} |-> IF n = "a" THEN 1 ELSE IF n = "d" THEN -1 ELSE 0], inodes |-> <<<<104, 105, 33>>>>]

Opens == {Open(nm, of, ap, rt) : nm \in {"a", "b"}, of \in {{}, {"C"}, {"C", "X"}, {"T"}, {"C", "T"}, {"C", "X", "T"}, {"X", "T"}}, ap \in BOOLEAN, rt \in {"r", "rw", ""}} \cup
         {Open("d", {}, FALSE, "r"), Open("d", {"D"}, FALSE, "r"), Open("a", {"D"}, FALSE, "r"), Open("d", {}, FALSE, "rw"), Open("b", {"C"}, FALSE, "w")}
FdOps == {F("close", fd, 0, 0, <<>>) : fd \in {4, 5}} \cup
         {F("renumber", fd, to, 0, <<>>) : fd \in {4, 5}, to \in {4, 5, 7, 3, 1}} \cup
         {F("write", fd, 0, 0, d) : fd \in {4, 5}, d \in {<<65>>, <<66, 67>>}} \cup
         {F("pwrite", fd, 0, off, <<68>>) : fd \in {4, 5}, off \in {0, 5}} \cup
         {F("read", fd, n, 0, <<>>) : fd \in {4, 5}, n \in {1, 8}} \cup
         {F("pread", fd, 2, off, <<>>) : fd \in {4, 5}, off \in {0, 2}} \cup
         {F("seek", fd, wh, off, <<>>) : fd \in {4, 5}, wh \in {0, 1, 2}, off \in {-1, 0, 2}} \cup
         {F("seek", 4, wh, 1, <<>>) : wh \in {3, 256, 257, 258, 65536}} \cup
         {F("setsize", fd, n, 0, <<>>) : fd \in {4, 5}, n \in {0, 1, 6}} \cup
         {F("fdsize", fd, 0, 0, <<>>) : fd \in {4, 5}} \cup
         {F("settimes", fd, 0, 0, <<>>) : fd \in {4, 5}} \cup {F("setappend", fd, 0, 0, <<>>) : fd \in {4, 5}}
PathOps == {P("unlink", nm, "") : nm \in {"a", "b", "d"}} \cup {P("rename", "a", "b"), P("rename", "b", "a"), P("rename", "a", "a"), P("rename", "a", "d")} \cup
           {P("mkdir", nm, "") : nm \in {"b", "d"}} \cup {P("rmdir", nm, "") : nm \in {"a", "b", "d"}} \cup
           {P("pathsize", nm, "") : nm \in {"a", "b", "d"}} \cup {P("pathtimes", nm, "") : nm \in {"a", "d"}}
AllOps == Opens \cup FdOps \cup PathOps
CoreOps == {Open("a", {}, FALSE, "rw"), Open("b", {"C"}, TRUE, "rw"), Open("a", {"T"}, FALSE, "rw"), Open("a", {"C", "X"}, FALSE, "rw")} \cup
           {F("close", 4, 0, 0, <<>>), F("renumber", 4, 4, 0, <<>>), F("renumber", 4, 5, 0, <<>>), F("renumber", 5, 4, 0, <<>>), F("renumber", 4, 3, 0, <<>>), F("renumber", 4, 1, 0, <<>>),
            F("write", 4, 0, 0, <<66, 67>>), F("read", 4, 8, 0, <<>>), F("read", 5, 8, 0, <<>>), F("seek", 4, 0, 0, <<>>), F("seek", 4, 2, -1, <<>>),
            F("pwrite", 4, 0, 5, <<68>>), F("setsize", 4, 1, 0, <<>>), F("fdsize", 4, 0, 0, <<>>), F("settimes", 4, 0, 0, <<>>),
            F("setappend", 4, 0, 0, <<>>), Open("d", {"D"}, FALSE, "r"), Open("a", {"C", "X", "T"}, FALSE, "rw")} \cup
           {P("unlink", "a", ""), P("rename", "a", "b"), P("pathsize", "a", ""), P("pathsize", "b", "")}
=============================================================================
