SPECIFICATION Spec
CONSTANTS
  MaxCalls = 12
  Calls <- AllCalls
INVARIANTS Counters Emit
CHECK_DEADLOCK FALSE
