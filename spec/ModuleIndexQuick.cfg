SPECIFICATION Spec
CONSTANT Shapes <- QuickShapes
INVARIANT Emit
