----------------------------- MODULE WasmTyping -----------------------------
(***************************************************************************)
(* The validation (typing) algorithm of WebAssembly function bodies as a   *)
(* transition system (C01, C03).                                           *)
(*                                                                         *)
(* State: the code emitted so far, the operand-type stack and the control  *)
(* stack.  Every action appends instructions whose typing rule is          *)
(* satisfied in the current state, so every walk that ends in Finish is a  *)
(* VALID function body by construction of the rules; MutateInvalid         *)
(* performs exactly one ill-typed step (then the body is INVALID).         *)
(*                                                                         *)
(* Plain instructions come from the data table OpSig (OpSigTable.tla):     *)
(* name |-> popped types, pushed types, immediate kind.  Immediates are    *)
(* symbolic classes concretised by the driver from its seed.               *)
(* Termination of generated code: back edges exist only in counted loops   *)
(* (a reserved counter local per nesting level), calls only go to          *)
(* functions with a smaller index.                                         *)
(***************************************************************************)
EXTENDS Integers, Sequences, FiniteSets, TLC, Json, OpSigTable

CONSTANTS Target,        \* instructions after which the walk only closes what is open
          MaxLen,        \* hard bound
          Params, Results, \* the function's signature (sequences of types)
          Ops,           \* the subset of OpSig this run may use
          CallSigs,      \* set of callee signatures [p, r] available in the module
          AllowInvalid,  \* TRUE: one MutateInvalid step may happen
          AddrClass,     \* class of address constants: "addr" (mostly in bounds) or "edge" (around the end of the memory)
          Idioms,        \* TRUE: the compound steps that instruction selection fuses (compare+branch, operand atoms) are enabled
          Features,      \* subset of {"grow", "bulk", "table", "brtable", "atomic", "tailcall", "host"}: further instruction groups
          HostSigs       \* signatures of the imported host functions

VARIABLES code, vstack, cstack, bad, fin,
          pend           \* "" or the second stage of a compound idiom step ("rel": operands pushed, relation to be chosen; "relsel": then select)
vars == <<code, vstack, cstack, bad, fin, pend>>

NumT == {"i32", "i64", "f32", "f64"}
ValT == NumT \cup {"v128"}
(* locals: parameters first, then two scratch locals per numeric type, one v128, three loop counters, one address register *)
Scratch == <<"i32", "i32", "i64", "i64", "f32", "f32", "f64", "f64", "v128", "i32", "i32", "i32", "i32", "funcref", "externref",
             "f32", "f64", "v128">>      \* the last three are never named by generated code (the executor's NaN-canonicalising variant uses them)
RefT == {"funcref", "externref"}
Locals == Params \o Scratch
ScratchBase == Len(Params)
TmpOf(t) == ScratchBase + (CASE t = "i32" -> 1 [] t = "i64" -> 3 [] t = "f32" -> 5 [] t = "f64" -> 7 [] t = "v128" -> 9
                                [] t = "funcref" -> 14 [] t = "externref" -> 15)
Counter(d) == ScratchBase + 9 + d        \* d = 1..3: loop nesting level
AR == ScratchBase + 13                   \* the address register: written only by SetAddr, base of the *Reg accesses
FreeLocals == (1..(ScratchBase + 9)) \cup {ScratchBase + 14, ScratchBase + 15}       \* everything but the loop counters and the address register

I(op, a, b) == [op |-> op, a |-> a, b |-> b]
LocalsOf(t) == {i \in FreeLocals : Locals[i] = t}
(* a frame: par = the block's parameters (multi-value block types; they sit on the stack above height), res = its results *)
FrameP(k, par, res, h, lp) == [kind |-> k, par |-> par, res |-> res, height |-> h, unreach |-> FALSE, loops |-> lp]
Frame(k, res, h, lp) == FrameP(k, <<>>, res, h, lp)

(* with Idioms the scratch value locals start with (driver chosen) constants instead of zero *)
RECURSIVE PrologueFrom(_)
PrologueFrom(k) == IF k > 8 THEN <<>> ELSE <<I(Scratch[k] \o ".const", "const", ""), I("local.set", ScratchBase + k, "")>> \o PrologueFrom(k + 1)
Prologue == IF Idioms THEN PrologueFrom(1) \o <<I("i32.const", AddrClass, "reg"), I("local.set", ScratchBase + 13, "")>> ELSE <<>>

Init == /\ code = Prologue /\ vstack = <<>> /\ bad = "" /\ pend = ""
        /\ cstack = <<Frame("func", Results, 0, 0)>> /\ fin = FALSE

ConstOf(t) == IF t = "v128" THEN I("v128.const", "v128const", "") ELSE I(t \o ".const", "const", "")
Top == cstack[Len(cstack)]
Live == ~fin /\ ~Top.unreach
Growing == Len(code) - Len(Prologue) < Target
Room(n) == Len(code) - Len(Prologue) + n <= MaxLen
Avail == Len(vstack) - Top.height       \* operands of the current frame
TopTypes(n) == SubSeq(vstack, Len(vstack) - n + 1, Len(vstack))
Pop(n) == SubSeq(vstack, 1, Len(vstack) - n)
Emit(is) == code' = code \o is
(* a value that differs from walk to walk but is a function of the state: keeps the number of successors small *)
Has(f) == f \in Features
Mix == Len(code) + 3 * Len(vstack) + 5 * Len(cstack)

-----------------------------------------------------------------------------
(* plain instructions from the table *)
Plain ==
  /\ Live /\ Growing
  /\ \E o \in Ops :
       /\ o.imm \notin {"mem1", "mem2", "mem4", "mem8", "mem16", "memlane1", "memlane2", "memlane4", "memlane8", "amem1", "amem2", "amem4", "amem8"}
       /\ Len(o.pop) <= Avail /\ TopTypes(Len(o.pop)) = o.pop
       /\ vstack' = Pop(Len(o.pop)) \o o.push
       /\ Emit(<<I(o.op, o.imm, "")>>)
  /\ UNCHANGED <<cstack, bad, fin>>

(* memory access macros: the address is a constant of class "addr" so that most accesses are in bounds *)
MemLoad ==
  /\ Live /\ Growing
  /\ \E o \in Ops : /\ o.imm \in {"mem1", "mem2", "mem4", "mem8", "mem16"} /\ o.pop = <<"i32">>
                    /\ vstack' = vstack \o o.push
                    /\ Emit(<<I("i32.const", AddrClass, ""), I(o.op, o.imm, "")>>)
  /\ UNCHANGED <<cstack, bad, fin>>

MemStore ==     \* value on the stack -> scratch local ; address ; value ; store
  /\ Live /\ Growing /\ Avail >= 1
  /\ \E o \in Ops : /\ o.imm \in {"mem1", "mem2", "mem4", "mem8", "mem16"} /\ Len(o.pop) = 2 /\ o.push = <<>>
                    /\ vstack[Len(vstack)] = o.pop[2]
                    /\ vstack' = Pop(1)
                    /\ Emit(<<I("local.set", TmpOf(o.pop[2]), ""), I("i32.const", AddrClass, ""), I("local.get", TmpOf(o.pop[2]), ""), I(o.op, o.imm, "")>>)
  /\ UNCHANGED <<cstack, bad, fin>>

MemLane ==      \* v128.loadN_lane / storeN_lane: [i32 v128] -> [v128] / []
  /\ Live /\ Growing /\ Avail >= 1 /\ vstack[Len(vstack)] = "v128"
  /\ \E o \in Ops : /\ o.imm \in {"memlane1", "memlane2", "memlane4", "memlane8"}
                    /\ vstack' = Pop(1) \o o.push
                    /\ Emit(<<I("local.set", TmpOf("v128"), ""), I("i32.const", AddrClass, ""), I("local.get", TmpOf("v128"), ""), I(o.op, o.imm, "")>>)
  /\ UNCHANGED <<cstack, bad, fin>>


(* the same accesses through the address register: several accesses share ONE address value with different static
   offsets and widths, which is what bounds-check elimination reasons about *)
SetAddr ==
  /\ Live /\ Growing /\ Idioms
  /\ \/ Emit(<<I("i32.const", AddrClass, "reg"), I("local.set", AR, "")>>)
     \/ \E i \in 1..Len(Params) : Params[i] = "i32" /\ Emit(<<I("local.get", i, ""), I("local.set", AR, "")>>)      \* the caller's value
  /\ UNCHANGED <<vstack, cstack, bad, fin>>

MemLoadReg ==
  /\ Live /\ Growing /\ Idioms
  /\ \E o \in Ops : /\ o.imm \in {"mem1", "mem2", "mem4", "mem8", "mem16"} /\ o.pop = <<"i32">>
                    /\ vstack' = vstack \o o.push
                    /\ Emit(<<I("local.get", AR, ""), I(o.op, o.imm, "")>>)
  /\ UNCHANGED <<cstack, bad, fin>>

MemStoreReg ==
  /\ Live /\ Growing /\ Idioms /\ Avail >= 1
  /\ \E o \in Ops : /\ o.imm \in {"mem1", "mem2", "mem4", "mem8", "mem16"} /\ Len(o.pop) = 2 /\ o.push = <<>>
                    /\ vstack[Len(vstack)] = o.pop[2]
                    /\ vstack' = Pop(1)
                    /\ Emit(<<I("local.set", TmpOf(o.pop[2]), ""), I("local.get", AR, ""), I("local.get", TmpOf(o.pop[2]), ""), I(o.op, o.imm, "")>>)
  /\ UNCHANGED <<cstack, bad, fin>>

(* an access through the address register under a condition (if without else, or both arms), one compound step that
   leaves both stacks as they were: the accesses after it meet the facts of two paths at the join *)
GuardedAccess ==
  /\ Live /\ Growing /\ Idioms /\ Len(code) % 3 = 2
  /\ \E o \in Ops : \E c \in LocalsOf("i32") : \E both \in BOOLEAN :
       /\ o.imm \in {"mem1", "mem2", "mem4", "mem8", "mem16"} /\ o.pop = <<"i32">>
       /\ Emit(<<I("local.get", c, "")>> \o (IF Mix % 2 = 0 THEN <<I("i32.eqz", "", "")>> ELSE <<>>)
               \o <<I("if", <<>>, ""), I("local.get", AR, ""), I(o.op, o.imm, ""), I("drop", "", "")>>
               \o (IF both THEN <<I("else", "", ""), I("local.get", AR, ""), I(o.op, o.imm, ""), I("drop", "", "")>> ELSE <<>>)
               \o <<I("end", "", "")>>)
  /\ UNCHANGED <<vstack, cstack, bad, fin>>

(* a store that brings its own value (a local or a constant), through a constant address or the address register *)
MemStoreAtom ==
  /\ Live /\ Growing /\ Idioms
  /\ \E o \in Ops : /\ o.imm \in {"mem1", "mem2", "mem4", "mem8", "mem16"} /\ Len(o.pop) = 2 /\ o.push = <<>>
                    /\ \E viaReg \in BOOLEAN : \E fromLocal \in BOOLEAN :
                         Emit(<<IF viaReg THEN I("local.get", AR, "") ELSE I("i32.const", AddrClass, ""),
                                IF fromLocal THEN I("local.get", TmpOf(o.pop[2]), "") ELSE ConstOf(o.pop[2]), I(o.op, o.imm, "")>>)
  /\ UNCHANGED <<vstack, cstack, bad, fin>>

-----------------------------------------------------------------------------
(* Idioms of instruction selection.  Both back ends match a comparison together with the instructions that define
   its operands (a constant zero, an and / add / shift of two values, a load used once) and with its consumer
   (br_if, if, select).  A fused comparison is one compound step: <atom A> <atom B> <relop>, optionally below two
   select operands; the consumer is forced by Next (JustCompared). *)
RelOp(o) == Len(o.pop) = 2 /\ o.pop[1] = o.pop[2] /\ o.pop[1] \in NumT /\ o.push = <<"i32">> /\ o.imm = ""
RelOps == {x \in Ops : RelOp(x)}
RelNames == {o.op : o \in RelOps}
RelTypes == {o.pop[1] : o \in RelOps}
OpNames == {o.op : o \in Ops}
BinOpsOf == [t \in NumT |-> {x \in Ops : x.pop = <<t, t>> /\ x.push = <<t>> /\ x.imm = ""}]
IntT == {"i32", "i64"}
AtomShapes(t) == IF t \in IntT THEN {"zero", "const", "local", "bin", "load"} ELSE {"const", "local", "bin", "load"}
BinSeq(t) == IF t \in IntT THEN <<t \o ".and", t \o ".add", t \o ".shl", t \o ".or">> ELSE <<t \o ".add", t \o ".mul", t \o ".sub", t \o ".add">>
LoadOf(t) == t \o ".load"
HasOp(name) == name \in OpNames
MemImm(t) == IF t \in {"i32", "f32"} THEN "mem4" ELSE "mem8"
(* the instruction sequences of an atom of type t *)
AtomCodes(shape, t) ==
  CASE shape = "zero" -> {<<I(t \o ".const", 0, "")>>}
    [] shape = "const" -> {<<I(t \o ".const", "const", "")>>}
    [] shape = "local" -> {<<I("local.get", i, "")>> : i \in LocalsOf(t)}
    [] shape = "bin" -> LET b == BinSeq(t)[(Mix % 4) + 1] IN
                        IF HasOp(b) THEN {<<I("local.get", i, ""), IF Mix % 3 = 0 THEN I(t \o ".const", "const", "") ELSE I("local.get", TmpOf(t) + 1, ""), I(b, "", "")>> : i \in LocalsOf(t)}
                        ELSE {}
    [] shape = "load" -> IF HasOp(LoadOf(t)) THEN {<<I("i32.const", AddrClass, ""), I(LoadOf(t), MemImm(t), "")>>} ELSE {}
ShapePairs == {<<"zero", "bin">>, <<"bin", "zero">>, <<"local", "const">>, <<"const", "local">>, <<"load", "local">>, <<"local", "load">>,
               <<"bin", "local">>, <<"local", "bin">>, <<"zero", "local">>, <<"local", "zero">>, <<"load", "const">>}

(* stage 1: the operands (below them the two select operands when the comparison is to feed select) *)
FusedAtoms ==
  /\ Live /\ Growing /\ Idioms /\ Len(code) % 3 = 0 /\ pend = ""
  /\ \E t \in RelTypes : \E sp \in ShapePairs :
       /\ sp[1] \in AtomShapes(t) /\ sp[2] \in AtomShapes(t)
       /\ \E a \in AtomCodes(sp[1], t) : \E b \in AtomCodes(sp[2], t) : \E sel \in BOOLEAN :
            LET t2 == CASE Mix % 4 = 0 -> "i32" [] Mix % 4 = 1 -> "i64" [] Mix % 4 = 2 -> "f32" [] OTHER -> "f64" IN
            IF sel THEN /\ Emit(<<I("local.get", TmpOf(t2), ""), I(t2 \o ".const", "const", "")>> \o a \o b)
                        /\ vstack' = vstack \o <<t2, t2, t, t>> /\ pend' = "relsel"
                   ELSE Emit(a \o b) /\ vstack' = vstack \o <<t, t>> /\ pend' = "rel"
  /\ UNCHANGED <<cstack, bad, fin>>
(* stage 2: the relation (and the select) *)
PickRel ==
  /\ pend \in {"rel", "relsel"}
  /\ \E o \in RelOps :
       /\ o.pop[1] = vstack[Len(vstack)]
       /\ IF pend = "relsel" THEN Emit(<<I(o.op, "", ""), I("select", vstack[Len(vstack) - 2], "")>>) /\ vstack' = Pop(3)
                             ELSE Emit(<<I(o.op, "", "")>>) /\ vstack' = Append(Pop(2), "i32")
  /\ pend' = "" /\ UNCHANGED <<cstack, bad, fin>>

(* arithmetic with an operand atom on the right: constant, load used once (memory operand), result of another operation *)
FusedBin ==
  /\ Live /\ Growing /\ Idioms /\ Len(code) % 3 = 1 /\ Avail >= 1 /\ vstack[Len(vstack)] \in NumT
  /\ LET t == vstack[Len(vstack)] IN
     \E o \in BinOpsOf[t] : \E shape \in {"const", "load", "bin", "zero"} :
       /\ shape \in AtomShapes(t)
       /\ LET bs == AtomCodes(shape, t) IN bs # {} /\ Emit((CHOOSE b \in bs : TRUE) \o <<I(o.op, "", "")>>)
  /\ UNCHANGED <<vstack, cstack, bad, fin>>

JustCompared == code # <<>> /\ code[Len(code)].op \in RelNames

LocalGet == /\ Live /\ Growing
            /\ \E i \in FreeLocals : vstack' = Append(vstack, Locals[i]) /\ Emit(<<I("local.get", i, "")>>)
            /\ UNCHANGED <<cstack, bad, fin>>
LocalSet == /\ Live /\ Growing /\ Avail >= 1
            /\ \E i \in FreeLocals : /\ Locals[i] = vstack[Len(vstack)]
                                     /\ \E tee \in BOOLEAN : /\ vstack' = IF tee THEN vstack ELSE Pop(1)
                                                             /\ Emit(<<I(IF tee THEN "local.tee" ELSE "local.set", i, "")>>)
            /\ UNCHANGED <<cstack, bad, fin>>
GlobalGet == /\ Live /\ Growing
             /\ \E t \in ValT : vstack' = Append(vstack, t) /\ Emit(<<I("global.get", t, "")>>)      \* one mutable global per type
             /\ UNCHANGED <<cstack, bad, fin>>
GlobalSet == /\ Live /\ Growing /\ Avail >= 1 /\ vstack[Len(vstack)] \in ValT
             /\ vstack' = Pop(1) /\ Emit(<<I("global.set", vstack[Len(vstack)], "")>>)
             /\ UNCHANGED <<cstack, bad, fin>>
Drop == /\ Live /\ Avail >= 1 /\ Growing
        /\ vstack' = Pop(1) /\ Emit(<<I("drop", "", "")>>) /\ UNCHANGED <<cstack, bad, fin>>
Select == /\ Live /\ Growing /\ Avail >= 3 /\ vstack[Len(vstack)] = "i32"
          /\ vstack[Len(vstack) - 1] = vstack[Len(vstack) - 2]
          /\ vstack' = Pop(2)
          /\ Emit(<<I(IF vstack[Len(vstack) - 1] \in {"v128"} \cup RefT THEN "select_t" ELSE "select", vstack[Len(vstack) - 1], "")>>)     \* references need the typed form
          /\ UNCHANGED <<cstack, bad, fin>>

Call == /\ Live /\ Growing
        /\ \E s \in CallSigs : /\ Len(s.p) <= Avail /\ TopTypes(Len(s.p)) = s.p
                               /\ vstack' = Pop(Len(s.p)) \o s.r
                               /\ \E ind \in BOOLEAN : Emit(IF ind THEN <<I("i32.const", "slot", s), I("call_indirect", s, "")>> ELSE <<I("call", s, "")>>)
        /\ UNCHANGED <<cstack, bad, fin>>

(* loop-carried values: inside a loop, one scratch local takes the value of another, which is then advanced
   (prev := cur ; cur := cur + c).  At the back-edge the two locals are block parameters whose arguments form a chain
   (the new prev is the old cur): parallel-move resolution has to order or split the moves.  The old prev is pushed first,
   so every iteration leaves an observable value. *)
LoopShift ==
  /\ Live /\ Growing /\ Idioms /\ Top.loops > 0
  /\ \E t \in {"i32", "i64"} :
       LET cur == TmpOf(t)  prev == TmpOf(t) + 1 IN
       /\ Emit(<<I("local.get", prev, ""), I("local.get", cur, ""), I("local.set", prev, ""),
                 I("local.get", cur, ""), I(t \o ".const", "const", ""), I(t \o ".add", "", ""), I("local.set", cur, "")>>)
       /\ vstack' = Append(vstack, t)
  /\ UNCHANGED <<cstack, bad, fin>>

(* calls of wide signatures: the operands come from the scratch locals (alternating between the two of each type), so
   the call is possible whatever is on the stack; as a tail call when the callee's results are the function's *)
Supply2(ts) == [k \in 1..Len(ts) |-> I("local.get", TmpOf(ts[k]) + (k % 2), "")]
CallWide ==
  /\ Live /\ Growing /\ Len(code) % 3 = 0
  /\ \E s \in CallSigs :
       /\ Len(s.p) >= 5 /\ \A k \in 1..Len(s.p) : s.p[k] \in NumT
       /\ \E ind \in BOOLEAN :
            \/ /\ Emit(Supply2(s.p) \o (IF ind THEN <<I("i32.const", "slot", s), I("call_indirect", s, "")>> ELSE <<I("call", s, "")>>))
               /\ vstack' = vstack \o s.r /\ UNCHANGED cstack
            \/ /\ Has("tailcall") /\ s.r = Results /\ Len(cstack) > 1 /\ Top.kind \in {"if", "else"}
               /\ Emit(Supply2(s.p) \o (IF ind THEN <<I("i32.const", "slot", s), I("return_call_indirect", s, "")>> ELSE <<I("return_call", s, "")>>))
               /\ cstack' = [cstack EXCEPT ![Len(cstack)].unreach = TRUE] /\ UNCHANGED vstack
  /\ UNCHANGED <<bad, fin>>

-----------------------------------------------------------------------------
(* structured control *)
BlockTypes == {<<>>} \cup {<<t>> : t \in NumT}

OpenBlock == /\ Live /\ Growing /\ Len(cstack) < 5
             /\ \E bt \in BlockTypes : /\ cstack' = Append(cstack, Frame("block", bt, Len(vstack), Top.loops))
                                       /\ Emit(<<I("block", bt, "")>>)
             /\ UNCHANGED <<vstack, bad, fin>>

OpenLoop == /\ Live /\ Growing /\ Len(cstack) < 5 /\ Top.loops < 3
            /\ \E n \in {1, 2, 3} :
                 /\ cstack' = Append(cstack, Frame("loop", <<>>, Len(vstack), Top.loops + 1))
                 /\ Emit(<<I("i32.const", n, ""), I("local.set", Counter(Top.loops + 1), ""), I("loop", <<>>, "")>>)
            /\ UNCHANGED <<vstack, bad, fin>>

OpenIf == /\ Live /\ Growing /\ Len(cstack) < 5 /\ Avail >= 1 /\ vstack[Len(vstack)] = "i32"
          /\ \E bt \in BlockTypes : /\ cstack' = Append(cstack, Frame("if", bt, Len(vstack) - 1, Top.loops))
                                    /\ Emit(<<I("if", bt, "")>>)
          /\ vstack' = Pop(1) /\ UNCHANGED <<bad, fin>>

AtEnd(f) == f.unreach \/ (Len(vstack) = f.height + Len(f.res) /\ TopTypes(Len(f.res)) = f.res)

Else == /\ ~fin /\ Top.kind = "if" /\ AtEnd(Top)
        /\ cstack' = [cstack EXCEPT ![Len(cstack)] = [Top EXCEPT !.kind = "else", !.unreach = FALSE]]
        /\ vstack' = SubSeq(vstack, 1, Top.height) \o Top.par
        /\ Emit(<<I("else", "", "")>>) /\ UNCHANGED <<bad, fin>>

End == /\ ~fin /\ Len(cstack) > 1 /\ AtEnd(Top)
       /\ (Top.kind = "if" => Top.res = Top.par)       \* an if without else must map its parameters to themselves
       /\ vstack' = SubSeq(vstack, 1, Top.height) \o Top.res
       /\ cstack' = SubSeq(cstack, 1, Len(cstack) - 1)
       /\ Emit(IF Top.kind = "loop" /\ ~Top.unreach
               THEN <<I("local.get", Counter(Top.loops), ""), I("i32.const", 1, ""), I("i32.sub", "", ""),
                      I("local.tee", Counter(Top.loops), ""), I("br_if", 0, ""), I("end", "", "")>>
               ELSE <<I("end", "", "")>>)
       /\ UNCHANGED <<bad, fin>>

(* conditional branch to an enclosing block (never to a loop: loops are counted) *)
BrIf == /\ Live /\ Growing /\ Avail >= 1 /\ vstack[Len(vstack)] = "i32"
        /\ \E d \in 0..(Len(cstack) - 2) :
             LET f == cstack[Len(cstack) - d] IN
             /\ f.kind \in {"block", "if", "else"}
             /\ Len(f.res) <= Avail - 1 /\ SubSeq(vstack, Len(vstack) - Len(f.res), Len(vstack) - 1) = f.res
             /\ Emit(<<I("br_if", d, "")>>)
        /\ vstack' = Pop(1) /\ UNCHANGED <<cstack, bad, fin>>

(* unconditional exits: the rest of the frame is unreachable, so only End / Else may follow *)
Exit == /\ Live /\ Growing /\ Len(cstack) > 1
        /\ Top.kind \in {"if", "else", "block"}   \* return / unreachable only on a conditional path, so that the other path keeps executing
        /\ \/ /\ \E d \in 0..(Len(cstack) - 2) :
                   LET f == cstack[Len(cstack) - d] IN
                   /\ f.kind \in {"block", "if", "else"} /\ Len(f.res) <= Avail /\ TopTypes(Len(f.res)) = f.res
                   /\ Emit(<<I("br", d, "")>>)
           \/ /\ Top.kind # "block" /\ Len(Results) <= Avail /\ TopTypes(Len(Results)) = Results /\ Emit(<<I("return", "", "")>>)
           \/ (Top.kind # "block" /\ Len(code) % 5 = 0 /\ Emit(<<I("unreachable", "", "")>>))
        /\ cstack' = [cstack EXCEPT ![Len(cstack)].unreach = TRUE]
        /\ UNCHANGED <<vstack, bad, fin>>


-----------------------------------------------------------------------------
(* Instruction groups that are not rows of the signature table: they name a memory, a table, a segment or a label
   vector.  The module the driver assembles has: memory 0 (1 page, max 2), table 0 (the callee stubs, never
   written), table 1 (funcref, 4..8 entries), table 2 (externref, 2..4), data segments 0-1 active (dropped after
   instantiation) and 2-3 passive, element segment 0 active and 1 passive.  Addresses, lengths, page counts and
   table indices are classes the driver draws from (mostly in range, sometimes just outside). *)
C32(class) == I("i32.const", class, "")

(* operand classes: most draws stay inside the object, "X" classes lie around or beyond its end *)
Rare == Len(code) % 4 = 0                                \* the out-of-range classes are offered on a quarter of the steps
PageClasses == {"pages0", "pages1"} \cup (IF Rare THEN {"pagesX"} ELSE {})
LenClasses == {"len0", "len1", "lenS"} \cup (IF Rare THEN {"lenX"} ELSE {})          \* 0, 1, 2..40, far too long
TLenClasses == {"len0", "len1", "lenT"}                  \* 0, 1, 2..4
TIdxClasses == {"tidxA"} \cup (IF Rare THEN {"tidxB"} ELSE {})               \* inside the initial size; around the end / beyond

MemSize == /\ Live /\ Growing /\ Has("grow")
           /\ vstack' = Append(vstack, "i32") /\ Emit(<<I("memory.size", "", "")>>) /\ UNCHANGED <<cstack, bad, fin>>
MemGrow == /\ Live /\ Growing /\ Has("grow")          \* [i32] -> [i32]; the old size or -1
           /\ vstack' = Append(vstack, "i32") /\ \E pc \in PageClasses : Emit(<<C32(pc), I("memory.grow", "", "")>>)
           /\ UNCHANGED <<cstack, bad, fin>>
Bulk ==    \* memory.fill / copy / init : [i32 i32 i32] -> [] ; data.drop
  /\ Live /\ Growing /\ Has("bulk")
  /\ \E ln \in LenClasses :
     \/ Emit(<<C32(AddrClass), C32("const"), C32(ln), I("memory.fill", "", "")>>)
     \/ Emit(<<C32(AddrClass), C32(AddrClass), C32(ln), I("memory.copy", "", "")>>)
     \/ \E seg \in (IF Rare THEN 1..3 ELSE 2..3) : Emit(<<C32(AddrClass), C32("segoff"), C32(ln), I("memory.init", seg, "")>>)   \* 1: active, i.e. dropped
     \/ \E seg \in 2..3 : Len(code) % 7 = 0 /\ ln = "len0" /\ Emit(<<I("data.drop", seg, "")>>)
  /\ UNCHANGED <<vstack, cstack, bad, fin>>

RefProduce ==   \* ref.null t / ref.func f / table.get
  /\ Live /\ Growing /\ Has("table")
  /\ \/ \E t \in RefT : vstack' = Append(vstack, t) /\ Emit(<<I("ref.null", t, "")>>)
     \/ \E s \in CallSigs : vstack' = Append(vstack, "funcref") /\ Emit(<<I("ref.func", s, "")>>)
     \/ \E ti \in TIdxClasses : vstack' = Append(vstack, "funcref") /\ Emit(<<C32(ti), I("table.get", 1, "")>>)
     \/ \E ti \in TIdxClasses : vstack' = Append(vstack, "externref") /\ Emit(<<C32(ti), I("table.get", 2, "")>>)
  /\ UNCHANGED <<cstack, bad, fin>>
TableOf(t) == IF t = "funcref" THEN 1 ELSE 2
RefOnTop == Avail >= 1 /\ vstack[Len(vstack)] \in RefT
RefConsume ==   \* with a reference on top: ref.is_null, table.set, table.grow, table.fill
  /\ Live /\ Growing /\ Has("table") /\ RefOnTop
  /\ LET t == vstack[Len(vstack)]  tb == TableOf(t) IN
     \/ vstack' = Append(Pop(1), "i32") /\ Emit(<<I("ref.is_null", "", "")>>)
     \/ \E ti \in TIdxClasses : vstack' = Pop(1) /\ Emit(<<I("local.set", TmpOf(t), ""), C32(ti), I("local.get", TmpOf(t), ""), I("table.set", tb, "")>>)
     \/ \E pc \in PageClasses : vstack' = Append(Pop(1), "i32") /\ Emit(<<C32(pc), I("table.grow", tb, "")>>)
     \/ \E ti \in TIdxClasses : \E ln \in TLenClasses :
          vstack' = Pop(1) /\ Emit(<<I("local.set", TmpOf(t), ""), C32(ti), I("local.get", TmpOf(t), ""), C32(ln), I("table.fill", tb, "")>>)
  /\ UNCHANGED <<cstack, bad, fin>>
TableOps ==     \* table.size, table.copy, table.init, elem.drop, and a call through the mutable table
  /\ Live /\ Growing /\ Has("table")
  /\ \/ \E tb \in 1..2 : vstack' = Append(vstack, "i32") /\ Emit(<<I("table.size", tb, "")>>)
     \/ vstack' = vstack /\ \E src \in 0..1 : \E ln \in TLenClasses : Emit(<<C32("tidxA"), C32("tidxA"), C32(ln), I("table.copy", 1, src)>>)
     \/ vstack' = vstack /\ \E ti \in TIdxClasses : \E ln \in TLenClasses : Emit(<<C32(ti), C32("tidxA"), C32(ln), I("table.copy", 1, 1)>>)
     \/ vstack' = vstack /\ \E seg \in (IF Rare THEN 0..1 ELSE 1..1) : \E ln \in TLenClasses : Emit(<<C32("tidxA"), C32("segoff"), C32(ln), I("table.init", seg, 1)>>)
     \/ vstack' = vstack /\ Len(code) % 7 = 0 /\ Emit(<<I("elem.drop", 1, "")>>)
     \/ \E s \in CallSigs : /\ Len(s.p) <= Avail /\ TopTypes(Len(s.p)) = s.p
                            /\ vstack' = Pop(Len(s.p)) \o s.r
                            /\ Emit(<<C32("tidxA"), I("call_indirect_t1", s, "")>>)
  /\ UNCHANGED <<cstack, bad, fin>>

(* atomic accesses (threads proposal, executed by one thread): [i32 t*] -> [t?].  The alignment immediate must be the
   natural one and the effective address must be aligned, else the access traps; the address class "addrA" is aligned
   most of the time.  Operands are taken from the stack through scratch locals so that the address can go below them. *)
AtomicImms == {"amem1", "amem2", "amem4", "amem8"}
AtomicOps == {o \in Ops : o.imm \in AtomicImms}
Atomic ==
  /\ Live /\ Growing /\ Has("atomic")
  /\ \E o \in AtomicOps :
       LET rest == SubSeq(o.pop, 2, Len(o.pop))  k == Len(rest) IN
       /\ k <= Avail /\ TopTypes(k) = rest
       /\ vstack' = Pop(k) \o o.push
       /\ Emit((IF k = 2 THEN <<I("local.set", TmpOf(rest[2]) + 1, "")>> ELSE <<>>)
               \o (IF k >= 1 THEN <<I("local.set", TmpOf(rest[1]), "")>> ELSE <<>>)
               \o <<C32("addrA")>>
               \o (IF k >= 1 THEN <<I("local.get", TmpOf(rest[1]), "")>> ELSE <<>>)
               \o (IF k = 2 THEN <<I("local.get", TmpOf(rest[2]) + 1, "")>> ELSE <<>>)
               \o <<I(o.op, o.imm, "")>>)
  /\ UNCHANGED <<cstack, bad, fin>>
(* ... and with operands of their own, so that they occur as often as the other accesses *)
AtomicAtom ==
  /\ Live /\ Growing /\ Has("atomic")
  /\ \E o \in AtomicOps :
       LET rest == SubSeq(o.pop, 2, Len(o.pop)) IN
       /\ vstack' = vstack \o o.push
       /\ Emit(<<C32("addrA")>> \o [i \in 1..Len(rest) |-> IF i = 1 THEN I("local.get", TmpOf(rest[i]), "") ELSE ConstOf(rest[i])] \o <<I(o.op, o.imm, "")>>)
  /\ UNCHANGED <<cstack, bad, fin>>
Fence == /\ Live /\ Growing /\ Has("atomic") /\ Len(code) % 6 = 0 /\ \E o \in Ops : o.imm = "fence" /\ Emit(<<I(o.op, "", "")>>)
         /\ UNCHANGED <<vstack, cstack, bad, fin>>

(* tail calls: return_call f / return_call_indirect: the callee's results must be the function's; like return, the rest
   of the frame is unreachable.  Only on a conditional path (see Exit). *)
TailCall ==
  /\ Live /\ Growing /\ Has("tailcall") /\ Len(cstack) > 1 /\ Top.kind \in {"if", "else"}
  /\ \E s \in CallSigs : /\ s.r = Results /\ Len(s.p) <= Avail /\ TopTypes(Len(s.p)) = s.p
                         /\ \E ind \in BOOLEAN : Emit(IF ind THEN <<I("i32.const", "slot", s), I("return_call_indirect", s, "")>> ELSE <<I("return_call", s, "")>>)
  /\ cstack' = [cstack EXCEPT ![Len(cstack)].unreach = TRUE]
  /\ UNCHANGED <<vstack, bad, fin>>

(* calls of host functions (imported from "env"): the host records name and arguments, the sequence is compared *)
HostCall ==
  /\ Live /\ Growing /\ Has("host")
  /\ \E s \in HostSigs : /\ Len(s.p) <= Avail /\ TopTypes(Len(s.p)) = s.p
                         /\ vstack' = Pop(Len(s.p)) \o s.r /\ Emit(<<I("callhost", s, "")>>)
  /\ UNCHANGED <<cstack, bad, fin>>

Supply(ts) == [k \in 1..Len(ts) |-> I("local.get", TmpOf(ts[k]), "")]
(* br d with the label's operands supplied from scratch locals: possible whatever is on the stack *)
ExitSupplied ==
  /\ \E d \in 0..(Len(cstack) - 2) :
       LET f == cstack[Len(cstack) - d] IN
       /\ f.kind \in {"block", "if", "else"}
       /\ Emit(Supply(f.res) \o <<I("br", d, "")>>)
  /\ cstack' = [cstack EXCEPT ![Len(cstack)].unreach = TRUE]
  /\ UNCHANGED <<vstack, bad, fin>>

(* multi-value block types [p] -> [r]: the parameters are popped from the enclosing frame and are the first operands of
   the new one; the label of a block / if carries r, the label of a loop carries p.  Loops are [p] -> [p] so that the
   counted back-edge (br_if 0 with the parameters below the condition) and the fall-through both type. *)
BlockSigs == {[p |-> <<"i32">>, r |-> <<"i32">>], [p |-> <<"i64">>, r |-> <<"i64">>], [p |-> <<"v128">>, r |-> <<"v128">>],
              [p |-> <<"i32", "v128">>, r |-> <<"i32", "v128">>], [p |-> <<"f64", "i32">>, r |-> <<"f64", "i32">>],
              [p |-> <<"i32", "i32">>, r |-> <<"i32">>], [p |-> <<>>, r |-> <<"i32", "i64">>], [p |-> <<"f32">>, r |-> <<"f32", "f32">>]}
OpenMulti ==
  /\ Live /\ Growing /\ Has("multi") /\ Len(cstack) < 5 /\ Len(code) % 3 # 1
  /\ \E bs \in BlockSigs : \E own \in BOOLEAN :      \* own: the operands already on the stack are the parameters
       LET np == Len(bs.p)
           base == IF own THEN Len(vstack) - np ELSE Len(vstack)
           pre == IF own THEN <<>> ELSE Supply(bs.p)
           inside == IF own THEN vstack ELSE vstack \o bs.p IN
       /\ own => np > 0 /\ np <= Avail /\ TopTypes(np) = bs.p
       /\ \/ /\ cstack' = Append(cstack, FrameP("block", bs.p, bs.r, base, Top.loops))
             /\ Emit(pre \o <<I("block", bs, "")>>) /\ vstack' = inside
          \/ /\ bs.p = bs.r /\ Top.loops < 3
             /\ cstack' = Append(cstack, FrameP("loop", bs.p, bs.r, base, Top.loops + 1))
             /\ Emit(pre \o <<I("i32.const", 2 + (Mix % 2), ""), I("local.set", Counter(Top.loops + 1), ""), I("loop", bs, "")>>) /\ vstack' = inside
          \/ /\ cstack' = Append(cstack, FrameP("if", bs.p, bs.r, base, Top.loops))
             /\ Emit(pre \o <<I("local.get", TmpOf("i32"), ""), I("if", bs, "")>>) /\ vstack' = inside
  /\ UNCHANGED <<bad, fin>>

(* dead code: after an unconditional exit the operand stack of the frame is polymorphic - operands that are not there
   have whatever type is asked for.  Every step below is balanced (it leaves no value behind), so the frame can still end.
   A block opened here is ordinary code that is never executed. *)
LabelT(d) == LET f == cstack[Len(cstack) - d] IN IF f.kind = "loop" THEN f.par ELSE f.res      \* d = Len(cstack) - 1 is the function itself
SameLabel(d) == {e \in 0..(Len(cstack) - 1) : LabelT(e) = LabelT(d)}
DeadOps == {o \in Ops : o.op \in {"i32.add", "f64.sqrt", "i64.eqz", "i8x16.swizzle"}}
Drops(n) == [k \in 1..n |-> I("drop", "", "")]
DeadCode ==
  /\ ~fin /\ Top.unreach /\ Growing /\ Has("dead") /\ Len(code) % 4 # 3
  /\ \/ Emit(<<I("drop", "", "")>>) /\ UNCHANGED cstack
     \/ (\E o \in DeadOps : Emit(<<I(o.op, "", "")>> \o Drops(Len(o.push))) /\ UNCHANGED cstack)
     \/ (\E d \in {0, Mix % Len(cstack)} : Emit(<<I("br", d, "")>>) /\ UNCHANGED cstack)
     \/ (Has("brtable") /\ \E d3 \in 0..(Len(cstack) - 1) :          \* all labels of one br_table carry the same types; its operands are polymorphic
            LET d1 == CHOOSE d \in SameLabel(d3) : \A e \in SameLabel(d3) : d <= e
                d2 == CHOOSE d \in SameLabel(d3) : \A e \in SameLabel(d3) : e <= d IN
            Emit(<<I("br_table", <<d1, d2>>, d3)>>) /\ UNCHANGED cstack)
     \/ (Len(cstack) < 5 /\ Emit(<<I("block", <<>>, "")>>) /\ cstack' = Append(cstack, Frame("block", <<>>, Len(vstack), Top.loops)))
     \/ (\E op \in {"return", "unreachable"} : Emit(<<I(op, "", "")>>) /\ UNCHANGED cstack)
  /\ UNCHANGED <<vstack, bad, fin>>

(* br_table: [i32] and the operands of the targets; all targets must expect the same types - here none *)
BrTable ==
  /\ Live /\ Growing /\ Has("brtable") /\ Len(cstack) > 1 /\ Top.kind \in {"if", "else"}
  /\ Avail >= 1 /\ vstack[Len(vstack)] = "i32"
  /\ LET targets == {d \in 0..(Len(cstack) - 2) : cstack[Len(cstack) - d].kind \in {"block", "if", "else"} /\ cstack[Len(cstack) - d].res = <<>>} IN
     \E d1 \in targets : \E d2 \in targets : \E d3 \in targets : Emit(<<I("br_table", <<d1, d2>>, d3)>>)
  /\ vstack' = Pop(1)
  /\ cstack' = [cstack EXCEPT ![Len(cstack)].unreach = TRUE]
  /\ UNCHANGED <<bad, fin>>

-----------------------------------------------------------------------------
(* closing phase: drop what is too much, push what is missing, end *)
Need == Top.res
Have == Avail
Close ==
  /\ Live /\ ~Growing
  /\ IF Have > Len(Need) \/ (Have > 0 /\ TopTypes(Have) # SubSeq(Need, 1, Have))
     THEN vstack' = Pop(1) /\ Emit(<<I("drop", "", "")>>)
     ELSE /\ Have < Len(Need)
          /\ vstack' = Append(vstack, Need[Have + 1]) /\ Emit(<<ConstOf(Need[Have + 1])>>)
  /\ UNCHANGED <<cstack, bad, fin>>

Finish == /\ ~fin /\ Len(cstack) = 1 /\ AtEnd(Top) /\ (~Growing \/ Top.unreach)
          /\ Emit(<<I("end", "", "")>>) /\ fin' = TRUE /\ UNCHANGED <<vstack, cstack, bad>>

(* Self-contained snippets about rules the signature table does not express.  Each entry names the rule, an ill-typed byte
   sequence (bad) and its well-typed twin (ok) that differs only in the point the rule is about; both leave the operand stack
   as it was.  The twin is emitted in valid bodies now and then (it must be accepted and run), the bad form is one of
   MutateInvalid's choices (it must be rejected): a twin that is rejected shows a wrong encoding here, not in wazero. *)
Raw(bytes, note) == I("raw", bytes, note)
V0 == <<253, 12, 0, 0, 0, 0, 0, 0, 0, 0, 0, 0, 0, 0, 0, 0, 0, 0>>                          \* v128.const 0
Sn(why, illTyped, twin) == [why |-> why, bad |-> illTyped, ok |-> twin]
Snippets == {
  Sn("alignment above natural", <<Raw(<<65, 0, 40, 3, 0, 26>>, "i32.const 0; i32.load align=8; drop")>>,
                                <<Raw(<<65, 0, 40, 2, 0, 26>>, "i32.const 0; i32.load align=4; drop")>>),
  Sn("atomic alignment not natural", <<Raw(<<65, 0, 254, 16, 1, 0, 26>>, "i32.const 0; i32.atomic.load align=2; drop")>>,
                                     <<Raw(<<65, 0, 254, 16, 2, 0, 26>>, "i32.const 0; i32.atomic.load align=4; drop")>>),
  Sn("concrete operand of the wrong type in dead code", <<Raw(<<2, 64, 12, 0, 66, 1, 69, 26, 11>>, "block; br 0; i64.const 1; i32.eqz; drop; end")>>,
                                                        <<Raw(<<2, 64, 12, 0, 65, 1, 69, 26, 11>>, "block; br 0; i32.const 1; i32.eqz; drop; end")>>),
  Sn("br_table labels of different types", <<Raw(<<2, 127, 2, 64, 65, 0, 65, 0, 14, 1, 0, 1, 11, 65, 1, 11, 26>>, "block(i32); block; i32.const 0; i32.const 0; br_table 0 1; end; i32.const 1; end; drop")>>,
                                           <<Raw(<<2, 127, 2, 127, 65, 0, 65, 0, 14, 1, 0, 1, 11, 11, 26>>, "block(i32); block(i32); i32.const 0; i32.const 0; br_table 0 1; end; end; drop")>>),
  Sn("select on operands of different types", <<Raw(<<65, 1, 66, 1, 65, 0, 27, 26>>, "i32.const 1; i64.const 1; i32.const 0; select; drop")>>,
                                              <<Raw(<<66, 1, 66, 1, 65, 0, 27, 26>>, "i64.const 1; i64.const 1; i32.const 0; select; drop")>>),
  Sn("untyped select on references", <<Raw(<<208, 112, 208, 112, 65, 0, 27, 26>>, "ref.null func x2; i32.const 0; select; drop")>>,
                                     <<Raw(<<208, 112, 208, 112, 65, 0, 28, 1, 112, 26>>, "ref.null func x2; i32.const 0; select (result funcref); drop")>>),
  Sn("typed select with another type", <<Raw(<<65, 1, 65, 2, 65, 0, 28, 1, 126, 26>>, "i32 i32 i32; select (result i64); drop")>>,
                                       <<Raw(<<65, 1, 65, 2, 65, 0, 28, 1, 127, 26>>, "i32 i32 i32; select (result i32); drop")>>),
  Sn("else arm of another type", <<Raw(<<65, 0, 4, 127, 65, 1, 5, 67, 0, 0, 128, 63, 11, 26>>, "i32.const 0; if(i32); i32.const 1; else; f32.const 1; end; drop")>>,
                                 <<Raw(<<65, 0, 4, 127, 65, 1, 5, 65, 2, 11, 26>>, "i32.const 0; if(i32); i32.const 1; else; i32.const 2; end; drop")>>),
  Sn("block result of another type", <<Raw(<<2, 127, 67, 0, 0, 128, 63, 11, 26>>, "block(i32); f32.const 1; end; drop")>>,
                                     <<Raw(<<2, 125, 67, 0, 0, 128, 63, 11, 26>>, "block(f32); f32.const 1; end; drop")>>),
  Sn("lane index out of range", <<Raw(V0 \o <<253, 21, 16, 26>>, "v128.const; i8x16.extract_lane_s 16; drop")>>,
                                <<Raw(V0 \o <<253, 21, 15, 26>>, "v128.const; i8x16.extract_lane_s 15; drop")>>),
  Sn("shuffle lane out of range", <<Raw(V0 \o V0 \o <<253, 13, 32, 0, 0, 0, 0, 0, 0, 0, 0, 0, 0, 0, 0, 0, 0, 0, 26>>, "v128.const x2; i8x16.shuffle 32 0..; drop")>>,
                                  <<Raw(V0 \o V0 \o <<253, 13, 31, 0, 0, 0, 0, 0, 0, 0, 0, 0, 0, 0, 0, 0, 0, 0, 26>>, "v128.const x2; i8x16.shuffle 31 0..; drop")>>),
  Sn("load lane index out of range", <<Raw(<<65, 0>> \o V0 \o <<253, 86, 2, 0, 4, 26>>, "i32.const 0; v128.const; v128.load32_lane lane 4; drop")>>,
                                     <<Raw(<<65, 0>> \o V0 \o <<253, 86, 2, 0, 3, 26>>, "i32.const 0; v128.const; v128.load32_lane lane 3; drop")>>),
  Sn("funcref stored in an externref table", <<Raw(<<65, 0, 208, 112, 38, 2>>, "i32.const 0; ref.null func; table.set 2")>>,
                                             <<Raw(<<65, 0, 208, 111, 38, 2>>, "i32.const 0; ref.null extern; table.set 2")>>),
  Sn("memory index not zero", <<Raw(<<63, 1, 26>>, "memory.size 1; drop")>>, <<Raw(<<63, 0, 26>>, "memory.size 0; drop")>>),
  Sn("ref.is_null on a number", <<Raw(<<65, 0, 209, 26>>, "i32.const 0; ref.is_null; drop")>>, <<Raw(<<208, 111, 209, 26>>, "ref.null extern; ref.is_null; drop")>>),
  Sn("if on a condition that is not i32", <<Raw(<<66, 1, 4, 64, 11>>, "i64.const 1; if; end")>>, <<Raw(<<65, 1, 4, 64, 11>>, "i32.const 1; if; end")>>),
  Sn("br_if without the label's operand", <<Raw(<<2, 127, 65, 0, 13, 0, 65, 1, 11, 26>>, "block(i32); i32.const 0; br_if 0; i32.const 1; end; drop")>>,
                                          <<Raw(<<2, 127, 65, 7, 65, 0, 13, 0, 11, 26>>, "block(i32); i32.const 7; i32.const 0; br_if 0; end; drop")>>),
  Sn("label out of range in dead code", <<Raw(<<2, 64, 12, 0, 12, 99, 11>>, "block; br 0; br 99; end")>>, <<Raw(<<2, 64, 12, 0, 12, 0, 11>>, "block; br 0; br 0; end")>>),
  Sn("else without if", <<Raw(<<2, 64, 5, 11>>, "block; else; end")>>, <<Raw(<<65, 0, 4, 64, 5, 11>>, "i32.const 0; if; else; end")>>),
  Sn("local.tee of another type", <<I("i64.const", 1, ""), I("local.tee", TmpOf("i32"), ""), I("drop", "", "")>>,
                                  <<I("i64.const", 1, ""), I("local.tee", TmpOf("i64"), ""), I("drop", "", "")>>),
  Sn("call_indirect through an externref table", <<Raw(<<2, 64, 12, 0, 65, 0, 66, 0, 65, 0, 17, 0, 2, 26, 11>>, "block; br 0; i32.const 0; i64.const 0; i32.const 0; call_indirect (type 0 = [i32 i64]->[i64]) table 2; drop; end")>>,
                                                 <<Raw(<<2, 64, 12, 0, 65, 0, 66, 0, 65, 0, 17, 0, 0, 26, 11>>, "the same through table 0 (never executed)")>>)}
ValidSnippet == /\ Live /\ Growing /\ Len(code) % 7 = 2
                /\ \E sn \in Snippets : Emit(sn.ok)
                /\ UNCHANGED <<vstack, cstack, bad, fin>>

-----------------------------------------------------------------------------
(* exactly one ill-typed step; afterwards the walk continues as if nothing had happened *)
MutateInvalid ==
  /\ AllowInvalid /\ bad = "" /\ Live /\ Growing /\ Len(code) > 2
  /\ \/ \* an operand of the wrong type
        \E o \in Ops : /\ Len(o.pop) >= 1 /\ Len(o.pop) <= Avail /\ o.imm = ""
                       /\ TopTypes(Len(o.pop)) # o.pop
                       /\ \A i \in 1..Len(o.pop) : i < Len(o.pop) => TopTypes(Len(o.pop))[i] = o.pop[i]
                       /\ vstack' = Pop(Len(o.pop)) \o o.push
                       /\ Emit(<<I(o.op, o.imm, "")>>) /\ bad' = "operand type"
     \/ \* a missing operand
        /\ Avail = 0 /\ \E o \in Ops : Len(o.pop) = 1 /\ o.imm = "" /\ vstack' = vstack \o o.push
                                       /\ Emit(<<I(o.op, o.imm, "")>>) /\ bad' = "missing operand"
     \/ \* an index out of range
        \E k \in {"local", "global", "func", "label", "type"} :
           /\ vstack' = vstack /\ bad' = k \o " index out of range"
           /\ Emit(CASE k = "local" -> <<I("local.get", 9999, ""), I("drop", "", "")>>
                     [] k = "global" -> <<I("global.get", 9999, ""), I("drop", "", "")>>
                     [] k = "func" -> <<I("callraw", 9999, "")>>
                     [] k = "label" -> <<I("i32.const", 0, ""), I("br_if", 99, "")>>
                     [] k = "type" -> <<I("i32.const", 0, ""), I("call_indirect_raw", 9999, "")>>)
     \/ \* writing an immutable global
        /\ Avail >= 1 /\ vstack[Len(vstack)] = "i32" /\ vstack' = Pop(1)
        /\ Emit(<<I("global.set", "immutable", "")>>) /\ bad' = "immutable global"
     \/ \* one of the snippets about rules outside the signature table
        \E sn \in Snippets : vstack' = vstack /\ Emit(sn.bad) /\ bad' = sn.why
     \/ \* an if without else whose block type does not map its parameters to themselves (the false path would leave an i64 for a v128)
        /\ Has("multi") /\ vstack' = vstack /\ bad' = "if without else changes type"
        /\ Emit(<<I("i64.const", 1, ""), I("i32.const", 0, ""), I("if", [p |-> <<"i64">>, r |-> <<"v128">>], ""), I("drop", "", ""),
                  ConstOf("v128"), I("end_raw", "", ""), I("drop", "", "")>>)
     \/ \* an extra value at the end of a block: modelled by pushing a value that is never consumed
        /\ Len(cstack) > 1 /\ vstack' = vstack /\ Emit(<<I("i64.const", 1, ""), I("end_raw", "", "")>>) /\ bad' = "extra value at end"
        /\ Top.kind \in {"block", "loop"} /\ AtEnd(Top)
  /\ UNCHANGED <<cstack, fin>>

Step == \/ Plain \/ MemLoad \/ MemStore \/ MemLane \/ LocalGet \/ LocalSet \/ GlobalGet \/ GlobalSet \/ Drop \/ Select \/ Call
        \/ SetAddr \/ MemLoadReg \/ MemStoreReg \/ MemStoreAtom \/ GuardedAccess \/ FusedBin
        \/ MemSize \/ MemGrow \/ Bulk \/ RefProduce \/ RefConsume \/ TableOps \/ BrTable
        \/ Atomic \/ AtomicAtom \/ Fence \/ TailCall \/ HostCall \/ OpenMulti \/ DeadCode \/ CallWide \/ ValidSnippet \/ LoopShift
        \/ OpenBlock \/ OpenLoop \/ OpenIf \/ Else \/ End \/ BrIf \/ Exit \/ Close \/ Finish \/ MutateInvalid
(* a comparison result is consumed by a conditional most of the time (OpenIf is enabled whenever the guard holds) *)
Next == IF pend # "" THEN PickRel
        ELSE IF Has("table") /\ Live /\ Growing /\ RefOnTop /\ Len(code) % 5 # 4        \* a fresh reference is used, most of the time
        THEN RefConsume /\ pend' = ""
        ELSE IF Idioms /\ JustCompared /\ Live /\ Growing /\ Len(cstack) < 5 /\ Len(code) % 4 # 3
        THEN (OpenIf \/ BrIf) /\ pend' = ""
        ELSE IF Idioms /\ Live /\ Growing /\ Top.loops > 0 /\ Mix % 6 = 2
        THEN LoopShift /\ pend' = ""           \* loop-carried values, regularly inside loops
        ELSE IF Idioms /\ Live /\ Growing /\ Len(cstack) < 4 /\ Top.loops < 2 /\ Mix % 31 = 7
        THEN OpenLoop /\ pend' = ""            \* loops are where block parameters come from: opened now and then, not one choice in hundreds
        ELSE IF Has("dead") /\ Live /\ Growing /\ Len(cstack) > 1 /\ Top.kind \in {"if", "else", "block"} /\ Mix % 5 = 1
        THEN ExitSupplied /\ pend' = ""        \* an unconditional exit now and then, so that dead code is generated
        ELSE (Step /\ pend' = "") \/ FusedAtoms
Spec == Init /\ [][Next]_vars

-----------------------------------------------------------------------------
(* invariants of the automaton itself *)
StackAboveFrames == \A i \in 1..Len(cstack) : cstack[i].height <= Len(vstack) \/ cstack[i].unreach \/ \E j \in i..Len(cstack) : cstack[j].unreach
FramesNested == \A i \in 1..(Len(cstack) - 1) : cstack[i].height <= cstack[i + 1].height
Bounded == Len(code) - Len(Prologue) <= MaxLen + 12
EmitBody == fin => PrintT(<<"EMIT", ToJson([params |-> Params, results |-> Results, code |-> code, bad |-> bad])>>)
=============================================================================
