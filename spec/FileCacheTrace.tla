--------------------------- MODULE FileCacheTrace ---------------------------
(* The order of the steps of a real fileCache.Add (hook points H2) must be a behaviour of FileCache.tla:
   create temp . write everything . sync . close . rename.  mid-copy points are stuttering. *)
EXTENDS FileCacheMC, IOUtils

Trace == ndJsonDeserialize("trace.ndjson")
VARIABLE l
tvars == <<vars, l>>
Line == Trace[l]
IsEvent(e) == l <= Len(Trace) /\ Line.ev = e /\ l' = l + 1

TInit == Init /\ l = 1

TCreate == IsEvent("after-create") /\ CreateTemp(Line.w)
TChunk  == IsEvent("mid-copy") /\ wpc[Line.w] = "writing" /\ UNCHANGED vars
TCopied == /\ IsEvent("after-copy") /\ wpc[Line.w] = "writing"      \* = WriteChunk^N
           /\ dir' = [dir EXCEPT ![wtmp[Line.w]].written = N]
           /\ UNCHANGED <<wpc, wtmp, crashes, reads, hist>>
TSync   == IsEvent("after-sync") /\ Sync(Line.w)
TClose  == IsEvent("after-close") /\ CloseFile(Line.w)
TRename == IsEvent("after-rename") /\ Rename(Line.w)
TReset  == /\ IsEvent("reset")
           /\ dir' = [n \in {} |-> 0] /\ wpc' = [w \in Writers |-> "idle"] /\ wtmp' = [w \in Writers |-> ""]
           /\ crashes' = 0 /\ reads' = <<>> /\ hist' = <<>>

TNext == TCreate \/ TChunk \/ TCopied \/ TSync \/ TClose \/ TRename \/ TReset
TraceSpec == TInit /\ [][TNext]_tvars

ASSUME TLCSet(1, 0)
HighWater == TLCSet(1, IF l > TLCGet(1) THEN l ELSE TLCGet(1))
Post == PrintT(<<"HIGHWATER", TLCGet(1), Len(Trace)>>) /\ TLCGet(1) = Len(Trace) + 1
=============================================================================
