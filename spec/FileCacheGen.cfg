SPECIFICATION Spec
CONSTANTS
  Writers <- W2
  KeyOf <- K2
  N = 3
  MaxCrashes = 2
  PreStale <- NoStale
INVARIANTS Emit
CHECK_DEADLOCK FALSE
