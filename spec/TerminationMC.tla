--------------------------- MODULE TerminationMC ---------------------------
EXTENDS Termination
F(m, b) == [mod |-> m, body |-> b]
(* the catalogue of cycle shapes; every program starts in main (module app) *)
Shapes == [
  loop          |-> [main |-> F("app", <<N("work", 0), N("back", 1)>>)],
  nested_loops  |-> [main |-> F("app", <<N("work", 0), N("work", 0), N("back", 2), N("back", 1)>>)],
  loop_with_call |-> [main |-> F("app", <<N("call", "f"), N("back", 1)>>), f |-> F("app", <<N("work", 0), N("ret", 0)>>)],
  recursion     |-> [main |-> F("app", <<N("call", "main"), N("ret", 0)>>)],
  mutual_recursion |-> [main |-> F("app", <<N("call", "g"), N("ret", 0)>>), g |-> F("app", <<N("call", "main"), N("ret", 0)>>)],
  indirect_cycle |-> [main |-> F("app", <<N("calli", "main"), N("ret", 0)>>)],
  tail_call_cycle |-> [main |-> F("app", <<N("work", 0), N("rcall", "main")>>)],
  tail_call_indirect_cycle |-> [main |-> F("app", <<N("work", 0), N("rcalli", "main")>>)],
  mutual_tail_calls |-> [main |-> F("app", <<N("rcall", "g")>>), g |-> F("app", <<N("rcall", "main")>>)],
  loop_in_host_callback |-> [main |-> F("app", <<N("host", "cb"), N("ret", 0)>>), cb |-> F("app", <<N("work", 0), N("back", 1)>>)],
  loop_in_imported_function |-> [main |-> F("app", <<N("call", "spin"), N("ret", 0)>>), spin |-> F("lib", <<N("work", 0), N("back", 1)>>)],
  \* re-entrant host functions: the callback loops under a derived context with its own deadline; the callback's stop is swallowed
  \* and the caller then loops itself (it must be stopped as well, with the same exit code)
  loop_in_host_callback_with_derived_deadline |-> [main |-> F("app", <<N("hostd", "cb"), N("ret", 0)>>), cb |-> F("app", <<N("work", 0), N("back", 1)>>)],
  outer_loop_after_swallowed_stop |-> [main |-> F("app", <<N("hosts", "cb"), N("work", 0), N("back", 2)>>), cb |-> F("app", <<N("work", 0), N("back", 1)>>)],
  loop_two_levels_into_import |-> [main |-> F("app", <<N("call", "f"), N("ret", 0)>>), f |-> F("lib", <<N("call", "spin"), N("ret", 0)>>),
                                   spin |-> F("lib", <<N("work", 0), N("back", 1)>>)]
]
ShapeNames == DOMAIN Shapes
=============================================================================
