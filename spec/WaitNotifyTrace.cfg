SPECIFICATION TraceSpec
CONSTANTS
  Agents <- TAgents
  Vals = {0, 1}
  MaxOps = 1000
  TimeoutAtomic = FALSE
INVARIANTS QueueExact NoDuplicates
CONSTRAINT HighWater
POSTCONDITION Post
CHECK_DEADLOCK FALSE
