SPECIFICATION Spec
CONSTANTS
  Threads <- T1
  Names <- N3
  MaxMods = 3
  MaxOps = 4
  UnlistByIdentity = TRUE
  AttachEarly = TRUE
  KeepHist = TRUE
  StartKinds <- StartsBoth
  OpKinds <- AllOps
INVARIANTS Emit
CHECK_DEADLOCK FALSE
