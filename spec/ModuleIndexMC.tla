------------------------------ MODULE ModuleIndexMC ------------------------------
EXTENDS ModuleIndex
FNames == <<"f0", "f1", "f2">>
Exps(nimp, ft, table, mem, glob) ==
  [k \in 1..Len(ft) |-> [n |-> FNames[k], k |-> "func", i |-> nimp + k - 1]] \o
  (IF table THEN <<[n |-> "tab", k |-> "table", i |-> 0]>> ELSE <<>>) \o
  (IF mem THEN <<[n |-> "mem", k |-> "mem", i |-> 0]>> ELSE <<>>) \o
  (IF glob # "none" THEN <<[n |-> "g", k |-> "global", i |-> 0]>> ELSE <<>>)
Mk(ntypes, nimp, ft, table, mem, glob, data, dc, emode) ==
  [ntypes |-> ntypes, imptypes |-> [k \in 1..nimp |-> 0], ftypes |-> ft, ncode |-> Len(ft), table |-> table, mem |-> mem, glob |-> glob,
   data |-> data, datacount |-> dc, elem |-> [mode |-> emode, tbl |-> 0, fs |-> IF emode = "none" THEN <<>> ELSE <<nimp>>],
   exports |-> Exps(nimp, ft, table, mem, glob), start |-> -1, layout |-> [k |-> "none", sec |-> 0], body |-> B(1, "none", 0, 0), valid |-> TRUE]
(* everything present *)
Full == {Mk(2, nimp, ft, TRUE, TRUE, "mut", "passive", 1, "passive") : nimp \in {0, 1}, ft \in {<<0, 1>>, <<1, 0, 0>>, <<0>>, <<0, 0, 1>>}}
(* nothing but functions *)
Sparse == {Mk(1, 0, ft, FALSE, FALSE, "none", "none", -1, "none") : ft \in {<<0>>, <<0, 0>>}}
(* one feature different from Full *)
Mixed == {Mk(2, nimp, <<0, 1>>, FALSE, TRUE, "mut", "passive", 1, "passive") : nimp \in {0, 1}} \cup
         {Mk(2, nimp, <<0, 1>>, TRUE, FALSE, "mut", "none", -1, "passive") : nimp \in {0, 1}} \cup
         {Mk(2, nimp, <<1, 0>>, TRUE, TRUE, "const", "active", -1, "active") : nimp \in {0, 1}} \cup
         {Mk(2, nimp, <<1, 0>>, TRUE, TRUE, "none", "passive", -1, "none") : nimp \in {0, 1}} \cup
         {Mk(2, 1, <<0, 0>>, TRUE, TRUE, "mut", "active", 1, "active")}
QuickShapes == {Mk(2, nimp, ft, TRUE, TRUE, "mut", "passive", 1, "passive") : nimp \in {0, 1}, ft \in {<<0, 1>>, <<1, 0, 0>>}} \cup
               {Mk(1, 0, <<0, 0>>, FALSE, FALSE, "none", "none", -1, "none"), Mk(2, 1, <<0, 0>>, TRUE, TRUE, "mut", "active", 1, "active"),
                Mk(2, 0, <<1, 0>>, TRUE, TRUE, "const", "active", -1, "active")}
AllShapes == Full \cup Sparse \cup Mixed
=============================================================================
