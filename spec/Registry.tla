------------------------------ MODULE Registry ------------------------------
(***************************************************************************)
(* Runtime + store name registry of wazero (C10), at the grain of the      *)
(* implementation's critical sections.                                     *)
(*                                                                         *)
(*   Runtime.InstantiateModule = InstCheck . Register                      *)
(*                               ( . FailClose . FailUnlist . FailRes )    *)
(*                               . Attach                                  *)
(*   api.Module.Close          = CloseCAS . Unlist . CloseRes              *)
(*   Runtime.Module            = Lookup                   (read lock)      *)
(*   Runtime.Close             = RtCAS . StoreLock . (StoreCloseCAS .      *)
(*                               StoreCloseMod)* .                         *)
(*                               StoreCloseDone           (write lock)     *)
(*   Runtime.CompileModule / HostModuleBuilder.Compile = Compile           *)
(*                                                                         *)
(* Register, Unlist, Lookup and StoreClose run under Store.mux; the CAS    *)
(* steps and the closed-flag reads are lock free.                          *)
(*                                                                         *)
(* Two switches select between "what the property demands" and what the    *)
(* pinned code did; the specification that traces are validated against    *)
(* and histories are replayed from is always the demanded one:             *)
(*   UnlistByIdentity  TRUE : Unlist(m) removes the name only if m owns it *)
(*   AttachEarly       TRUE : the close notifier is attached before the    *)
(*                            module becomes visible (Register)            *)
(***************************************************************************)
EXTENDS Naturals, Sequences, FiniteSets, TLC, Json

CONSTANTS Threads,           \* set of thread ids (strings)
          Names,             \* set of module names; "" is the anonymous module
          MaxMods,           \* bound on module instances ever built
          MaxOps,            \* operations per thread
          UnlistByIdentity,
          AttachEarly,
          KeepHist,          \* TRUE: hist/snaps record the whole history (replay generation)
          OpKinds,           \* subset of {"inst","close","lookup","rtclose","compile","hostcompile"}
          StartKinds         \* subset of {"none","exit"}: what the exported _start of an instantiated module does ("exit": a host
                             \* function it calls panics with an exit error WITHOUT closing the module)

VARIABLES rtClosed,          \* Runtime.closed # 0
          storeClosed,       \* Store.nameToModule = nil
          owner,             \* [Names \ {""} -> 0..MaxMods]  Store.nameToModule
          listed,            \* set of module ids in Store.moduleList
          lock,              \* holder of Store.mux across several steps (only StoreClose), or "none"
          mods,              \* sequence of module records
          pc,                \* per thread: current operation and stage
          ops,               \* per thread: operations completed
          hist,              \* completed operations with results (observation only)
          snaps,             \* state snapshot taken whenever an operation begins (observation only)
          last               \* per thread: record of its last completed operation

vars == <<rtClosed, storeClosed, owner, listed, lock, mods, pc, ops, hist, snaps, last>>

Named == Names \ {""}

Snapshot == [owner  |-> [n \in Named |-> IF storeClosed THEN 0 ELSE owner[n]],
             closed |-> [m \in 1..Len(mods) |-> mods[m].closed # 0],
             fired  |-> [m \in 1..Len(mods) |-> mods[m].fired],
             res    |-> [m \in 1..Len(mods) |-> mods[m].res],       \* resource releases (memory, files, code), at most one
             rt     |-> rtClosed]

Idle == [op |-> "idle"]
ModIds == 1..Len(mods)

NewMod(n, wantNotify) == [name |-> n, closed |-> 0, reg |-> FALSE, want |-> wantNotify,
                          notifier |-> "unset", fired |-> 0, res |-> 0, handle |-> FALSE]

-----------------------------------------------------------------------------
Init == /\ rtClosed = FALSE /\ storeClosed = FALSE
        /\ owner = [n \in Named |-> 0]
        /\ listed = {} /\ lock = "none"
        /\ mods = <<>>
        /\ pc = [t \in Threads |-> Idle]
        /\ ops = [t \in Threads |-> 0]
        /\ hist = <<>> /\ snaps = <<>>
        /\ last = [t \in Threads |-> [op |-> "none"]]

Finish(t, rec) == /\ pc' = [pc EXCEPT ![t] = Idle]
                  /\ ops' = [ops EXCEPT ![t] = @ + 1]
                  /\ hist' = IF KeepHist THEN Append(hist, rec @@ [t |-> t]) ELSE hist
                  /\ last' = [last EXCEPT ![t] = rec]
                  /\ UNCHANGED snaps

Goto(t, rec) == /\ pc' = [pc EXCEPT ![t] = rec] /\ UNCHANGED <<ops, hist, snaps, last>>
GotoSnap(t, rec) == /\ pc' = [pc EXCEPT ![t] = rec]
                    /\ snaps' = IF KeepHist THEN Append(snaps, Snapshot) ELSE snaps
                    /\ UNCHANGED <<ops, hist, last>>

(* ---------------------------------------------------------------- begin an operation *)
Begin(t) ==
  /\ pc[t].op = "idle" /\ ops[t] < MaxOps
  /\ \/ \E n \in Names, w \in BOOLEAN, st \in StartKinds :
          /\ "inst" \in OpKinds
          /\ Len(mods) + Cardinality({u \in Threads : pc[u].op = "inst" /\ pc[u].m = 0}) < MaxMods
          /\ GotoSnap(t, [op |-> "inst", stage |-> "check", name |-> n, want |-> w, m |-> 0, err |-> "", start |-> st])
     \/ \E m \in ModIds :
          /\ "close" \in OpKinds /\ mods[m].handle      \* somebody was handed this module
          /\ GotoSnap(t, [op |-> "close", stage |-> "cas", m |-> m])
     \/ \E n \in Named :
          /\ "lookup" \in OpKinds
          /\ GotoSnap(t, [op |-> "lookup", stage |-> "lock", name |-> n])
     \/ /\ "rtclose" \in OpKinds
        /\ GotoSnap(t, [op |-> "rtclose", stage |-> "cas", cur |-> 0])
     \/ \E k \in {"compile", "hostcompile"} \cap OpKinds :
          GotoSnap(t, [op |-> k, stage |-> "check"])
  /\ UNCHANGED <<rtClosed, storeClosed, owner, listed, lock, mods>>

(* ---------------------------------------------------------------- instantiate *)
InstCheck(t) ==
  /\ pc[t].op = "inst" /\ pc[t].stage = "check"
  /\ IF rtClosed
     THEN Finish(t, [op |-> "inst", name |-> pc[t].name, want |-> pc[t].want, start |-> pc[t].start, res |-> "closed", m |-> 0])
     ELSE Goto(t, [pc[t] EXCEPT !.stage = "register"])
  /\ UNCHANGED <<rtClosed, storeClosed, owner, listed, lock, mods>>

RegisterOutcome(n) == IF storeClosed THEN "closed"
                      ELSE IF n # "" /\ owner[n] # 0 THEN "dup" ELSE "ok"

Register(t) ==          \* Store.registerModule, under the write lock; the instance built by
                        \* Store.instantiate gets its id here (it is invisible before)
  /\ pc[t].op = "inst" /\ pc[t].stage = "register" /\ lock = "none"
  /\ LET m == Len(mods) + 1  n == pc[t].name  r == RegisterOutcome(n)
         m0 == NewMod(n, pc[t].want)
         \* the notifier becomes part of the module when (and only when) it becomes visible
         m1 == IF AttachEarly /\ pc[t].want THEN [m0 EXCEPT !.notifier = "set"] ELSE m0 IN
     IF r = "ok"
     THEN /\ owner' = IF n = "" THEN owner ELSE [owner EXCEPT ![n] = m]
          /\ listed' = listed \cup {m}
          /\ mods' = Append(mods, [m1 EXCEPT !.reg = TRUE, !.handle = (pc[t].start = "none")])      \* nobody is handed a module whose start fails
          /\ Goto(t, [pc[t] EXCEPT !.stage = "attach", !.m = m])
     ELSE /\ UNCHANGED <<owner, listed>>
          /\ mods' = Append(mods, m0)
          /\ Goto(t, [pc[t] EXCEPT !.stage = "failcas", !.err = r, !.m = m])
  /\ UNCHANGED <<rtClosed, storeClosed, lock>>

(* the three steps of m.Close() after a failed registration; m was never visible *)
FailCAS(t) ==           \* a module that was never visible is open here; one whose start failed may have been closed by the runtime meanwhile
  /\ pc[t].op = "inst" /\ pc[t].stage = "failcas"
  /\ IF mods[pc[t].m].closed = 0
     THEN /\ mods' = [mods EXCEPT ![pc[t].m].closed = 1]
          /\ Goto(t, [pc[t] EXCEPT !.stage = "failunlist"])
     ELSE /\ UNCHANGED mods
          /\ Finish(t, [op |-> "inst", name |-> pc[t].name, want |-> pc[t].want, start |-> pc[t].start, res |-> pc[t].err, m |-> 0])
  /\ UNCHANGED <<rtClosed, storeClosed, owner, listed, lock>>

DoUnlist(m) ==          \* Store.deleteModule(m), under the write lock
  LET n == mods[m].name IN
  /\ listed' = listed \ {m}
  /\ owner' = IF n = "" \/ storeClosed THEN owner
              ELSE IF UnlistByIdentity /\ owner[n] # m THEN owner
              ELSE [owner EXCEPT ![n] = 0]

FailUnlist(t) ==
  /\ pc[t].op = "inst" /\ pc[t].stage = "failunlist" /\ lock = "none"
  /\ DoUnlist(pc[t].m)
  /\ Goto(t, [pc[t] EXCEPT !.stage = "failres"])
  /\ UNCHANGED <<rtClosed, storeClosed, lock, mods>>

CloseResOf(ms, m) ==    \* ensureResourcesClosed
  [ms EXCEPT ![m].res = @ + 1,
             ![m].fired = IF ms[m].notifier = "set" THEN @ + 1 ELSE @,
             ![m].notifier = IF ms[m].notifier = "set" THEN "fired" ELSE @]

FailRes(t) ==
  /\ pc[t].op = "inst" /\ pc[t].stage = "failres"
  /\ mods' = CloseResOf(mods, pc[t].m)
  /\ Finish(t, [op |-> "inst", name |-> pc[t].name, want |-> pc[t].want, start |-> pc[t].start, res |-> pc[t].err, m |-> 0])
  /\ UNCHANGED <<rtClosed, storeClosed, owner, listed, lock>>

Attach(t) ==            \* runtime.go: mod.CloseNotifier = closeNotifier (lock free, after Register)
  /\ pc[t].op = "inst" /\ pc[t].stage = "attach"
  /\ LET m == pc[t].m IN
     mods' = IF ~AttachEarly /\ pc[t].want /\ mods[m].notifier = "unset"
             THEN [mods EXCEPT ![m].notifier = "set"] ELSE mods
  /\ IF pc[t].start = "none"
     THEN Finish(t, [op |-> "inst", name |-> pc[t].name, want |-> pc[t].want, start |-> pc[t].start, res |-> "ok", m |-> pc[t].m])
     \* the exported _start runs now, on the registered module, and fails with an exit error: InstantiateModule closes the
     \* module (the same three steps) and returns the error - nothing stays registered under the name
     ELSE Goto(t, [pc[t] EXCEPT !.stage = "failcas", !.err = "exit"])
  /\ UNCHANGED <<rtClosed, storeClosed, owner, listed, lock>>

(* ---------------------------------------------------------------- close a module *)
CloseCAS(t) ==
  /\ pc[t].op = "close" /\ pc[t].stage = "cas"
  /\ LET m == pc[t].m IN
     IF mods[m].closed = 0
     THEN /\ mods' = [mods EXCEPT ![m].closed = 1]
          /\ Goto(t, [pc[t] EXCEPT !.stage = "unlist"])
     ELSE /\ UNCHANGED mods
          /\ Finish(t, [op |-> "close", m |-> m, res |-> "noop"])
  /\ UNCHANGED <<rtClosed, storeClosed, owner, listed, lock>>

Unlist(t) ==
  /\ pc[t].op = "close" /\ pc[t].stage = "unlist" /\ lock = "none"
  /\ DoUnlist(pc[t].m)
  /\ Goto(t, [pc[t] EXCEPT !.stage = "res"])
  /\ UNCHANGED <<rtClosed, storeClosed, lock, mods>>

CloseRes(t) ==
  /\ pc[t].op = "close" /\ pc[t].stage = "res"
  /\ mods' = CloseResOf(mods, pc[t].m)
  /\ Finish(t, [op |-> "close", m |-> pc[t].m, res |-> "closed"])
  /\ UNCHANGED <<rtClosed, storeClosed, owner, listed, lock>>

(* ---------------------------------------------------------------- lookup *)
LookupResult(n) == IF storeClosed THEN 0 ELSE owner[n]

Lookup(t) ==            \* Store.module, under the read lock
  /\ pc[t].op = "lookup" /\ lock = "none"
  /\ Finish(t, [op |-> "lookup", name |-> pc[t].name, m |-> LookupResult(pc[t].name)])
  /\ UNCHANGED <<rtClosed, storeClosed, owner, listed, lock, mods>>

(* ---------------------------------------------------------------- runtime close *)
RtCAS(t) ==
  /\ pc[t].op = "rtclose" /\ pc[t].stage = "cas"
  /\ IF rtClosed
     THEN /\ UNCHANGED rtClosed /\ Finish(t, [op |-> "rtclose", res |-> "noop"])
     ELSE /\ rtClosed' = TRUE /\ Goto(t, [pc[t] EXCEPT !.stage = "store"])
  /\ UNCHANGED <<storeClosed, owner, listed, lock, mods>>

StoreLock(t) ==         \* Store.CloseWithExitCode takes the write lock and keeps it
  /\ pc[t].op = "rtclose" /\ pc[t].stage = "store" /\ lock = "none"
  /\ lock' = t
  /\ Goto(t, [pc[t] EXCEPT !.stage = "storemods"])
  /\ UNCHANGED <<rtClosed, storeClosed, owner, listed, mods>>

StoreCloseCAS(t, m) ==  \* m.closeWithExitCode: the CAS on the closed flag, lock free; concurrent Close calls see it before the resources go
  /\ pc[t].op = "rtclose" /\ pc[t].stage = "storemods" /\ pc[t].cur = 0
  /\ m \in listed /\ mods[m].closed = 0
  /\ mods' = [mods EXCEPT ![m].closed = 1]
  /\ Goto(t, [pc[t] EXCEPT !.cur = m])
  /\ UNCHANGED <<rtClosed, storeClosed, owner, listed, lock>>

StoreCloseMod(t, m) ==  \* ... then ensureResourcesClosed of the module whose CAS this thread won
  /\ pc[t].op = "rtclose" /\ pc[t].stage = "storemods" /\ pc[t].cur = m
  /\ mods' = CloseResOf(mods, m)
  /\ Goto(t, [pc[t] EXCEPT !.cur = 0])
  /\ UNCHANGED <<rtClosed, storeClosed, owner, listed, lock>>

StoreCloseDone(t) ==    \* list and map dropped, lock released
  /\ pc[t].op = "rtclose" /\ pc[t].stage = "storemods" /\ pc[t].cur = 0
  /\ \A m \in listed : mods[m].closed # 0
  /\ listed' = {} /\ owner' = [n \in Named |-> 0] /\ storeClosed' = TRUE /\ lock' = "none"
  /\ Finish(t, [op |-> "rtclose", res |-> "closed"])
  /\ UNCHANGED <<rtClosed, mods>>

(* ---------------------------------------------------------------- compile *)
Compile(t) ==           \* binaries and host modules alike must fail with an error once closed
  /\ pc[t].op \in {"compile", "hostcompile"} /\ pc[t].stage = "check"
  /\ IF rtClosed THEN Finish(t, [op |-> pc[t].op, res |-> "closed"])
                 ELSE Goto(t, [pc[t] EXCEPT !.stage = "add"])
  /\ UNCHANGED <<rtClosed, storeClosed, owner, listed, lock, mods>>

CompileAdd(t) ==        \* the engine may have been closed since the check: an error is allowed then
  /\ pc[t].op \in {"compile", "hostcompile"} /\ pc[t].stage = "add"
  /\ \E r \in (IF storeClosed THEN {"ok", "closed"} ELSE {"ok"}) : Finish(t, [op |-> pc[t].op, res |-> r])
  /\ UNCHANGED <<rtClosed, storeClosed, owner, listed, lock, mods>>

InstEngineClosed(t) ==  \* Store.instantiate fails because the engine was closed after the check
  /\ pc[t].op = "inst" /\ pc[t].stage = "register" /\ storeClosed
  /\ Finish(t, [op |-> "inst", name |-> pc[t].name, want |-> pc[t].want, start |-> pc[t].start, res |-> "closed", m |-> 0])
  /\ UNCHANGED <<rtClosed, storeClosed, owner, listed, lock, mods>>

Step(t) == \/ Begin(t) \/ InstCheck(t) \/ Register(t) \/ FailCAS(t) \/ FailUnlist(t)
           \/ FailRes(t) \/ Attach(t) \/ CloseCAS(t) \/ Unlist(t) \/ CloseRes(t) \/ Lookup(t)
           \/ RtCAS(t) \/ StoreLock(t) \/ (\E m \in listed : StoreCloseCAS(t, m) \/ StoreCloseMod(t, m)) \/ StoreCloseDone(t)
           \/ Compile(t) \/ CompileAdd(t) \/ InstEngineClosed(t)

Next == \E t \in Threads : Step(t)

Spec == Init /\ [][Next]_vars

-----------------------------------------------------------------------------
(* Properties *)

Open(m) == mods[m].reg /\ mods[m].closed = 0

(* a thread is between the CAS and the unlist step of closing m *)
Closing(m) == \E t \in Threads : /\ pc[t].op \in {"close", "inst"}
                                 /\ pc[t].stage \in {"unlist", "failunlist"} /\ pc[t].m = m

(* at most one open module owns a name *)
NameUnique == \A a, b \in ModIds :
                (Open(a) /\ Open(b) /\ mods[a].name = mods[b].name /\ mods[a].name # "") => a = b

(* an open named module is the one the registry returns for its name (until the store is closed) *)
OwnerFindable == \A m \in ModIds :
                   (Open(m) /\ mods[m].name # "" /\ ~storeClosed) => owner[mods[m].name] = m

(* lookups return only registered modules, and never a module whose close has completed *)
LookupOnlyOpen == \A n \in Named : owner[n] # 0 =>
                    /\ mods[owner[n]].reg /\ mods[owner[n]].name = n
                    /\ (mods[owner[n]].closed # 0 => Closing(owner[n]) \/ lock # "none")

ListedOnlyLive == \A m \in listed : mods[m].reg /\ (mods[m].closed # 0 => Closing(m) \/ lock # "none")

(* once the store is closed every registered module is closed and nothing is registered *)
AfterRuntimeClose == storeClosed => /\ listed = {} /\ \A n \in Named : owner[n] = 0
                                    /\ \A m \in ModIds : mods[m].reg => mods[m].closed # 0
                                    /\ rtClosed

(* resources released and the notification fired at most once ... *)
AtMostOnce == \A m \in ModIds : mods[m].res <= 1 /\ mods[m].fired <= 1

(* ... and exactly once when everything is quiescent *)
Quiescent == \A t \in Threads : pc[t].op = "idle"
ExactlyOnce == Quiescent => \A m \in ModIds :
                 mods[m].closed # 0 => /\ mods[m].res = 1
                                       /\ (mods[m].want /\ mods[m].reg => mods[m].fired = 1)

TypeOK == /\ rtClosed \in BOOLEAN /\ storeClosed \in BOOLEAN
          /\ \A n \in Named : owner[n] \in 0..Len(mods)
          /\ listed \subseteq ModIds

-----------------------------------------------------------------------------
(* history emission (sequential replay): one thread, emit when its operations are used up *)
AllDone == \A t \in Threads : pc[t].op = "idle" /\ ops[t] = MaxOps
Emit == AllDone => PrintT(<<"EMIT", ToJson([hist |-> hist, snaps |-> Append(snaps, Snapshot)])>>)

DesignView == <<rtClosed, storeClosed, owner, listed, lock, mods, pc, ops>>
=============================================================================
