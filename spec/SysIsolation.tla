--------------------------- MODULE SysIsolation ---------------------------
(***************************************************************************)
(* Isolation of the per-instance SYSTEM state (C11): instances created     *)
(* from one compiled module and from ONE ModuleConfig lineage (the         *)
(* embedder derives each instance's configuration from the same base) do   *)
(* not share the default random source, the default clocks, the standard   *)
(* streams or the descriptor table.  The specification is N copies of the  *)
(* lone-instance machine:                                                  *)
(*   rand     the k-th 8 bytes of the instance's OWN random stream         *)
(*   clock    the k-th reading of the instance's OWN wall clock            *)
(*   out(b)   a byte appended to the instance's OWN standard output        *)
(*   fdopen   opens a file: the lowest free descriptor of the instance     *)
(*            (0-2 are the standard streams, 3 is the pre-opened root)     *)
(*   fdclose(x)  0 if x is an open file of THIS instance, else EBADF (8)   *)
(* The driver compares rand / clock with the streams of a lone instance.   *)
(***************************************************************************)
EXTENDS Integers, Sequences, FiniteSets, TLC, Json

CONSTANTS MaxSteps, MaxInst, Ops

VARIABLES insts, hist, fin
vars == <<insts, hist, fin>>

Fresh == [alive |-> TRUE, rpos |-> 0, cpos |-> 0, out |-> <<>>, fds |-> {}]
Init == insts = <<Fresh>> /\ hist = <<>> /\ fin = FALSE

Obs(ins) == [j \in 1..Len(ins) |-> [alive |-> ins[j].alive, out |-> ins[j].out, nfds |-> Cardinality(ins[j].fds)]]
Rec(i, o, r, ins) == hist' = Append(hist, [i |-> i, op |-> o.op, x |-> o.x, res |-> r, st |-> Obs(ins)])
LowestFree(s) == CHOOSE k \in 4..(4 + Cardinality(s.fds)) : k \notin s.fds /\ \A j \in 4..(k - 1) : j \in s.fds

Do(i, o) ==
  LET s == insts[i]
      upd(s2, r) == /\ insts' = [insts EXCEPT ![i] = s2] /\ Rec(i, o, r, [insts EXCEPT ![i] = s2]) IN
  /\ s.alive
  /\ CASE o.op = "rand"    -> upd([s EXCEPT !.rpos = @ + 1], s.rpos)
       [] o.op = "clock"   -> upd([s EXCEPT !.cpos = @ + 1], s.cpos)
       [] o.op = "out"     -> upd([s EXCEPT !.out = Append(@, o.x + i)], 0)       \* the byte written depends on the instance
       [] o.op = "fdopen"  -> LET k == LowestFree(s) IN upd([s EXCEPT !.fds = @ \cup {k}], k)
       [] o.op = "fdclose" -> IF o.x \in s.fds THEN upd([s EXCEPT !.fds = @ \ {o.x}], 0) ELSE upd(s, 8)
       [] o.op = "close"   -> upd([s EXCEPT !.alive = FALSE], 0)
  /\ UNCHANGED fin

NewInst == /\ Len(insts) < MaxInst
           /\ insts' = Append(insts, Fresh)
           /\ hist' = Append(hist, [i |-> Len(insts) + 1, op |-> "inst", x |-> 0, res |-> 0, st |-> Obs(Append(insts, Fresh))])
           /\ UNCHANGED fin
Step == ~fin /\ Len(hist) < MaxSteps /\ (NewInst \/ \E i \in 1..Len(insts), o \in Ops : Do(i, o))
Finish == ~fin /\ Len(hist) > 0 /\ fin' = TRUE /\ UNCHANGED <<insts, hist>>
Next == Step \/ Finish
Spec == Init /\ [][Next]_vars

(* a step of instance i leaves every other instance untouched *)
NonInterference == [][\A j \in 1..Len(insts) : (hist' # hist /\ hist'[Len(hist')].i # j) => insts'[j] = insts[j]]_vars
Emit == fin => PrintT(<<"EMIT", ToJson([hist |-> hist])>>)
DesignView == <<insts, Len(hist), fin>>

Op(o, x) == [op |-> o, x |-> x]
SysOps == {Op("rand", 0), Op("clock", 0), Op("out", 64), Op("fdopen", 0), Op("fdclose", 4), Op("fdclose", 5), Op("close", 0)}
=============================================================================
