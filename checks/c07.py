"""C07 Close-on-context-done always stops a running guest - Termination.tla."""
import json
import os
from concurrent.futures import ThreadPoolExecutor
import vlib

CFG = """SPECIFICATION Spec
CONSTANTS
  Prog <- P
  CheckLoops = %s
  CheckTailCalls = %s
  Polls = "%s"
  Ceiling = %d
PROPERTIES Stops ExitKind
CHECK_DEADLOCK FALSE
"""
TT = "---- MODULE %s ----\nEXTENDS TerminationMC\nP == Shapes.%s\n====\n"
DUMP = ("---- MODULE TDump ----\nEXTENDS Json, TLC\nT == INSTANCE TerminationMC WITH Prog <- <<>>, CheckLoops <- TRUE, CheckTailCalls <- TRUE, "
        "Polls <- \"entry\", Ceiling <- 1, stack <- <<>>, cancelled <- FALSE, done <- \"no\"\n"
        "VARIABLE x\nDInit == x = 0\nDNext == x' = x\nDSpec == DInit /\\ [][DNext]_x\n"
        "Emit == PrintT(<<\"EMIT\", ToJson(T!Shapes)>>)\n====\n")
SHAPES = ["loop", "nested_loops", "loop_with_call", "recursion", "mutual_recursion", "indirect_cycle", "tail_call_cycle",
          "tail_call_indirect_cycle", "mutual_tail_calls", "loop_in_host_callback", "loop_in_imported_function",
          "loop_two_levels_into_import", "loop_in_host_callback_with_derived_deadline", "outer_loop_after_swallowed_stop"]
TRIGGERS = ["deadline", "cancel", "already-cancelled", "close", "cancel-cause", "deadline-cause"]
RULES = {"demanded": ("TRUE", "TRUE", "entry"), "as-coded:checks-at-loops,polls-caller": ("TRUE", "FALSE", "caller"),
         "as-coded:checks-at-loops,polls-entry": ("TRUE", "FALSE", "entry")}


def run(ctx):
    q = ctx.quick
    files = {"TDump.tla": DUMP, "dump.cfg": "SPECIFICATION DSpec\nINVARIANTS Emit\n"}
    for s in SHAPES:
        files["T_%s.tla" % s] = TT % ("T_" + s, s)
    for rn, (a, b, c) in RULES.items():
        files["r_%d.cfg" % list(RULES).index(rn)] = CFG % (a, b, c, 4 if q else 6)
    shapes = ctx.tlc("TDump", "dump.cfg", extra_files=files, workers=1, design=False, tag="catalogue")["emitted"][0]
    # design: under the demanded placement rule every shape stops; under the placement the code uses TLC reports lassos
    jobs = [(s, rn) for s in SHAPES for rn in RULES]
    def one(j):
        s, rn = j
        return j, ctx.tlc("T_" + s, "r_%d.cfg" % list(RULES).index(rn), extra_files=files, workers=1, expect_ok=False,
                          tag="liveness:%s:%s" % (s, rn))
    with ThreadPoolExecutor(8) as ex:
        out = list(ex.map(one, jobs))
    predicted = {}
    for (s, rn), r in out:
        if r["rc"] not in (0, 13):
            raise vlib.Infra("TLC failed on shape %s rule %s: %s" % (s, rn, r["out"][-800:]))
        lasso = r["violation"] == "temporal"
        if rn == "demanded" and lasso:
            raise vlib.Infra("the demanded placement rule does not stop shape " + s)
        predicted.setdefault(s, {})[rn] = "never-stops" if lasso else "stops"
    ctx.extra["design_counterexamples"] = {s: [rn for rn, v in p.items() if v == "never-stops"] for s, p in predicted.items()
                                           if "never-stops" in p.values()}
    ctx.note("lassos under the as-coded placement rules are candidates only; the verdict comes from running the shapes")
    # binding: run every shape x trigger x engine in supervised children
    items = []
    for s in SHAPES:
        for e in ("interpreter", "compiler"):
            for t in (TRIGGERS if s != "loop_in_host_callback_with_derived_deadline" else TRIGGERS + ["inner-deadline"]):
                items.append({"shape": s, "prog": shapes[s], "trigger": t, "engine": e})
    if ctx.replay_path:
        items = [json.load(open(ctx.replay_path))["replay"]]
    results = ctx.replay("run-termination", items, timeout=3000)
    for it, r in zip(items, results):
        for f in r.get("fails", []):
            ctx.fail(f["key"], f["msg"], replay=it)
    ctx.exhaustive = True
    ctx.sample({"shape": "loop_two_levels_into_import", "program": shapes["loop_two_levels_into_import"]})
    ctx.assumptions += ["'promptly' = within 8 s of the trigger (conforming runs return within tens of ms)",
                        "stack overflow is accepted instead of the exit error for cycles that push frames"]
