"""C16 WASI file operations behave like a POSIX-style reference model - WasiFS.tla (+ DirRead trace validation)."""
import json
import random
import vlib

CFG = """SPECIFICATION Spec
CONSTANTS
  MaxSteps = %(steps)d
  Ops <- %(ops)s
  ReadOnly = %(ro)s
  InitNames <- Tree0
%(body)s
CHECK_DEADLOCK FALSE
"""
INV = "INVARIANTS FdsValid NamesValid LowestFreeAlloc\nPROPERTIES TreeFrozen\nVIEW DesignView"


def cut_at_skip(beh):
    """Histories stop at the first step whose outcome POSIX/WASI leave unspecified ('skip')."""
    out = []
    for b in beh:
        h = []
        for s in b["hist"]:
            if "skip" in s["errs"]:
                break
            h.append(s)
        if h:
            out.append({"hist": h})
    return out


def generate(ctx, ro, q):
    rot = "TRUE" if ro else "FALSE"
    files = {"mc.cfg": CFG % dict(steps=3 if q else 4, ops="AllOps", ro=rot, body=INV),
             "g2.cfg": CFG % dict(steps=2, ops="AllOps", ro=rot, body="INVARIANTS Emit"),
             "g4.cfg": CFG % dict(steps=3 if q else 4, ops="CoreOps", ro=rot, body="INVARIANTS Emit"),
             "sim.cfg": CFG % dict(steps=8 if q else 14, ops="AllOps", ro=rot, body="INVARIANTS Emit")}
    ctx.tlc("WasiFSMC", "mc.cfg", extra_files=files, tag="design:" + ("ro" if ro else "rw"), timeout=3000)
    beh = ctx.tlc("WasiFSMC", "g2.cfg", extra_files=files, design=False, tag="gen:pairs")["emitted"]
    beh += ctx.tlc("WasiFSMC", "g4.cfg", extra_files=files, design=False, tag="gen:core-depth")["emitted"]
    beh += ctx.tlc("WasiFSMC", "sim.cfg", extra_files=files, design=False, tag="sim", workers=1,
                   simulate="num=%d" % (1500 if q else 30000), depth=18, timeout=3000)["emitted"]
    return cut_at_skip(beh)


def replay(ctx, beh, mounts):
    for i, b in enumerate(beh):
        b["mount"] = mounts[i % len(mounts)]
    results = ctx.replay("replay-wasifs", beh, timeout=3400)
    for b, r in zip(beh, results):
        for f in r.get("fails", []):
            ctx.fail(f["key"], f["msg"], replay=b)
    for b in beh[:: max(1, len(beh) // 3)][:3]:
        ctx.sample({"mount": b["mount"], "steps": [(s["op"]["op"], s["op"]["fd"], s["op"]["name"], s["errs"]) for s in b["hist"]]})


def readdir_traces(ctx):
    """fd_readdir: record calls with many buffer sizes / cookies / rewinds, TLC validates against DirRead.tla."""
    import os
    import re
    path = os.path.join(ctx.work, "readdir.ndjson")
    p = ctx.run_driver(["wasifs-readdir", "-out", path])
    info = json.loads(p.stdout.splitlines()[-1])
    r = ctx.tlc("DirRead", "DirRead.cfg", workers=1, expect_ok=False, design=False, extra_files={"trace.ndjson": path},
                tag="trace:fd_readdir")
    m = re.search(r'<<"HIGHWATER", (\d+), (\d+)>>', r["out"])
    if not m:
        raise vlib.Infra("no verdict from DirRead:\n" + r["out"][-1500:])
    high, n = int(m.group(1)), int(m.group(2))
    ctx.traces += info["runs"]
    ctx.extra["readdir"] = info
    if high != n + 1:
        lines = open(path).read().splitlines()
        bad = lines[high - 1]
        start = max([i for i in range(high - 1) if lines[i] == '{"ev":"reset"}'] + [-1]) + 1
        ev = json.loads(bad)
        what = ev.get("ev")
        if what == "readdir":
            what += ":buf=%s:cookie=%s" % ("24" if ev["buf"] == 24 else "small" if ev["buf"] < 100 else "large", "0" if ev["cookie"] == 0 else ">0")
        ctx.fail("readdir#" + str(what), "recorded fd_readdir calls are not a behaviour of DirRead.tla; directory %s; rejected call: %s"
                 % (lines[start][:300], bad[:300]), replay={"kind": "readdir", "lines": lines[start:high]})
    ctx.sample({"readdir_events": open(path).read().splitlines()[1:4]})


def run(ctx):
    q = ctx.quick
    if ctx.replay_path:
        rp = json.load(open(ctx.replay_path))["replay"]
        replay(ctx, [rp], [rp.get("mount", "rw")])
        return
    beh = generate(ctx, False, q)
    ctx.extra["histories"] = len(beh)
    ctx.exhaustive = True
    replay(ctx, beh, ["rw"])
    readdir_traces(ctx)
    ctx.assumptions += ["errno latitude is explicit in WasiFS.tla (sets of allowed errnos); steps whose outcome POSIX leaves unspecified end a history",
                        "one mounted directory with names a, b, d; Linux host"]
