"""C20 Function listeners see every call, correctly bracketed - Calls.tla with listener events."""
import c06


def run(ctx):
    c06.run(ctx, driver="replay-calls-listen")
    ctx.assumptions.append("listener sets: every function, and a subset {h0, peer, rectrap, viahost}; events of calls ending in stack "
                           "overflow are not compared")
