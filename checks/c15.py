"""C15 WASI calls are safe for any argument values - WasiSig.tla."""
import json
import vlib

CFG = "SPECIFICATION Spec\nCONSTANTS\n  Fs <- Funcs\nINVARIANTS TableOK Emit\nCHECK_DEADLOCK FALSE\n"


def run(ctx):
    q = ctx.quick
    if ctx.replay_path:
        items = [json.load(open(ctx.replay_path))["replay"]]
    else:
        r = ctx.tlc("WasiSig", "ws.cfg", extra_files={"ws.cfg": CFG}, workers=1, tag="design+generation")
        items = r["emitted"]
        ctx.exhaustive = True
    # split big functions into batches so that the children run in parallel
    batches = []
    for it in items:
        ts = it["tuples"]
        for k in range(0, len(ts), 120):
            batches.append({"f": it["f"], "sig": it["sig"], "tuples": ts[k:k + 120]})
    results = ctx.replay("replay-wasisafe", batches, timeout=3400)
    calls = 0
    for b, r in zip(batches, results):
        calls += (r.get("obs") or {}).get("calls", 0)
        for f in r.get("fails", []):
            ctx.fail(f["key"], f["msg"], replay=b)
    ctx.evaluations = calls
    ctx.traces = calls
    ctx.extra["functions"] = len(items)
    ctx.extra["argument_tuples"] = sum(len(i["tuples"]) for i in items)
    for it in items[:: max(1, len(items) // 3)][:3]:
        ctx.sample({"function": it["f"], "roles": [s["r"] for s in it["sig"]], "tuple": it["tuples"][len(it["tuples"]) // 2]})
    ctx.assumptions += ["argument space: all-valid vector, every single and every pair of deviations to a boundary class per role (not the full product)",
                        "which errno is returned is not checked here (C16 does); allocation bound: 32 MiB per call for a 64 KiB guest memory"]
