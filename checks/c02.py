"""C02 Guest memory accesses never leave the linear memory - MemAccess.tla."""
import json
import random
import vlib

CFG = """SPECIFICATION Spec
CONSTANTS
  MaxLen = %(len)d
  MaxDepth = %(depth)d
  AccToks <- %(acc)s
  OtherToks <- %(other)s
  Sizes <- %(sizes)s
  TopU = %(topu)d
INVARIANTS %(inv)s
CHECK_DEADLOCK FALSE
"""

SCALES = {"x1": (65536, 1), "x16384": (4, 16384)}


def cfg(ln, depth, acc, sizes, topu, inv="EmitProg", other="AllOther"):
    return CFG % dict(len=ln, depth=depth, acc=acc, sizes=sizes, topu=topu, inv=inv, other=other)


def run(ctx):
    q = ctx.quick
    if ctx.replay_path:
        rp = json.load(open(ctx.replay_path))["replay"]
        for r in ctx.replay("replay-memacc", [rp]):
            for f in r.get("fails", []):
                ctx.fail(f["key"], f["msg"], replay=rp)
        return
    progs = []
    rnd = random.Random(ctx.seed)
    for scale, (topu, ppu) in SCALES.items():
        files = {"ref.cfg": cfg(3, 1, "AccSmall", "S13", topu, "RefSound"),
                 # the large scale starts at 3 units (3 GiB): addresses at and above 2^31 are in bounds there
                 "g3.cfg": cfg(4, 1, "AccMin2" if q else "AccMin", ("S1" if scale == "x1" else "S3") if q else "S13", topu),
                 "sim.cfg": cfg(7 if q else 9, 2, "AccWide", "S13", topu),
                 # accesses through ONE base on both sides of a join, in a memory that already has its final size (at the large
                 # scale: 4 GiB, so that every 32-bit address is in bounds and only the address computation can go wrong)
                 "focus.cfg": cfg(5 if q else 6, 1, "AccSame", "S4" if scale != "x1" else "S3", topu, other="JoinToks" if q else "JoinToksT")}
        ctx.tlc("MemAccessMC", "ref.cfg", extra_files=files, tag="design:reference-semantics:" + scale)
        got = ctx.tlc("MemAccessMC", "g3.cfg", extra_files=files, design=False, tag="gen:" + scale)["emitted"]
        nsim = (350 if q else 4000) if scale == "x1" else (120 if q else 1500)
        sim = ctx.tlc("MemAccessMC", "sim.cfg", extra_files=files, design=False, tag="sim:" + scale, workers=1,
                      simulate="num=%d" % nsim, depth=14, timeout=2400)["emitted"]
        ctx.extra.setdefault("exhaustive_programs", {})[scale] = len(got)
        if scale != "x1" and q and len(got) > 300:
            got = rnd.sample(got, 300)
        foc = ctx.tlc("MemAccessMC", "focus.cfg", extra_files=files, design=False, tag="gen:one-base-around-a-join:" + scale)["emitted"]
        foc = [p for p in foc if sum(1 for t in p["prog"] if t["t"] == "acc") >= 2]
        for p in foc:       # input vectors "around the size" of a 4 GiB memory that are not 32-bit addresses cannot be passed
            p["runs"] = [r for r in p["runs"] if all(0 <= r["inp"][u] * ppu * 65536 + r["inp"][d] < 1 << 32 for u, d in (("v0u", "v0d"), ("v1u", "v1d")))]
        if scale == "x1":       # a memory that starts with 0 pages (own / imported / shared): touch, grow, access
            files["empty.cfg"] = cfg(4 if q else 5, 1, "AccSame", "S0", topu, other="EmptyToks")
            emp = ctx.tlc("MemAccessMC", "empty.cfg", extra_files=files, design=False, tag="gen:memory-that-starts-empty")["emitted"]
            foc += [p for p in emp if any(t["t"] == "acc" for t in p["prog"])]
        ctx.extra.setdefault("focus_programs", {})[scale] = len(foc)
        got += sim + foc
        for k, p in enumerate(got):
            p["scale"], p["topu"] = ppu, topu
            p["const"] = (k % 2 == 0)
        ctx.extra.setdefault("programs", {})[scale] = len(got)
        progs += got
    results = ctx.replay("replay-memacc", progs, timeout=3400 if q else 9000)
    nexec = 0
    for p, r in zip(progs, results):
        nexec += len(p["runs"])
        for f in r.get("fails", []):
            ctx.fail(f["key"], f["msg"], replay=p)
    ctx.extra["input_vectors"] = nexec
    ctx.evaluations = nexec
    for p in progs[:: max(1, len(progs) // 4)][:4]:
        ctx.sample({"program": [t["t"] if t["t"] != "acc" else
                                "%s%d(v%d+<<%d,%d>>)" % ("st" if t["st"] else "ld", t["w"], t["v"], t["ou"], t["od"])
                                for t in p["prog"]], "scale": p["scale"], "inputs": len(p["runs"])})
    ctx.assumptions += ["out-of-memory accesses are observed through guard pages (process fault), canary bytes around every "
                        "expected access and, for small memories, a full comparison of the memory",
                        "amd64 compiler; atomics and bulk-memory instructions are not in the access alphabet yet"]
