"""X01 (beyond the listed properties) memory.atomic.wait / notify on a shared memory - WaitNotify.tla.

Not registered in MANIFEST.json: the property list is fixed.  Run with `bin/vcheck X01`."""
import json
import os
import re
import vlib

MC = """SPECIFICATION Spec
CONSTANTS
  Agents = {a1, a2, a3}
  Vals = {0, 1}
  MaxOps = 2
  TimeoutAtomic = %s
INVARIANTS NotifyCountsWakeups QueueExact NoDuplicates WokenNeverTimesOut
CHECK_DEADLOCK FALSE
"""


def run(ctx):
    q = ctx.quick
    files = {"atomic.cfg": MC % "TRUE", "coded.cfg": MC % "FALSE"}
    # 1. design: with the time-out of the specification (atomic) every invariant holds ...
    ctx.tlc("WaitNotify", "atomic.cfg", extra_files=files, tag="design:timeout-atomic")
    # ... with the time-out as coded a woken waiter can report "timed-out" (candidate only; decided by step 3)
    r = ctx.tlc("WaitNotify", "coded.cfg", extra_files=files, tag="design:timeout-as-coded", expect_ok=False)
    ctx.extra["design_counterexample_as_coded"] = r["violation"]
    # 2. conformance: recorded concurrent executions are behaviours of the as-coded model
    path = os.path.join(ctx.work, "trace.ndjson")
    p = ctx.run_driver(["trace-waitnotify", "-runs", "300" if q else "4000", "-out", path])
    info = json.loads(p.stdout.splitlines()[-1])
    ctx.traces += info["runs"]
    v = ctx.tlc("WaitNotifyTrace", "WaitNotifyTrace.cfg", workers=1, deque=True, expect_ok=False, design=False,
                extra_files={"trace.ndjson": path}, tag="trace", timeout=1500)
    m = re.search(r'<<"HIGHWATER", (\d+), (\d+)>>', v["out"])
    if not m:
        raise vlib.Infra("trace validation produced no verdict: " + v["out"][-1500:])
    high, n = int(m.group(1)), int(m.group(2))
    if v["violation"] or high != n + 1:
        lines = open(path).read().splitlines()
        ctx.fail("trace#rejected", "a recorded execution of wait / notify is not a behaviour of WaitNotify.tla (as coded); first rejected line %d: %s"
                 % (high, lines[high - 1] if high - 1 < len(lines) else v["violation"]), replay={"kind": "trace", "around": lines[max(0, high - 30):high + 2]})
    # binding demonstration: a corrupted notify count must be rejected
    lines = open(path).read().splitlines()
    for i, ln in enumerate(lines):
        e = json.loads(ln)
        if e.get("ev") == "notify" and e.get("n", 0) >= 1:
            e["n"] = 0
            lines[i] = json.dumps(e)
            break
    bad = os.path.join(ctx.work, "trace-bad.ndjson")
    open(bad, "w").write("\n".join(lines) + "\n")
    b = ctx.tlc("WaitNotifyTrace", "WaitNotifyTrace.cfg", workers=1, deque=True, expect_ok=False, design=False,
                extra_files={"trace.ndjson": bad}, tag="binding:corrupted-count", timeout=1500)
    mb = re.search(r'<<"HIGHWATER", (\d+), (\d+)>>', b["out"])
    if mb and int(mb.group(1)) == int(mb.group(2)) + 1 and not b["violation"]:
        raise vlib.Infra("binding lost: a trace with a corrupted notify count was accepted")
    # 3. the design counterexample on the real code: the timer fires, a notify runs before the waiter takes the lock
    g = ctx.run_driver(["gate-waitnotify"])
    for ln in g.stdout.splitlines():
        if ln.startswith("{"):
            res = json.loads(ln)
            for f in res.get("fails") or []:
                ctx.fail(f["key"], f["msg"], replay={"kind": "gate", "schedule": "wait(finite): timer fires | notify(1) | waiter takes the lock"})
    ctx.evaluations += info["events"]
    ctx.assumptions += ["hook lines of one lock are ordered; atomic stores and the wait's comparison are placed by TLC between bracketing lines"]
