"""C11 Instances are isolated unless explicitly linked - Isolation.tla."""
import json
import vlib

CFG = """SPECIFICATION Spec
CONSTANTS
  MaxSteps = %(steps)d
  MaxInst = %(inst)d
  Ops <- AllOps
%(body)s
CHECK_DEADLOCK FALSE
"""
INV = "INVARIANTS FreshStart\nPROPERTIES NonInterference\nVIEW DesignView"


def run(ctx):
    q = ctx.quick
    if ctx.replay_path:
        rp = json.load(open(ctx.replay_path))["replay"]
        sub = "replay-sysiso" if rp["hist"] and "y" not in rp["hist"][0] else "replay-iso"
        for r in ctx.replay(sub, [rp]):
            for f in r.get("fails", []):
                ctx.fail(f["key"], f["msg"], replay=rp)
        return
    files = {"mc.cfg": CFG % dict(steps=4 if q else 5, inst=3, body=INV),
             "g.cfg": CFG % dict(steps=3, inst=2 if q else 3, body="INVARIANTS Emit"),
             "sim.cfg": CFG % dict(steps=8 if q else 12, inst=3, body="INVARIANTS Emit")}
    ctx.tlc("IsolationMC", "mc.cfg", extra_files=files, tag="design", timeout=3000)
    beh = ctx.tlc("IsolationMC", "g.cfg", extra_files=files, design=False, tag="gen:depth3")["emitted"]
    beh += ctx.tlc("IsolationMC", "sim.cfg", extra_files=files, design=False, tag="sim", workers=1,
                   simulate="num=%d" % (2500 if q else 40000), depth=16, timeout=3000)["emitted"]
    ctx.exhaustive = True
    results = ctx.replay("replay-iso", beh, timeout=3400)
    for b, r in zip(beh, results):
        for f in r.get("fails", []):
            ctx.fail(f["key"], f["msg"], replay=b)
    # the per-instance SYSTEM state (SysIsolation.tla): random stream, clock, standard output, descriptor table of instances
    # configured from one ModuleConfig lineage
    sfiles = {"s.cfg": "SPECIFICATION Spec\nCONSTANTS\n  MaxSteps = %d\n  MaxInst = 2\n  Ops <- SysOps\nINVARIANTS Emit\n"
                       "PROPERTIES NonInterference\nCHECK_DEADLOCK FALSE\n" % (4 if q else 5)}
    sb = ctx.tlc("SysIsolation", "s.cfg", extra_files=sfiles, tag="design+gen:system-state", timeout=3000)["emitted"]
    ctx.extra["system_state_histories"] = len(sb)
    if q and len(sb) > 4000:
        import random
        sb = random.Random(ctx.seed).sample(sb, 4000)
    sres = ctx.replay("replay-sysiso", sb, timeout=3400)
    for b, r in zip(sb, sres):
        for f in r.get("fails", []):
            ctx.fail(f["key"], f["msg"], replay=b)
    for b in beh[:: max(1, len(beh) // 3)][:3]:
        ctx.sample({"steps": [(s["i"], s["op"], s["x"], s["y"]) for s in b["hist"]]})
    ctx.assumptions += ["instances come from one compiled module; variants: one runtime, capacity-from-max, two runtimes sharing a "
                        "compilation cache", "random stream / clock readings are compared with those of a lone instance of a fresh configuration"]
