"""C18 Default configuration exposes nothing of the host and runs reproducibly - SysDefaults.tla."""
import json
import vlib


def run(ctx):
    q = ctx.quick
    files = {"mc.cfg": "SPECIFICATION Spec\nCONSTANTS\n  MaxCalls = 3\n  Calls <- AllCalls\nINVARIANTS Counters\nCHECK_DEADLOCK FALSE\n",
             "g.cfg": "SPECIFICATION Spec\nCONSTANTS\n  MaxCalls = 2\n  Calls <- AllCalls\nINVARIANTS Emit\nCHECK_DEADLOCK FALSE\n",
             "sim.cfg": "SPECIFICATION Spec\nCONSTANTS\n  MaxCalls = %d\n  Calls <- AllCalls\nINVARIANTS Emit\nCHECK_DEADLOCK FALSE\n" % (14 if q else 40)}
    if ctx.replay_path:
        rp = json.load(open(ctx.replay_path))["replay"]
        progs = [rp]
    else:
        ctx.tlc("SysDefaults", "mc.cfg", extra_files=files, tag="design")
        progs = ctx.tlc("SysDefaults", "g.cfg", extra_files=files, design=False, tag="gen:pairs")["emitted"]
        progs += ctx.tlc("SysDefaults", "sim.cfg", extra_files=files, design=False, tag="sim", workers=1,
                         simulate="num=%d" % (150 if q else 3000), depth=45)["emitted"]
        ctx.exhaustive = True
    results = ctx.replay("replay-sysdef", progs, timeout=3000)
    for p, r in zip(progs, results):
        for f in r.get("fails", []):
            ctx.fail(f["key"], f["msg"], replay=p)
    ctx.extra["programs"] = len(progs)
    ctx.extra["executions_per_program"] = "3 processes (different TZ, environment, arguments, stdin, cwd, start time) x 2 engines x 2 instances of one ModuleConfig value"
    for p in progs[:: max(1, len(progs) // 3)][:3]:
        ctx.sample({"program": [(c["c"], c["a"]) for c in p["prog"]]})
    ctx.assumptions += ["clock values are reduced by the driver to milliseconds since the fake epoch / start (TLC integers are 32-bit)",
                        "the random stream is opaque to the model: checked by equality across instances, processes and engines"]
