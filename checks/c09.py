"""C09 Closing and collecting modules never endangers live ones - Lifecycle.tla."""
import json
import random
import vlib

CFG = """SPECIFICATION Spec
CONSTANTS
  MaxSteps = %d
  Demanded = %s
  Acts <- %s
INVARIANTS %s
%s
CHECK_DEADLOCK FALSE
"""


def run(ctx):
    q = ctx.quick
    rnd = random.Random(ctx.seed)
    files = {"demanded.cfg": CFG % (6 if q else 7, "TRUE", "AllActs", "SafeCall", "VIEW DesignView"),
             "ascoded.cfg": CFG % (6, "FALSE", "AllActs", "SafeCall", "VIEW DesignView"),
             "g5.cfg": CFG % (5, "FALSE", "AllActs", "Emit", ""),
             "g6u.cfg": CFG % (6, "FALSE", "AllActs", "EmitUnsafe", ""),
             "focus.cfg": CFG % (8, "FALSE", "FocusActs", "EmitGone", ""),
             "cache.cfg": CFG % (5 if q else 6, "FALSE", "CacheActs", "EmitCache", ""),
             "global.cfg": CFG % (6 if q else 7, "FALSE", "GlobalActs", "EmitGlobal", "")}
    ctx.tlc("Lifecycle", "demanded.cfg", extra_files=files, tag="design:demanded-keep-alive-edges", timeout=3000)
    r = ctx.tlc("Lifecycle", "ascoded.cfg", extra_files=files, expect_ok=False, tag="design:edges-as-coded")
    if r["violation"]:
        ctx.note("design counterexample under the keep-alive edges the code creates: " + str(r["violation"]) +
                 " (a funcref in a private table does not keep its defining instance alive); candidate only, see the replays")
        ctx.extra["design_counterexamples"] = [r["violation"]]
    if ctx.replay_path:
        beh = [json.load(open(ctx.replay_path))["replay"]]
    else:
        beh = ctx.tlc("Lifecycle", "g5.cfg", extra_files=files, design=False, tag="gen:depth5")["emitted"]
        n5 = len(beh)
        unsafe = ctx.tlc("Lifecycle", "g6u.cfg", extra_files=files, design=False, tag="gen:depth6-model-unsafe")["emitted"]
        if q:
            beh = rnd.sample(beh, min(len(beh), 360))
            unsafe = rnd.sample(unsafe, min(len(unsafe), 60))
        else:
            ctx.exhaustive = True
        focus = ctx.tlc("Lifecycle", "focus.cfg", extra_files=files, design=False, tag="gen:second-importer-after-close")["emitted"]
        if q:
            focus = rnd.sample(focus, min(len(focus), 200))
        cache = ctx.tlc("Lifecycle", "cache.cfg", extra_files=files, design=False, tag="gen:compilation-cache-closed-under-live-instances")["emitted"]
        if q:
            cache = rnd.sample(cache, min(len(cache), 150))
        ctx.extra["cache_close_histories"] = len(cache)
        glob = ctx.tlc("Lifecycle", "global.cfg", extra_files=files, design=False, tag="gen:reference-held-only-through-an-imported-global")["emitted"]
        ctx.extra["imported_global_histories"] = len(glob)
        beh = beh + focus + cache + glob
        ctx.extra["histories"] = {"depth5_enumerated": n5, "model_unsafe_depth6": len(unsafe), "replayed": len(beh) + len(unsafe)}
        beh = beh + unsafe
        for k, b in enumerate(beh):
            b["engine"] = ["compiler", "interpreter"][k % 2]
            b["listeners"] = (k // 2) % 2 == 1
    results = ctx.replay("replay-lifecycle", beh, timeout=3400)
    for b, r in zip(beh, results):
        for f in r.get("fails", []):
            ctx.fail(f["key"], f["msg"], replay=b)
    for b in beh[:: max(1, len(beh) // 3)][:3]:
        ctx.sample({"history": [(s["a"]["k"], s["a"]["i"], s["a"]["j"], s["a"]["t"], s["res"]) for s in b["hist"]]})
    ctx.assumptions += ["GC = three runtime.GC() cycles with pauses plus an allocation burst; a dangling reference that still happens to work is not seen",
                        "each history runs next to a twin runtime in which nothing is closed or collected"]
