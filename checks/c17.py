"""C17 Read-only mounts cannot be modified by the guest - WasiFS.tla with ReadOnly = TRUE."""
import json
import c16


def run(ctx):
    q = ctx.quick
    if ctx.replay_path:
        rp = json.load(open(ctx.replay_path))["replay"]
        c16.replay(ctx, [rp], [rp.get("mount", "ro-dir")])
        return
    c16.generate(ctx, True, q)            # design check of the read-only model (TreeFrozen) and its histories
    beh = c16.generate(ctx, False, q)     # replayed: the histories of the WRITABLE model, i.e. every mutating call is attempted
    ctx.extra["histories"] = len(beh)
    ctx.exhaustive = True
    c16.replay(ctx, beh, ["ro-dir", "ro-fs"])
    ctx.assumptions += ["after every step the host directory (names, types, sizes, SHA-256, mtimes) must equal its initial snapshot; "
                        "whether a mutating call fails or succeeds without effect is not prescribed",
                        "mount kinds: WithReadOnlyDirMount and WithFSMount(os.DirFS)"]
