"""C06 Traps, exits and host panics are contained and leave the runtime usable - Calls.tla."""
import json
import random
import vlib

CFG = """SPECIFICATION Spec
CONSTANTS
  MaxCalls = %(calls)d
  Tops <- %(tops)s
  MaxDepth = 2
  Starts <- %(starts)s
%(body)s
CHECK_DEADLOCK FALSE
"""
INV = "INVARIANTS Bracketed\nPROPERTIES ClosedSticky EffectsPersist\nVIEW DesignView"
DRIVER = "replay-calls"
PID_NOTE = "results, persisted effects and closed flags"


def gen(ctx, q, hostrec=True):
    files = {"mc.cfg": CFG % dict(starts="NoStarts", calls=3, tops="TopsAll", body=INV),
             "g2.cfg": CFG % dict(starts="NoStarts", calls=2, tops="TopsLight", body="INVARIANTS Emit"),
             "g3.cfg": CFG % dict(starts="NoStarts", calls=3, tops="TopsCore", body="INVARIANTS Emit"),
             "reuse.cfg": CFG % dict(starts="NoStarts", calls=3, tops="Reuse", body="INVARIANTS Emit"),
             "deepreuse.cfg": CFG % dict(starts="NoStarts", calls=2, tops="DeepReuse", body="INVARIANTS Emit"),
             "starts.cfg": (CFG % dict(starts="StartsAll", calls=3, tops="StartTops", body="INVARIANTS Emit NoHalfInstance")),
             "heavy.cfg": CFG % dict(starts="NoStarts", calls=2, tops="Heavy", body="INVARIANTS Emit"),
             "hostrec.cfg": CFG % dict(starts="NoStarts", calls=2, tops="HostRec", body="INVARIANTS Emit"),
             "sim.cfg": CFG % dict(starts="NoStarts", calls=6 if q else 8, tops="TopsAll" if not q else "TopsLight", body="INVARIANTS Emit")}
    ctx.tlc("CallsMC", "mc.cfg", extra_files=files, tag="design")
    beh = ctx.tlc("CallsMC", "g2.cfg", extra_files=files, design=False, tag="gen:pairs")["emitted"]
    n2 = len(beh)
    rnd = random.Random(ctx.seed)
    if q and len(beh) > 1500:
        beh = rnd.sample(beh, 1500)
    beh += ctx.tlc("CallsMC", "g3.cfg", extra_files=files, design=False, tag="gen:triples-core")["emitted"]
    heavy = ctx.tlc("CallsMC", "heavy.cfg", extra_files=files, design=False, tag="gen:deep-recursion")["emitted"]
    beh += heavy if not q else rnd.sample(heavy, min(8, len(heavy)))
    # unbounded recursion THROUGH the host (guest -> host -> guest -> ...), then an ordinary call
    hr = ctx.tlc("CallsMC", "hostrec.cfg", extra_files=files, design=False, tag="gen:recursion-through-the-host")["emitted"]
    if hostrec:     # containment of recursion is C06's business; the listener check (C20) reuses the other histories only
        beh += [b for b in hr if any(n["t"] == "cbrec" for c in b["hist"] for n in c["top"]["script"])]
    # stack overflow, then the SAME function object again (finite this time), then again
    reuse = ctx.tlc("CallsMC", "reuse.cfg", extra_files=files, design=False, tag="gen:overflow-then-reuse")["emitted"]
    reuse += ctx.tlc("CallsMC", "deepreuse.cfg", extra_files=files, design=False, tag="gen:deep-failure-then-deep-recursion")["emitted"]
    for b in reuse:
        b["same"] = True        # these families are about ONE function object per export across the calls
    beh += reuse
    # start functions: instantiations of the starter module (start section / exported _start) that succeed, trap, panic, exit
    st = ctx.tlc("CallsMC", "starts.cfg", extra_files=files, design=True, tag="gen:start-functions")["emitted"]
    ctx.extra["start_function_histories"] = len(st)
    beh += st if not q else rnd.sample(st, min(1200, len(st)))
    beh += ctx.tlc("CallsMC", "sim.cfg", extra_files=files, design=False, tag="sim", workers=1,
                   simulate="num=%d" % (300 if q else 8000), depth=12)["emitted"]
    ctx.extra["histories"] = {"pairs_enumerated": n2, "replayed": len(beh)}
    return beh


def run(ctx, driver=DRIVER):
    q = ctx.quick
    if ctx.replay_path:
        rp = json.load(open(ctx.replay_path))["replay"]
        for r in ctx.replay(driver, [rp]):
            for f in r.get("fails", []):
                ctx.fail(f["key"], f["msg"], replay=rp)
        return
    beh = gen(ctx, q, hostrec=(driver == DRIVER))
    results = ctx.replay(driver, beh, timeout=3400)
    for b, r in zip(beh, results):
        for f in r.get("fails", []):
            ctx.fail(f["key"], f["msg"], replay=b)
    for b in beh[:: max(1, len(beh) // 3)][:3]:
        ctx.sample({"calls": [(c["top"]["inst"], c["top"]["fn"], c["top"]["arg"], [n["t"] for n in c["top"]["script"]], c["res"]) for c in b["hist"]]})
    ctx.assumptions += ["error kinds are recognised by message text (the kinds are not exported types)",
                        "the depth at which the stack overflows and the counter value reached by then are not compared"]
