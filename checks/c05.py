"""C05 Numeric instructions follow the WebAssembly specification - Numeric.tla (bit-level definitions evaluated by TLC)."""
import json
import os
from concurrent.futures import ThreadPoolExecutor
import vlib

CFG = "SPECIFICATION Spec\nINVARIANTS Emit Laws\nCHECK_DEADLOCK FALSE\n"


def run(ctx):
    q = ctx.quick
    if ctx.replay_path:
        rep = json.load(open(ctx.replay_path))["replay"]
        cases = rep["cases"]
        path = os.path.join(ctx.work, "cases.ndjson")
        with open(path, "w") as fh:
            for c in cases:
                fh.write(json.dumps(c, separators=(",", ":")) + "\n")
    else:
        path = os.path.join(ctx.work, "cases.ndjson")
        p = ctx.run_driver(["numeric-cases", "-out", path, "-rand", "3" if q else "14"])
        cases = [json.loads(l) for l in open(path)]
    ctx.extra["cases"] = len(cases)
    # TLC evaluates the definitions of Numeric.tla on every case (and the Laws that tie the definitions together)
    nchunks = max(1, min(14, len(cases) // 500))
    chunks = [cases[k::nchunks] for k in range(nchunks)]          # interleaved: the expensive operations are spread over all runs

    def one(k):
        body = "".join(json.dumps(c, separators=(",", ":")) + "\n" for c in chunks[k])
        r = ctx.tlc("Numeric", "n.cfg", extra_files={"n.cfg": CFG, "cases.ndjson": body}, workers=1, tag="evaluate:chunk%d" % k,
                    design=True, timeout=3000)
        if len(r["emitted"]) != len(chunks[k]):
            raise vlib.Infra("TLC evaluated %d of %d cases: %s" % (len(r["emitted"]), len(chunks[k]), r["out"][-1500:]))
        return r["emitted"]
    with ThreadPoolExecutor(min(14, len(chunks))) as ex:
        expected = [e for part in ex.map(one, range(len(chunks))) for e in part]
    epath = os.path.join(ctx.work, "expected.ndjson")
    with open(epath, "w") as fh:
        for e in expected:
            fh.write(json.dumps(e, separators=(",", ":")) + "\n")
    kinds = {"value": 0, "trap": 0, "nan": 0}
    for e in expected:
        kinds["trap" if "trap" in e else "nan" if "nan" in e else "value"] += 1
    ctx.extra["specified_outcomes"] = kinds
    p = ctx.run_driver(["numeric-check", "-cases", path, "-expected", epath], timeout=3000)
    res = json.loads(p.stdout.strip().splitlines()[-1])
    by_id = {c["id"]: c for c in cases}
    exp_by_id = {e["id"]: e for e in expected}
    for f in res.get("fails") or []:
        cid = f.get("case")
        rep = {"cases": [by_id[cid]]} if cid in by_id else {"cases": cases[:1]}
        ctx.fail(f["key"], f["msg"], replay=rep)
    obs = res.get("obs") or {}
    ctx.extra.update(obs)
    ctx.evaluations = obs.get("executions", 0)
    ctx.traces = len(cases)
    for c in cases[:: max(1, len(cases) // 3)][:3]:
        ctx.sample({"case": c, "specified": exp_by_id.get(c["id"])})
    ctx.assumptions += ["NaN results are compared by class (the specification leaves the payload open); the operand pools are boundary values per "
                        "width plus seeded random values, not all 2^64 operands", "float vector arithmetic is checked lane-wise through the scalar definitions; fused multiply-add does not exist in the enabled feature set",
                        "ties of demote / nearest / convert are fixed by the definition alone (the Laws accept either neighbour)"]
