"""C13 The on-disk compilation cache is deterministic and crash-safe - FileCache.tla."""
import json
import os
import random
import re
import vlib

CFG = """SPECIFICATION Spec
CONSTANTS
  Writers <- %(w)s
  KeyOf <- %(k)s
  N = %(n)d
  MaxCrashes = %(c)d
  PreStale <- %(stale)s
%(body)s
CHECK_DEADLOCK FALSE
"""
INV = "INVARIANTS FinalIsComplete NoRejectEver TempNamesDistinct FinalHasRightKey\nVIEW DesignView"


def cfg(w, k, n, c, stale="NoStale", body=INV):
    return CFG % dict(w=w, k=k, n=n, c=c, stale=stale, body=body)


def collect(ctx, results, beh=None):
    for i, r in enumerate(results):
        for f in r.get("fails", []):
            ctx.fail(f["key"], f["msg"], replay=(beh[i] if beh else None))


def run(ctx):
    q = ctx.quick
    files = {
        "mc.cfg": cfg("W3", "K3", 3, 2, "StaleK1"),
        "mc2.cfg": cfg("W2", "K2", 4 if q else 6, 2),
        "g1.cfg": cfg("W1", "K1", 3 if q else 5, 1, body="INVARIANTS Emit"),
        "g1s.cfg": cfg("W1", "K1", 3, 1, "StaleK1", body="INVARIANTS Emit"),
        "g2.cfg": cfg("W2", "K2", 1, 1, body="INVARIANTS Emit"),
    }
    if ctx.replay_path:
        rp = json.load(open(ctx.replay_path))["replay"]
        collect(ctx, ctx.replay(rp["driver"], [rp["behaviour"]]), [rp])
        return
    ctx.tlc("FileCacheMC", "mc.cfg", extra_files=files, tag="design:3-writers-2-keys-stale")
    ctx.tlc("FileCacheMC", "mc2.cfg", extra_files=files, tag="design:2-writers-same-key")
    # single writer + crash anywhere + reader, real processes
    g1 = ctx.tlc("FileCacheMC", "g1.cfg", extra_files=files, design=False, tag="gen:1-writer")["emitted"]
    for b in g1:
        b["n"] = 3 if q else 5
    res = ctx.replay("fc-replay", g1)
    # the driver runs each history on two modules -> two results per behaviour
    # (ctx.replay insists on equal counts, so ask it with duplicated behaviours)
    collect(ctx, res)
    ctx.sample({"crash_history": g1[len(g1) // 2]["hist"]})
    # two writers of one key, every interleaving of their steps with a crash, in-process gates
    g2 = ctx.tlc("FileCacheMC", "g2.cfg", extra_files=files, design=False, tag="gen:2-writers")["emitted"]
    total2 = len(g2)
    if q:
        rnd = random.Random(ctx.seed)
        g2 = rnd.sample(g2, min(1500, len(g2)))
    else:
        ctx.exhaustive = True
    r2 = ctx.replay("fc-gate", g2, timeout=3000)
    for b, r in zip(g2, r2):
        for f in r.get("fails", []):
            ctx.fail(f["key"], f["msg"], replay={"driver": "fc-gate", "behaviour": b})
    ctx.sample({"two_writer_history": [(s["a"], s.get("w", s.get("key"))) for s in g2[0]["hist"]]})
    ctx.extra["two_writer_histories"] = {"enumerated": total2, "replayed": len(g2)}
    # truncation at every length, version edits
    p = ctx.run_driver(["fc-trunc", "-stride", "1" if not q else "1"], timeout=3000)
    cases = [json.loads(l) for l in p.stdout.splitlines() if l.startswith("{")]
    ctx.evaluations += len(cases)
    ctx.traces += len(cases)
    kinds = {}
    for r in cases:
        kinds[r["obs"]["case"]] = kinds.get(r["obs"]["case"], 0) + 1
        for f in r.get("fails", []):
            ctx.fail(f["key"], f["msg"], replay={"driver": "fc-trunc", "case": r["obs"]})
    ctx.extra["entry_edits"] = kinds
    # determinism across fresh processes
    p = ctx.run_driver(["fc-conc", "-rounds", "25" if q else "300"], timeout=3000)
    for line in p.stdout.splitlines():
        if line.startswith("{"):
            r = json.loads(line)
            ctx.evaluations += 1
            for f in r.get("fails") or []:
                ctx.fail(f["key"], f["msg"], replay={"kind": "concurrent-modules"})
    p = ctx.run_driver(["fc-det", "-n", "4" if q else "12"], timeout=3000)
    for l in p.stdout.splitlines():
        r = json.loads(l)
        ctx.evaluations += 1
        for f in r.get("fails", []):
            ctx.fail(f["key"], f["msg"])
    # order of the steps of a real Add validated against the specification
    path = os.path.join(ctx.work, "points.ndjson")
    ctx.run_driver(["fc-points", "-out", path])
    r = ctx.tlc("FileCacheTrace", "FileCacheTrace.cfg", workers=1, expect_ok=False, design=False,
                extra_files={"trace.ndjson": path}, tag="trace:add-steps")
    m = re.search(r'<<"HIGHWATER", (\d+), (\d+)>>', r["out"])
    if not m:
        raise vlib.Infra("no verdict from FileCacheTrace:\n" + r["out"][-1500:])
    high, n = int(m.group(1)), int(m.group(2))
    ctx.traces += 3
    if r["violation"]:
        ctx.fail("add-steps#invariant:" + r["violation"], "recorded steps of fileCache.Add violate " + r["violation"])
    elif high != n + 1:
        line = open(path).read().splitlines()[high - 1]
        ev = json.loads(line).get("ev")
        ctx.fail("add-steps#order:" + str(ev), "the steps of a real fileCache.Add are not a behaviour of FileCache.tla; "
                 "rejected at event %d: %s" % (high, line))
    ctx.assumptions += ["process death is modelled (os.Exit at a hook point), not power loss: the effect of the missing "
                        "fsync is only checked through the order of steps (trace validation)",
                        "amd64 compiler engine only (the interpreter has no file cache)"]
