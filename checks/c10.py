"""C10 Module lifecycle and name registry are linearizable - Registry.tla.

1. TLC checks the registry design exhaustively (all interleavings of small thread/name/op counts).
2. Sequential histories enumerated by TLC are replayed through the public API (result + full state).
3. Concurrent executions of the real runtime are recorded through hooks H1 and validated by TLC
   against RegistryTrace.tla (every invariant evaluated at every step).
4. A schedule that random runs rarely hit (Runtime.Close between registration and the rest of
   InstantiateModule) is enforced deterministically with a blocking hook.
"""
import json
import os
import re
import vlib

MC = """SPECIFICATION Spec
CONSTANTS
  Threads <- %(threads)s
  Names <- %(names)s
  MaxMods = %(mods)d
  MaxOps = %(ops)d
  UnlistByIdentity = %(ubi)s
  AttachEarly = %(ae)s
  KeepHist = %(keep)s
  OpKinds <- %(kinds)s
  StartKinds <- %(starts)s
%(body)s
CHECK_DEADLOCK FALSE
"""
INV = ("INVARIANTS TypeOK NameUnique OwnerFindable LookupOnlyOpen ListedOnlyLive AfterRuntimeClose AtMostOnce "
       "ExactlyOnce\nVIEW DesignView")


def cfg(threads, names, mods, ops, ubi="TRUE", ae="TRUE", keep="FALSE", kinds="CoreOps", body=INV, starts="StartsNone"):
    return MC % dict(threads=threads, names=names, mods=mods, ops=ops, ubi=ubi, ae=ae, keep=keep, kinds=kinds, body=body, starts=starts)


def validate_trace(ctx, path, tag):
    """TLC validation of one recorded ND-JSON file; returns (accepted, highwater, nlines, rejected_line)."""
    r = ctx.tlc("RegistryTrace", "RegistryTrace.cfg", workers=1, deque=True, expect_ok=False, design=False,
                extra_files={"trace.ndjson": path}, tag=tag, timeout=900)
    m = re.search(r'<<"HIGHWATER", (\d+), (\d+)>>', r["out"])
    if not m:
        raise vlib.Infra("trace validation produced no verdict:\n" + "\n".join(r["out"].splitlines()[-30:]))
    high, n = int(m.group(1)), int(m.group(2))
    if r["violation"]:
        # an invariant of the specification failed on a state of the recorded execution
        return False, high, n, "invariant:" + r["violation"], r
    lines = open(path).read().splitlines()
    if high == n + 1:
        return True, high, n, None, r
    return False, high, n, lines[high - 1] if high - 1 < len(lines) else "?", r


def reject_key(line):
    if line.startswith("invariant:"):
        return "trace#" + line
    try:
        e = json.loads(line)
    except ValueError:
        return "trace#?"
    k = "trace#%s" % e.get("ev")
    if e.get("ev") in ("begin", "end"):
        k += ":" + str(e.get("op"))
    if e.get("ev") == "end":
        k += ":" + re.sub(r"[^a-z:]+.*", "", str(e.get("res")))[:24]
    if e.get("ev") == "register":
        k += ":" + str(e.get("res"))
    if e.get("ev") == "unlist":
        k += ":owner-after=" + ("self-or-other" if e.get("owner") else "none")
    if e.get("ev") == "res":
        k += ":fired=" + str(e.get("fired")).lower()
    return k


def run(ctx):
    q = ctx.quick
    if ctx.replay_path:
        rp = json.load(open(ctx.replay_path))["replay"]
        if rp.get("kind") == "history":
            res = ctx.replay("replay-registry", [rp["behaviour"]])
            for r in res:
                for f in r.get("fails", []):
                    ctx.fail(f["key"], f["msg"], replay=rp)
        elif rp.get("kind") == "trace":
            p = os.path.join(ctx.work, "replay-trace.ndjson")
            open(p, "w").write("\n".join(rp["lines"]) + "\n")
            ok, high, n, line, _ = validate_trace(ctx, p, "replay")
            if not ok:
                ctx.fail(reject_key(line), "recorded trace rejected at line %d: %s" % (high, line), replay=rp)
        return
    # 1. design
    files = {"mc.cfg": cfg("T3" if q else "T3", "N2" if q else "N3", 3 if q else 4, 2),
             "mc2.cfg": cfg("T2", "N2" if q else "N3", 4, 3, kinds="AllOps"),
             "mc3.cfg": cfg("T2", "N2", 3, 2, starts="StartsBoth"),
             "neg1.cfg": cfg("T2", "N2", 3, 2, ubi="FALSE"),
             "neg2.cfg": cfg("T2", "N2", 3, 2, ae="FALSE"),
             "gen.cfg": cfg("T1", "N3", 3, 4 if q else 5, keep="TRUE", kinds="AllOps", body="INVARIANTS Emit", starts="StartsBoth")}
    ctx.tlc("RegistryMC", "mc.cfg", extra_files=files, tag="design:3-threads", timeout=3000)
    ctx.tlc("RegistryMC", "mc2.cfg", extra_files=files, tag="design:2-threads-3-ops-all-kinds", timeout=3000)
    ctx.tlc("RegistryMC", "mc3.cfg", extra_files=files, tag="design:2-threads-failing-start-functions", timeout=3000)
    # the model distinguishes the demanded design from the two deviations the pinned code had
    for c, inv in (("neg1.cfg", "OwnerFindable"), ("neg2.cfg", "ExactlyOnce")):
        r = ctx.tlc("RegistryMC", c, extra_files=files, expect_ok=False, design=False, tag="sensitivity:" + c)
        if r["violation"] is None:
            raise vlib.Infra("model sensitivity lost: %s no longer violates %s" % (c, inv))
        ctx.note("model with deviation %s violates %s (as intended; not a verdict about the code)" % (c, r["violation"]))
    # 2. sequential histories -> replay
    g = ctx.tlc("RegistryMC", "gen.cfg", extra_files=files, design=False, tag="gen:sequential")
    beh = g["emitted"]
    ctx.extra["sequential_histories_enumerated"] = len(beh)
    if q and len(beh) > 25000:      # every history without a start function, a seeded sample of the others
        import random
        plain = [b for b in beh if all(h.get("start", "none") == "none" for h in b["hist"])]
        rest = [b for b in beh if not all(h.get("start", "none") == "none" for h in b["hist"])]
        beh = plain + random.Random(ctx.seed).sample(rest, max(0, min(len(rest), 25000 - len(plain))))
    ctx.exhaustive = True
    results = ctx.replay("replay-registry", beh)
    for b, r in zip(beh, results):
        for f in r.get("fails", []):
            ctx.fail(f["key"], f["msg"], replay={"kind": "history", "behaviour": b})
    for b in beh[:: max(1, len(beh) // 3)][:3]:
        ctx.sample({"sequential_history": [{k: h[k] for k in ("op", "name", "res", "m") if k in h} for h in b["hist"]]})
    ctx.extra["sequential_histories"] = len(beh)
    # 3. concurrent traces -> TLC
    runs = 150 if q else 1500
    nbatches = 2 if q else 8
    total_events = 0
    for bi in range(nbatches):
        path = os.path.join(ctx.work, "trace%d.ndjson" % bi)
        threads = 3 + (bi % 2)
        p = ctx.run_driver(["trace-registry", "-runs", str(runs // nbatches), "-threads", str(threads), "-ops", "8",
                            "-out", path], env={"VERIF_SEED": str(ctx.seed * 1000 + bi)}, race=(not q and bi == 0))
        info = json.loads(p.stdout.splitlines()[-1])
        total_events += info["events"]
        ctx.traces += info["runs"]
        if "DATA RACE" in p.stderr:
            ctx.fail("trace#datarace", "data race in the registry under concurrent use: " + p.stderr[:1500])
        # a rejected trace stops validation of its batch; validate the remaining runs separately
        remaining = path
        guard = 0
        while remaining and guard < 20:
            guard += 1
            ok, high, n, line, r = validate_trace(ctx, remaining, "trace-batch%d.%d" % (bi, guard))
            if ok:
                break
            lines = open(remaining).read().splitlines()
            # cut out the run containing the rejected line
            start = max([i for i in range(high - 1) if lines[i] == '{"ev":"reset"}'] + [-1]) + 1
            ends = [i for i in range(high - 1, len(lines)) if lines[i] == '{"ev":"reset"}']
            end = ends[0] if ends else len(lines)
            bad = lines[start:end]
            ctx.fail(reject_key(line), "recorded concurrent execution is not a behaviour of Registry.tla; first "
                     "rejected event (line %d of its run): %s" % (high - start, line),
                     replay={"kind": "trace", "lines": bad})
            rest = lines[:max(start - 1, 0)] + (lines[end:] if start > 0 else lines[end + 1:])
            if not [x for x in rest if x != '{"ev":"reset"}']:
                break
            remaining = os.path.join(ctx.work, "trace%d.%d.ndjson" % (bi, guard))
            open(remaining, "w").write("\n".join(rest) + "\n")
        if bi == 0:
            for ln in open(path).read().splitlines()[:12]:
                pass
            ctx.sample({"concurrent_trace_prefix": open(path).read().splitlines()[:10]})
    ctx.extra["trace_events"] = total_events
    # 4. deterministic schedule through the gate hook
    p = ctx.run_driver(["gate-registry"])
    for line in p.stdout.splitlines():
        r = json.loads(line)
        for f in r.get("fails", []):
            ctx.fail(f["key"], f["msg"], replay={"kind": "gate", "schedule": "g1:inst..registered | g2:rtclose | g1:continue"})
    ctx.evaluations += 1
    # 5. binding demonstration: a trace with the unlist hook removed must be rejected
    path = os.path.join(ctx.work, "trace-drop.ndjson")
    ctx.run_driver(["trace-registry", "-runs", "20", "-threads", "3", "-ops", "8", "-out", path, "-drop", "unlist"])
    ok, high, n, line, _ = validate_trace(ctx, path, "binding:drop-unlist")
    if ok:
        raise vlib.Infra("binding lost: a trace without unlist events was accepted")
    ctx.note("binding demonstration: trace recorded without the unlist hook rejected at line %d of %d" % (high, n))
    ctx.assumptions += [
        "events of lock-protected steps are ordered by a sequence number taken under Store.mux; lock-free steps "
        "(closed-flag reads, CAS) are unlogged and placed by TLC",
        "the driver's goroutines are the only users of the runtime while a trace is recorded",
    ]
