"""C03 Compilation is total and sound on arbitrary input bytes - WasmTyping.tla used as the validity judgement."""
import json
import random
import vlib
import c01


def run(ctx):
    q = ctx.quick
    rnd = random.Random(ctx.seed)
    if ctx.replay_path:
        items = [json.load(open(ctx.replay_path))["replay"]]
        for kind, cmd in (("modindex", "wexec-modindex"), ("constexpr", "wexec-constexpr")):
            if kind in items[0]:
                for r in ctx.replay(cmd, [items[0][kind]], timeout=300):
                    for f in r.get("fails", []):
                        ctx.fail(f["key"], f["msg"], replay=items[0])
                return
    else:
        bodies = c01.distinct(c01.generate(ctx, q, invalid=True))
        valid = [b for b in bodies if b["bad"] == ""]
        invalid = [b for b in bodies if b["bad"] != ""]
        if q:
            valid = rnd.sample(valid, min(len(valid), 900))
            invalid = rnd.sample(invalid, min(len(invalid), 1200))
        kinds = {}
        for b in invalid:
            kinds[b["bad"]] = kinds.get(b["bad"], 0) + 1
        ctx.extra["valid_bodies"] = len(valid)
        ctx.extra["invalid_bodies_by_kind"] = kinds
        items = [{"bodies": [b], "seed": rnd.randrange(1 << 30), "mutate": 8 if q else 40} for b in valid]
        items += [{"bodies": [b], "seed": rnd.randrange(1 << 30), "mutate": 0} for b in invalid]   # every invalid module stands alone
    # constant expressions: every module shape x expression x context, labelled valid / invalid by ConstExpr.tla
    if not ctx.replay_path:
        cases = ctx.tlc("ConstExpr", "ConstExpr.cfg", workers=1, tag="constant-expressions")["emitted"][0]
        ctx.extra["constant_expression_cases"] = len(cases)
        cres = ctx.replay("wexec-constexpr", cases, timeout=3000)
        for c, r in zip(cases, cres):
            for f in r.get("fails", []):
                ctx.fail(f["key"], f["msg"], replay={"constexpr": c})
    # module-level index spaces: base shape x one replaced reference x one index-carrying instruction, labelled by ModuleIndex.tla
    if not ctx.replay_path:
        mi = ctx.tlc("ModuleIndexMC", "ModuleIndexQuick.cfg" if q else "ModuleIndex.cfg", workers=1, tag="module-index-spaces")["emitted"]
        mcases = [e[0] if isinstance(e, list) else e for e in mi]
        ctx.extra["module_index_cases"] = len(mcases)
        ctx.extra["module_index_cases_valid"] = sum(1 for m in mcases if m["valid"])
        mres = ctx.replay("wexec-modindex", mcases, timeout=3000)
        for m, r in zip(mcases, mres):
            for f in r.get("fails", []):
                ctx.fail(f["key"], f["msg"], replay={"modindex": m})
    results = ctx.replay("wexec-compile", items, timeout=3400)
    for it, r in zip(items, results):
        for f in r.get("fails", []):
            ctx.fail(f["key"], f["msg"], replay=it)
    ctx.extra["modules"] = len(items)
    ctx.extra["byte_level_mutants"] = sum(i.get("mutate", 0) for i in items)
    ctx.evaluations = len(items) * 2 + ctx.extra["byte_level_mutants"]
    for it in items[:: max(1, len(items) // 3)][:2]:
        ctx.sample({"bad": it["bodies"][0]["bad"], "function": [i["op"] for i in it["bodies"][0]["code"]][:40]})
    ctx.assumptions += ["validity is decided by the typing automaton for function bodies (one ill-typed step per invalid module); raw-byte totality "
                        "is only monitored on truncations and byte/LEB mutations of generated binaries (no oracle beyond no panic / no hang / bounded "
                        "allocation / accepted => runs without internal failure)"]
