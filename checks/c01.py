"""C01 Compiler and interpreter agree on every valid program - WasmTyping.tla (typing automaton as program generator)."""
import json
import random
from concurrent.futures import ThreadPoolExecutor
import vlib

CFG = """SPECIFICATION Spec
CONSTANTS
  Target = %(target)d
  MaxLen = %(maxlen)d
  Params <- %(p)s
  Results <- %(r)s
  Ops <- %(ops)s
  CallSigs <- SigPool
  AllowInvalid = %(inv)s
  AddrClass = "%(addr)s"
  Idioms = %(idioms)s
  Features <- %(feat)s
  HostSigs <- HostPool
INVARIANTS FramesNested %(emit)s
CHECK_DEADLOCK FALSE
"""
SIGS = [("P_ii", "R_i"), ("P_fd", "R_d"), ("P_v", "R_v"), ("P_0", "R_0"), ("P_ii", "R_li")]


def I(op, a="", b=""):
    return {"op": op, "a": a, "b": b}


# hand-written bodies for inputs a listed finding is keyed by (so that the finding is exercised in every run)
PROBES = [
    {"bodies": [{"params": [], "results": [], "bad": "", "code": [I("i32.const", 65537), I("i32.atomic.load", "amem4"), I("drop"), I("end")]}], "seed": 1},
]


def cfg(target, p, r, ops, inv="FALSE", emit="EmitBody", addr="addr", idioms="TRUE", feat="AllFeatures"):
    return CFG % dict(target=target, maxlen=target * 3, p=p, r=r, ops=ops, inv=inv, emit=emit, addr=addr, idioms=idioms, feat=feat)


def generate(ctx, q, invalid=False):
    """Simulated walks of the typing automaton; returns the emitted bodies."""
    profiles = [("ScalarOps", 30 if q else 60, 300 if q else 3000, "addr"), ("OpSig", 50 if q else 120, 220 if q else 3000, "addr"),
                ("VecOps", 40, 150 if q else 1500, "addr"),
                # short bodies whose accesses are around the end of the memory: traps are the point, not a loss
                ("MemOps", 12, 250 if q else 3000, "edge"), ("MemOps", 24, 150 if q else 2000, "edge")]
    jobs = []
    for (p, r) in SIGS:
        for ops, target, num, addr in profiles:
            if ops == "VecOps" and p not in ("P_v", "P_0"):
                continue
            if ops == "MemOps" and p == "P_fd":
                continue
            jobs.append((len(jobs) + 1, p, r, ops, target, num, addr))

    def one(job):
        k, p, r, ops, target, num, addr = job
        files = {"w%d.cfg" % k: cfg(target, p, r, ops, "TRUE" if invalid else "FALSE", addr=addr)}
        n = max(20, num // (3 if invalid else 1))
        res = ctx.tlc("WasmTypingMC", "w%d.cfg" % k, extra_files=files, workers=1, simulate="num=%d" % n, depth=target * 4,
                      seed=ctx.seed * 100 + k, tag="walks:%s/%d/%s:%s->%s%s" % (ops, target, addr, p, r, ":invalid" if invalid else ""),
                      design=True, timeout=2400)
        return res["emitted"]
    with ThreadPoolExecutor(8) as ex:
        return [b for part in ex.map(one, jobs) for b in part]


def modules(bodies, rnd, per=3):
    """Group bodies into modules of a few functions."""
    rnd.shuffle(bodies)
    return [{"bodies": bodies[i:i + per], "seed": rnd.randrange(1 << 30)} for i in range(0, len(bodies), per)]


def distinct(bodies):
    seen, uniq = set(), []
    for b in bodies:
        key = json.dumps(b["code"], sort_keys=True)
        if key not in seen:
            seen.add(key)
            uniq.append(b)
    return uniq


def run(ctx):
    q = ctx.quick
    rnd = random.Random(ctx.seed)
    if ctx.replay_path:
        items = [json.load(open(ctx.replay_path))["replay"]]
    else:
        uniq = distinct([b for b in generate(ctx, q) if b["bad"] == ""])
        if q:        # every edge-of-memory body, a sample of the others
            edge = [b for b in uniq if any(i["a"] == "edge" for i in b["code"])]
            rest = [b for b in uniq if not any(i["a"] == "edge" for i in b["code"])]
            uniq = edge + (rnd.sample(rest, 1800) if len(rest) > 1800 else rest)
        ctx.extra["programs"] = len(uniq)
        items = modules(uniq, rnd) + PROBES
    results = ctx.replay("wexec-diff", items, timeout=3400 if ctx.quick else 9000)
    for it, r in zip(items, results):
        for f in r.get("fails", []):
            ctx.fail(f["key"], f["msg"], replay=it)
    ctx.extra["modules"] = len(items)
    stats = {}
    for r in results:
        for k, v in (r.get("obs") or {}).items():
            stats[k] = stats.get(k, 0) + v
    ctx.extra["outcomes"] = stats
    ctx.evaluations = stats.get("calls", 0)
    for it in items[:: max(1, len(items) // 3)][:2]:
        ctx.sample({"function": [i["op"] for i in it["bodies"][0]["code"]][:60]})
    ctx.assumptions += ["the other engine is the oracle (the property is an agreement statement); NaN payloads are compared as 'both NaN'; calls that "
                        "exhaust the stack on either engine are not compared", "memory.atomic.wait32/64 are not generated (they block); atomics run single-threaded"]
