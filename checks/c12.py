"""C12 Non-semantic configuration does not change guest behaviour - CacheConfig.tla + Isolation.tla scripts."""
import json
import random
import vlib

CC = """SPECIFICATION Spec
CONSTANTS
  MaxRuntimes = %d
  Points <- %s
INVARIANTS %s
%s
CHECK_DEADLOCK FALSE
"""
ISO = """SPECIFICATION Spec
CONSTANTS
  MaxSteps = %d
  MaxInst = 1
  Ops <- AllOps
INVARIANTS Emit
CHECK_DEADLOCK FALSE
"""


def run(ctx):
    q = ctx.quick
    rnd = random.Random(ctx.seed)
    files = {"design.cfg": CC % (2, "OneDim", "KeyCoversBaked", "VIEW DesignView"),
             "g1.cfg": CC % (1, "AllPoints", "Emit", ""),
             "g2.cfg": CC % (2, "OneDim", "Emit", ""),
             "iso.cfg": ISO % (10 if q else 16)}
    d = ctx.tlc("CacheConfig", "design.cfg", extra_files=files, expect_ok=False, tag="design:key-covers-baked-settings")
    if d["violation"]:
        ctx.note("design counterexample (candidate only): the module key does not cover everything a compilation bakes into the "
                 "artifact (" + str(d["violation"]) + "); the runs below decide whether the code exhibits it")
        ctx.extra["design_counterexamples"] = [d["violation"]]
    single = ctx.tlc("CacheConfig", "g1.cfg", extra_files=files, tag="gen:whole-lattice-one-runtime")["emitted"]
    pairs = ctx.tlc("CacheConfig", "g2.cfg", extra_files=files, tag="gen:sharing-orders")["emitted"]
    pairs = [s for s in pairs if len(s["steps"]) == 2 and s["steps"][0]["cache"] == s["steps"][1]["cache"] != "none"]
    scripts = ctx.tlc("IsolationMC", "iso.cfg", extra_files=files, design=False, tag="scripts:lone-instance", workers=1,
                      simulate="num=%d" % (60 if q else 400), depth=20)["emitted"]
    scripts = [s for s in scripts if all(h["op"] not in ("inst", "close") for h in s["hist"])]
    nscripts = 6 if q else 40
    if q:
        single = [s for s in single if s["steps"][0]["cache"] in ("none", "dir")] if False else single
        single = rnd.sample(single, min(len(single), 200))
        # every ordered pair of lattice points sharing a cache is replayed (sharing orders are the point of this part)
    else:
        ctx.exhaustive = True
    items = []
    if ctx.replay_path:
        items = [json.load(open(ctx.replay_path))["replay"]]
    else:
        for k, sc in enumerate(single + pairs):
            shared = len(sc["steps"]) > 1          # a shared cache only matters to the engine that stores compiled code
            items.append({"steps": sc["steps"], "scripts": rnd.sample(scripts, min(nscripts, len(scripts))),
                          "engine": "compiler" if shared or not q else ["interpreter", "compiler"][k % 2]})
        if not q:
            items += [dict(i, engine="interpreter") for i in items]
    results = ctx.replay("run-cacheconf", items, timeout=3400)
    for it, r in zip(items, results):
        for f in r.get("fails", []):
            ctx.fail(f["key"], f["msg"], replay=it)
    ctx.extra["scenarios"] = {"single_runtime_points": len(single), "sharing_pairs": len(pairs), "scripts_per_runtime": nscripts}
    for it in items[:: max(1, len(items) // 3)][:3]:
        ctx.sample({"runtimes": [(s["point"], s["cache"], s["how"]) for s in it["steps"]], "scripts": len(it["scripts"])})
    ctx.assumptions += ["the oracle for guest behaviour is Isolation.tla's lone-instance machine (equal to the bottom of the lattice)",
                        "close-on-context-done is 'never triggered': the per-call context is cancelled only after the call returned"]
