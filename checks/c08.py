"""C08 Values cross the host/guest boundary unchanged - Boundary.tla / BoundaryTrace.tla."""
import json
import os
import re
import vlib

GEN = "SPECIFICATION Spec\nCONSTANTS\n  MaxSmall = %d\n  CliffLens <- %s\n  WideLens <- %s\n  WideTypes <- %s\nINVARIANTS Emit\nCHECK_DEADLOCK FALSE\n"


def run(ctx):
    q = ctx.quick
    r = ctx.tlc("BoundaryMC", "gen.cfg", extra_files={"gen.cfg": GEN % (2 if q else 3, "CLq" if q else "CL", "WLq" if q else "WL", "WTq" if q else "WT")}, workers=1,
                tag="signature-generation")
    sigs = r["emitted"]
    ctx.exhaustive = True
    sp = os.path.join(ctx.work, "sigs.ndjson")
    with open(sp, "w") as fh:
        for s in sigs:
            fh.write(json.dumps(s) + "\n")
    tp = os.path.join(ctx.work, "boundary-trace.ndjson")
    p = ctx.run_driver(["trace-boundary", "-in", sp, "-out", tp, "-rounds", "3" if q else "6"], timeout=3000)
    res = json.loads(p.stdout.splitlines()[-1])
    for f in res.get("fails", []):
        ctx.fail(f["key"], f["msg"])
    info = res["obs"]
    ctx.extra.update(info)
    ctx.traces = info["crossings"]
    ctx.evaluations = info["crossings"]
    # TLC decides every recorded crossing; a rejected one is cut out and validation continues
    lines = open(tp).read().splitlines()
    guard = 0
    pos = 0
    while pos < len(lines) and guard < 60:
        guard += 1
        part = os.path.join(ctx.work, "bt%d.ndjson" % guard)
        open(part, "w").write("\n".join(lines[pos:]) + "\n")
        t = ctx.tlc("BoundaryTrace", "BoundaryTrace.cfg", workers=1, expect_ok=False, design=False, extra_files={"trace.ndjson": part},
                    tag="trace:crossings.%d" % guard, timeout=2400)
        m = re.search(r'<<"HIGHWATER", (\d+), (\d+)>>', t["out"])
        if not m:
            raise vlib.Infra("no verdict from BoundaryTrace:\n" + t["out"][-1500:])
        high, n = int(m.group(1)), int(m.group(2))
        if high == n + 1:
            break
        bad = json.loads(lines[pos + high - 1])
        diffs = [i for i in range(max(len(bad["sent"]), len(bad["seen"])))
                 if i >= len(bad["sent"]) or i >= len(bad["seen"]) or bad["sent"][i] != bad["seen"][i]]
        at = bad["at"].split(" ")
        kind = " ".join(at[:-1])
        where = at[-1].split("/")
        ty = bad["sent"][diffs[0]].split(":")[0] if diffs and diffs[0] < len(bad["sent"]) else "?"
        key = "%s;engine=%s;style=%s;type=%s;pos=%s" % (kind, where[0], where[1] if len(where) > 2 else "-", ty,
                                                       "<8" if diffs and diffs[0] < 8 else ">=8")
        ctx.fail(key, "crossing %s: sent %s, seen %s" % (bad["at"], bad["sent"], bad["seen"]), replay=bad)
        pos += high
    for ln in lines[:: max(1, len(lines) // 3)][:3]:
        ctx.sample(json.loads(ln))
    ctx.assumptions += ["i32/f32 values are compared on their 32 significant bits at the Go side; the guest-side comparison (chk) "
                        "sees what the guest's own instructions see", "funcref parameters are not generated (no Go representation to send)"]
