"""C04 Linked modules share state exactly as the specification says - Link.tla."""
import json
import vlib

CFG = """SPECIFICATION Spec
CONSTANTS
  MaxSteps = %(steps)d
  MaxB = %(maxb)d
  Decls <- %(decls)s
  OpsA <- %(opsa)s
  OpsB <- %(opsb)s
  AMems <- %(am)s
  ATabMax <- %(at)s
  HVals <- %(hv)s
%(body)s
CHECK_DEADLOCK FALSE
"""
INV = "INVARIANTS SizeOK AliveOnlyIfCompatible\nVIEW DesignView"


def cfg(steps, maxb, decls, body, small=False, opsa="AOps", opsb="BOps"):
    sfx = "Q" if small else "All"
    return CFG % dict(steps=steps, maxb=maxb, decls=decls, body=body, opsa=opsa, opsb=opsb, am="AMems" + sfx, at="ATabMax" + sfx, hv="HVals" + sfx)


def run(ctx):
    q = ctx.quick
    if ctx.replay_path:
        rp = json.load(open(ctx.replay_path))["replay"]
        for r in ctx.replay("replay-link", [rp]):
            for f in r.get("fails", []):
                ctx.fail(f["key"], f["msg"], replay=rp)
        return
    files = {"mc.cfg": cfg(3 if q else 4, 2, "AllDecls", INV, small=q),
             "g2.cfg": cfg(2, 1, "AllDecls", "INVARIANTS Emit", small=q),
             "g3.cfg": cfg(3, 1, "SomeDecls", "INVARIANTS Emit"),
             "focus.cfg": cfg(4 if q else 5, 2, "BaseOnly", "INVARIANTS Emit", small=True, opsa="FocusA", opsb="FocusB"),
             "sim.cfg": cfg(7 if q else 10, 2, "AllDecls", "INVARIANTS Emit")}
    ctx.tlc("LinkMC", "mc.cfg", extra_files=files, tag="design", timeout=3000)
    beh = ctx.tlc("LinkMC", "g2.cfg", extra_files=files, design=False, tag="gen:depth2-all-declarations")["emitted"]
    n2 = len(beh)
    foc = ctx.tlc("LinkMC", "focus.cfg", extra_files=files, design=False, tag="gen:table-references-two-consumers",
                  timeout=3000)["emitted"]
    ctx.extra["focus_histories"] = len(foc)
    beh += foc
    if not q:
        g3 = ctx.tlc("LinkMC", "g3.cfg", extra_files=files, design=False, tag="gen:depth3", timeout=3000)["emitted"]
        # 1.2 million histories of depth 3: one fifth per run (the slice rotates with the seed) keeps the replay within its budget
        ctx.extra["depth3_histories"] = {"generated": len(g3), "replayed_slice": "%d of 5" % (ctx.seed % 5)}
        beh += g3[ctx.seed % 5::5]
    beh += ctx.tlc("LinkMC", "sim.cfg", extra_files=files, design=False, tag="sim", workers=1,
                   simulate="num=%d" % (1500 if q else 40000), depth=14, timeout=3000)["emitted"]
    ctx.extra["histories"] = {"exhaustive_depth2": n2, "total": len(beh)}
    ctx.exhaustive = True
    results = ctx.replay("replay-link", beh, timeout=3400 if q else 9000)
    for b, r in zip(beh, results):
        for f in r.get("fails", []):
            ctx.fail(f["key"], f["msg"], replay=b)
    for b in beh[:: max(1, len(beh) // 3)][:3]:
        ctx.sample({"provider": b["a"], "steps": [(s["i"], s["op"], s.get("x"), s.get("y"), s.get("res")) for s in b["hist"]]})
    ctx.assumptions += ["error text is not compared, only accept / reject / trap",
                        "an out-of-bounds ELEMENT segment may be ignored instead of failing the instantiation (documented in "
                        "store.go); a table import minimum above the exporter's declared minimum may be rejected"]
