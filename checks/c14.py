"""C14 Memory size, growth and the host memory API follow the limits exactly - Memory.tla."""
import json
import vlib

CFG = """SPECIFICATION Spec
CONSTANTS
  TopU = %(topu)d
  MaxOps = %(ops)d
  Mins <- %(mins)s
  Maxs <- %(maxs)s
  Limits <- %(limits)s
  Ops <- %(opset)s
%(body)s
CHECK_DEADLOCK FALSE
"""
INV = "INVARIANTS SizeWithinBounds ZeroFill\nPROPERTIES GrowMonotone ContentsPreserved\nVIEW DesignView"

SCALES = {  # name -> (TopU, pages per unit, Mins, Maxs, Limits)
    "x1": (65536, 1, "Mins1", "Maxs1", "Limits1"),
    "x16384": (4, 16384, "Mins4", "Maxs4", "Limits4"),
}


def cfg(scale, ops, opset, body):
    topu, _, mins, maxs, limits = SCALES[scale]
    return CFG % dict(topu=topu, ops=ops, mins=mins, maxs=maxs, limits=limits, opset=opset, body=body)


def run(ctx):
    q = ctx.quick
    if ctx.replay_path:
        rp = json.load(open(ctx.replay_path))["replay"]
        for r in ctx.replay("replay-memory", [rp]):
            for f in r.get("fails", []):
                ctx.fail(f["key"], f["msg"], replay=rp)
        return
    beh = []
    for scale in SCALES:
        topu, ppu = SCALES[scale][0], SCALES[scale][1]
        files = {"mc.cfg": cfg(scale, 3 if q else 4, "AllOps", INV),
                 "g1.cfg": cfg(scale, 1, "AllOps", "INVARIANTS Emit"),
                 "g2.cfg": cfg(scale, 2 if q else 3, "CoreOps", "INVARIANTS Emit"),
                 "sim.cfg": cfg(scale, 6 if q else 9, "AllOps", "INVARIANTS Emit")}
        ctx.tlc("MemoryMC", "mc.cfg", extra_files=files, tag="design:" + scale)
        got = []
        got += ctx.tlc("MemoryMC", "g1.cfg", extra_files=files, design=False, tag="gen1:" + scale)["emitted"]
        g2 = ctx.tlc("MemoryMC", "g2.cfg", extra_files=files, design=False, tag="gen2:" + scale)["emitted"]
        if not q:       # all triples of core operations for every declaration: about a million per scale; one sixth per run (by seed)
            ctx.extra.setdefault("triples", {})[scale] = {"generated": len(g2), "replayed_slice": "%d of 6" % (ctx.seed % 6)}
            g2 = g2[ctx.seed % 6::6]
        got += g2
        got += ctx.tlc("MemoryMC", "sim.cfg", extra_files=files, design=False, tag="sim:" + scale, workers=1,
                       simulate="num=%d" % (1500 if q else 10000), depth=12)["emitted"]
        for b in got:
            b["scale"], b["topu"] = ppu, topu
        ctx.extra.setdefault("behaviours", {})[scale] = len(got)
        beh += got
    # behaviours that reach large sizes are expensive with the copying default allocator: all of them run with
    # the guard-page allocator, a seeded sample also with the default one
    import random
    rnd = random.Random(ctx.seed)
    heavy = [b for b in beh if any(s["pages"] * b["scale"] > 2048 for s in b["hist"]) or
             (b["cfg"]["capFromMax"] and b["accepted"] and (b["cfg"]["max"] < 0 or b["cfg"]["max"] * b["scale"] > 2048)
              and min(b["cfg"]["limit"], b["topu"]) * b["scale"] > 2048)]
    heavy_ids = set(id(b) for b in heavy)
    zero_limit = [b for b in beh if b["cfg"]["limit"] == 0 and id(b) not in heavy_ids]
    for b in zero_limit:        # nothing may be allocated under a limit of zero pages: if something is, it must not be 4 GiB of
        b["heavy"] = True       # real memory (guard-page allocator only); always replayed
    for b in heavy:
        b["heavy"] = True
    nheavy = 150 if q else 3000
    keep_heavy = set(id(b) for b in rnd.sample(heavy, min(nheavy, len(heavy))))
    # the boundary at 4 GiB is enumerated, not sampled: every single edge access on a memory that starts at the top size
    for b in heavy:
        if len(b["hist"]) == 1 and b["hist"][0]["op"]["op"] in ("hedge", "gedge") and b["hist"][0]["pages"] * b["scale"] == 65536:
            keep_heavy.add(id(b))
    for b in rnd.sample(heavy, min(len(heavy), 12 if q else 100)):
        if id(b) in keep_heavy:
            b["heavydef"] = True
    total = len(beh)
    keep_heavy |= set(id(b) for b in zero_limit)
    beh = [b for b in beh if not b.get("heavy") or id(b) in keep_heavy]
    ctx.extra["heavy_behaviours"] = {"enumerated": len(heavy), "replayed": len([b for b in beh if b.get("heavy")])}
    ctx.extra["enumerated_total"] = total
    ctx.exhaustive = len(heavy) <= nheavy
    results = ctx.replay("replay-memory", beh, timeout=3400 if q else 9000)
    for b, r in zip(beh, results):
        for f in r.get("fails", []):
            ctx.fail(f["key"], f["msg"], replay=b)
    # concurrent growth of a shared memory must be linearizable w.r.t. the sequential Grow of the specification
    p = ctx.run_driver(["memory-concurrent", "-rounds", "400" if q else "5000"], timeout=1500)
    for line in p.stdout.splitlines():
        r = json.loads(line)
        ctx.evaluations += 1
        for f in r.get("fails", []):
            ctx.fail(f["key"], f["msg"])
    for b in beh[:: max(1, len(beh) // 4)][:4]:
        ctx.sample({"cfg": b["cfg"], "scale": b["scale"], "ops": [s["op"] for s in b["hist"]]})
    ctx.assumptions += ["every behaviour runs on both engines, with the default allocator and a guard-page allocator",
                        "sizes are multiples of the unit; sub-unit sizes are covered only through +1-page growth requests"]
