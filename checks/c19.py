"""C19 Configuration values are immutable - Config.tla, exhaustive derivation trees replayed on the real constructors."""
import json
import vlib

CFG_TMPL = """SPECIFICATION Spec
CONSTANTS
  Depth = %(depth)d
  Roots <- %(roots)s
  Methods <- %(methods)s
%(body)s
CHECK_DEADLOCK FALSE
"""

MC_BODY = "INVARIANTS EnvKeysUnique MountsUnique\nPROPERTIES Frozen\nVIEW NodesView"
GEN_BODY = "INVARIANTS Emit"


def cfg(depth, roots, methods, gen):
    return CFG_TMPL % dict(depth=depth, roots=roots, methods=methods, body=GEN_BODY if gen else MC_BODY)


def run(ctx):
    quick = ctx.quick
    # (name, roots, methods, MC depth, exhaustive Gen depth, simulate (num, depth))
    fams = [
        ("env", "RootsMc", "MethodsEnv", 4 if quick else 5, 3 if quick else 4, (1500 if quick else 20000, 8)),
        ("mod", "RootsFs", "MethodsMod", 3, 2 if quick else 3, (1500 if quick else 20000, 7)),
        ("fs", "RootsFs", "MethodsFs", 3 if quick else 4, 2 if quick else 3, (1000 if quick else 10000, 7)),
        ("rc", "RootsRc", "MethodsRc", 3 if quick else 4, 2 if quick else 3, (500 if quick else 5000, 6)),
        ("sock", "RootsAll", "MethodsSock", 3 if quick else 4, 3, (300 if quick else 3000, 6)),
        ("fresh-env", "RootsMc", "MethodsFreshEnv", 5, 6 if quick else 7, (50, 7)),
        ("fresh-mount", "RootsFsOnly", "MethodsFreshMount", 5, 6 if quick else 7, (50, 7)),
        ("all", "RootsAll", "MethodsAll", 2, 2, (2000 if quick else 30000, 9)),
    ]
    if ctx.replay_path:
        rp = json.load(open(ctx.replay_path))
        beh = [rp["replay"]]
        check(ctx, beh, "replay")
        return
    behaviours = []
    for name, roots, methods, mcd, gend, (snum, sdepth) in fams:
        files = {"c_mc.cfg": cfg(mcd, roots, methods, False), "c_gen.cfg": cfg(gend, roots, methods, True),
                 "c_sim.cfg": cfg(sdepth, roots, methods, True)}
        ctx.tlc("ConfigMC", "c_mc.cfg", extra_files=files, tag="design:" + name)
        g = ctx.tlc("ConfigMC", "c_gen.cfg", extra_files=files, tag="gen:" + name, design=False)
        s = ctx.tlc("ConfigMC", "c_sim.cfg", extra_files=files, tag="sim:" + name, design=False, workers=1,
                    simulate="num=%d" % snum, depth=sdepth + 2)
        ctx.extra.setdefault("histories", {})[name] = {"exhaustive_depth": gend, "exhaustive": len(g["emitted"]),
                                                       "simulated": len(s["emitted"]), "sim_depth": sdepth}
        behaviours += g["emitted"] + s["emitted"]
    ctx.exhaustive = True
    check(ctx, behaviours, "enumeration")
    # concurrent derivations from one parent under the race detector
    p = ctx.run_driver(["concurrent-config"], race=True, check=False)
    if "DATA RACE" in p.stderr:
        ctx.fail("concurrent#race", "data race while deriving from a shared configuration: " + p.stderr[:1500])
    elif p.returncode != 0:
        raise vlib.Infra("concurrent-config failed: " + p.stderr[-2000:])
    else:
        for line in p.stdout.splitlines():
            r = json.loads(line)
            for f in r.get("fails", []):
                ctx.fail(f["key"], f["msg"])
        ctx.evaluations += 1
    ctx.assumptions += [
        "projection of concrete structs via reflection on the field names of moduleConfig/fsConfig/runtimeConfig",
        "identity tokens (writers, clocks, caches) compared by pointer within one process",
    ]


def check(ctx, behaviours, what):
    results = ctx.replay("replay-config", behaviours)
    nontrivial = 0
    for b, r in zip(behaviours, results):
        if len({s["parent"] for s in b["hist"]}) > 1:
            nontrivial += 1
        for f in r.get("fails", []):
            ctx.fail(f["key"], f["msg"], replay=b)
    ctx.extra["branching_histories"] = nontrivial
    for b in behaviours[:: max(1, len(behaviours) // 4)][:4]:
        ctx.sample({"hist": b["hist"], "final_nodes": len(b["nodes"])})
