"""Table of claimed checks -> MANIFEST.json (bin/mkmanifest). One entry per claimed property."""

CHECKS = {
    "C19": dict(
        technique="TLA+ value-semantic model (Config.tla), TLC-enumerated derivation trees replayed on the real With... constructors; every node compared after every step",
        text="TLC exhaustively checks Config.tla (Frozen, key/mount uniqueness) and enumerates every derivation tree up to a depth plus seeded deeper walks; each tree is replayed against the real constructors and after every step the abstract projection and the concrete field-by-field snapshot of every node ever created is compared with the model, so aliasing between a receiver, its siblings and its descendants is visible wherever it happens; instantiation with a node is a step too; concurrent derivations run under the race detector.",
        design_ref="§4 C19",
        note="Trusts the reflection-based projection of moduleConfig/fsConfig/runtimeConfig fields and pointer identity of tokens; depth of exhaustive trees is bounded (3-4), deeper trees are sampled.",
    ),
}

CHECKS["C10"] = dict(
    technique="TLA+ registry specification (Registry.tla) model-checked over all interleavings; TLC-enumerated sequential histories replayed through the public API; concurrent executions recorded by hooks under Store.mux and validated by TLC (RegistryTrace.tla); gate hook for a targeted schedule",
    text="TLC explores every interleaving of 3 threads x 2 operations (and 2 x 3) of instantiate/close/lookup/runtime-close/compile at the grain of the code's critical sections and checks NameUnique, OwnerFindable, LookupOnlyOpen, AfterRuntimeClose, AtMostOnce/ExactlyOnce; the same specification generates all sequential histories of 4-5 operations which are replayed against the real runtime with results and the whole registry state compared after each step; randomized concurrent runs of the real runtime are logged by hooks at the linearization points and TLC decides whether each log is a behaviour of the specification, evaluating every invariant at every step; the schedule 'Runtime.Close between registration and the rest of InstantiateModule' is forced deterministically.",
    design_ref="§4 C10",
    note="Assumes hooks H1 sit inside the critical sections they report (checked by dropping a hook: trace rejected); lock-free steps are inferred by TLC, not logged; bounded thread/operation counts in the exhaustive part; concurrent runs are sampled schedules.",
)

CHECKS["C13"] = dict(
    technique="TLA+ model of the cache directory, writers, crashes and readers (FileCache.tla) checked by TLC; its crash and two-writer histories replayed with real processes killed at hook points H2 / goroutines gated at the same points; TLC validation of the recorded step order of a real Add",
    text="TLC checks FinalIsComplete / no-partial-hit / distinct temp names for all interleavings of 2-3 writers with crashes at every step, stale entries and readers; every single-writer crash history is replayed with a real process terminated at that hook point and a fresh process reading the directory afterwards; every two-writer interleaving (sampled in quick, all 12k in thorough) is enforced step by step with blocking hooks; every truncation length of real entries and header/version edits must be reported or discarded, never executed; entries must be byte-identical across fresh processes; the recorded order of the steps of a real Add must be a behaviour of the specification.",
    design_ref="§4 C13",
    note="Process death only (not power loss); amd64 compiler engine; modules are three small generated ones; hooks H2 mark the steps of fileCache.Add.",
)

CHECKS["C14"] = dict(
    technique="TLA+ model of memory limits, growth and views (Memory.tla) checked by TLC; TLC-enumerated and simulated behaviours replayed on both engines x two allocators x two scale maps (1 unit = 1 page; 4 units = 4 GiB) with every result and all size views compared after each step",
    text="TLC checks SizeWithinBounds/GrowMonotone/ZeroFill/ContentsPreserved over all declarations (min, max, limit, capacity-from-max) and enumerates every single operation and every pair/triple of core operations for every declaration, plus seeded longer walks; each behaviour is executed against real memories on the interpreter and the compiler, with the default allocator and a guard-page allocator, at page scale and at 4 GiB scale (real 4 GiB reservations): acceptance of the declaration, grow results from guest / host / through an importing instance, memory.size vs host pages vs Size(), tag bytes read back through both views, and host/guest accesses at the edges (size-k, size, 2^32-k) for every accessor; concurrent growth of a shared memory is checked for linearizability against the sequential Grow.",
    design_ref="§4 C14",
    note="Sizes are multiples of the unit except for +1-page requests; multi-GiB behaviours are sampled for the copying default allocator (all run with the guard allocator); amd64 only.",
)

CHECKS["C02"] = dict(
    technique="TLA+ generator of structured access placements with the reference bounds semantics evaluated in TLC (MemAccess.tla); every program x input vector executed on both engines under guard pages and compared with the TLC-computed outcome",
    text="TLC builds every well-nested function body of up to 4 tokens (accesses, calls, calls that grow and move the memory, memory.grow with positive and negative deltas, if/else joins, loops, run-time swaps of the address locals) plus seeded longer walks over a wide access alphabet (widths 1-16, static offsets up to 2^32-1), and evaluates the WebAssembly reference semantics on each for 28-56 input vectors (addresses around the size, 2^31, 2^32-1; both branch conditions; two initial sizes); the driver assembles each program with parameter and constant address provenance, runs it on the interpreter and the compiler with the default (moving) allocator and a PROT_NONE guard allocator, at page scale and GiB scale (memories over 2 GiB up to 4 GiB), in supervised child processes, and compares trap/no trap, loaded values, final size and memory contents with TLC's outcome; a faulting child is attributed to its program.",
    design_ref="§4 C02",
    note="Accesses outside the memory are seen through guard pages, canary regions and full comparison of small memories; atomics and bulk-memory instructions are not in the alphabet yet; amd64 only.",
)

CHECKS["C04"] = dict(
    technique="TLA+ model of linking (Link.tla: ImportMatch, shared objects, captured values, ordered segments) checked by TLC; enumerated and simulated histories over provider/consumer graphs replayed on both engines with the whole shared state observed through every instance after each step",
    text="TLC enumerates every consumer declaration of a one-dimension-at-a-time lattice (memory and table limits against the CURRENT size, element type, global type and mutability, function signature, constant expressions reading a mutable global, in- and out-of-bounds data/element segments in both orders, ok/trapping/writing start functions) crossed with provider configurations and preceding/following operations of either instance, a focused family with two consumers instantiated from one compiled module exchanging function references through the shared table (call_indirect and return_call_indirect), and seeded longer walks; the driver builds the real modules, checks accept/reject against ImportMatch (one-directional where the property says 'only if'), and after every step reads the global, memory size and cells, table size and every slot's call target through each live instance and the host API and compares them with the model.",
    design_ref="§4 C04",
    note="Error text is not compared; latitude for documented wazero behaviour (out-of-bounds element segment ignored; table import minimum compared with the declared minimum) is explicit in the spec (may-field). Graphs have one provider and up to two consumers.",
)

CHECKS["C11"] = dict(
    technique="TLA+ model of N independent lone-instance machines (Isolation.tla) checked by TLC (NonInterference, FreshStart); enumerated and simulated interleavings incl. close and re-instantiation replayed on real instances of one compiled module on both engines, every instance's full state compared after each step",
    text="The specification is N copies of the lone-instance machine (memory cells in two pages, growth, global, table slots, funcref global, passive data/element segments and their drop flags, close, fresh instantiation); TLC checks that a step of one instance never changes another and enumerates every interleaving of 3 steps over 2-3 instances plus seeded walks of 8-12 steps; the driver replays them on instances of ONE compiled module under three settings (one runtime; capacity-from-max, which exposes recycled or pre-allocated buffers; two runtimes sharing a compilation cache) on both engines and after every step compares each live instance's global, memory size and cells, and every table slot's call target with what that instance would have if it were alone.",
    design_ref="§4 C11",
    note="WASI descriptor tables and standard streams are not part of this model (they are exercised by the WASI checks); instances come from one module shape.",
)

CHECKS["C06"] = dict(
    technique="TLA+ model of call trees with failures (Calls.tla: guest -> host -> guest nesting, traps, stack overflow, host panics, exits, scripted host function) checked by TLC; enumerated and simulated call histories replayed on both engines in supervised child processes; result kind/value, persisted effects and closed flags of every instance compared after each call",
    text="TLC enumerates all pairs of top-level calls (and triples over a core set) drawn from plain operations, five trap kinds, finite and unbounded recursion with three frame sizes, calls into another instance's function, and host calls whose script returns, panics, exits the module, or calls back into a guest function (which may itself trap, exit or go through the host again) and then propagates or swallows the failure; plus stack overflow followed by reuse of the SAME function object, and seeded longer histories. The driver executes each history on the interpreter and the compiler (same and fresh function objects), in child processes so that a crash is attributed to its history, and after every call compares the returned kind (ok value, trap kind, stack overflow, panic value, exit code), the effect counters of both instances and their closed flags with the model.",
    design_ref="§4 C06",
    note="Error kinds recognised by message text; overflow depth not compared; the model follows wazero in running a function of an already-exited module and reporting the exit error when it returns.",
)
CHECKS["C20"] = dict(
    technique="same TLA+ call-tree model (Calls.tla) predicting the listener event stream (before/after/abort with parameter, result and call chain); streams recorded from real listeners on both engines compared event by event; second-compilation histories with another listener factory",
    text="For every call history of Calls.tla TLC also computes the events each function entry, return and unwinding must produce (properly bracketed - checked as an invariant), the first parameter / result each event carries and the call chain the stack iterator must list at each before-event. The driver installs a recording FunctionListenerFactory (all functions, and a subset) on both engines and compares count, order, function, carried value and chain of every event, and that results are those of the run without listeners (C06 histories). History before the call is part of the behaviour: the same binaries compiled first with another factory (same listened functions; subsets differing at a low / high function index) in the same runtime.",
    design_ref="§4 C20",
    note="Events of calls ending in stack overflow are not compared; chains are not compared for calls into an instance that was closed earlier; tail calls are not in the model.",
)

CHECKS["C16"] = dict(
    technique="TLA+ POSIX-style reference model of names, inodes, descriptors and offsets (WasiFS.tla) checked by TLC; enumerated and simulated call histories replayed through a proxy guest on a real mounted directory (errno in allowed set, outputs, host tree, descriptor table and offsets compared after each call); fd_readdir traces validated by TLC against DirRead.tla",
    text="WasiFS.tla models path_open with every oflag/fdflag/rights combination of interest, fd_close, fd_renumber (onto itself a no-op, over an open descriptor, onto a free one), fd_read/write/pread/pwrite, fd_seek/tell, size and truncation, timestamps, append flag changes, unlink/rename/mkdir/rmdir with open-then-unlinked files kept alive through inodes, lowest-free descriptor allocation; TLC checks its invariants, enumerates all pairs of calls, all triples over a core alphabet and seeded walks of 8-14 calls; each history is replayed on both engines through the real WASI implementation over a temp directory and after every call errno (against the model's allowed set), outputs, the host tree with contents, fd_fdstat_get of every descriptor and fd_tell are compared. For fd_readdir the driver records calls over directory sizes 0-6 x 12 buffer lengths x three mount kinds with rewinds and re-reads from earlier cookies; TLC decides whether every call returns exactly the slice of the directory order the reference semantics prescribes (exactly-once, truncated-not-skipped).",
    design_ref="§4 C16, Appendix B",
    note="Errno latitude is explicit (sets); steps POSIX leaves unspecified end a history; flat tree with three names; Linux host; directory order taken from a first complete pass.",
)
CHECKS["C17"] = dict(
    technique="WasiFS.tla with ReadOnly = TRUE model-checked (TreeFrozen); the writable model's enumerated and simulated histories (every mutating call attempted) replayed on read-only mounts with a byte/mtime-exact host snapshot compared after every call",
    text="TLC checks that the read-only variant of WasiFS.tla never changes its tree. The histories of the WRITABLE model - all pairs of calls, triples over a core alphabet, seeded longer walks, including path_open with every oflag/fdflag/rights combination, writes, truncation, timestamp changes through descriptors (also directories opened with O_DIRECTORY) and paths, append-flag changes, unlink/rename/mkdir/rmdir - are replayed through the proxy guest against WithReadOnlyDirMount and WithFSMount(os.DirFS) mounts on both engines; after every call the host directory (names, types, sizes, SHA-256, mtimes) must equal its initial snapshot, and afterwards open+read of a file must still return the original data.",
    design_ref="§4 C17",
    note="Whether a mutating call fails or succeeds without effect is not prescribed and not compared; fstest.MapFS mounts are not covered (nothing on the host to change).",
)

CHECKS["C18"] = dict(
    technique="TLA+ model of the default sys context (SysDefaults.tla: per-instance fake clocks indexed by reading count, fixed random stream by offset, empty args/environ/stdin, discarded output, no preopens); TLC-generated guest programs executed through the proxy guest in separate processes with different host environments; every observation compared with the model and across processes/engines/instances",
    text="TLC enumerates all pairs of WASI calls and seeded programs of 14-40 calls (clocks incl. invalid ids, resolutions, random_get, args/environ, stdin, stdout/stderr, prestat/path_open/readdir/sock_accept on descriptor 3+, fdstat, poll_oneoff with clock subscriptions, sched_yield) and predicts each observation: the k-th reading of each fake clock OF THAT INSTANCE, the random stream offset, EOF, EBADF, zero sizes. Each program runs in three processes started at different times with different TZ (a generated zone file 9 h east), environment, arguments, stdin content and working directory, on both engines, in two instances created from ONE ModuleConfig value; errno and values are compared with the model, random bytes by equality of the stream across all runs and instances, planted host secrets must not appear, a clock-subscription poll must not sleep.",
    design_ref="§4 C18",
    note="Clock values are reduced to ms since the fake epoch by the driver; the random stream is opaque to the model; Linux only.",
)

CHECKS["C15"] = dict(
    technique="TLA+ role table of all 45 WASI functions (WasiSig.tla) from which TLC enumerates argument tuples (all-valid vector, every single and every pair of deviations to role-specific boundary classes); each tuple executed through the proxy guest on both engines in supervised child processes and checked against the four post-conditions",
    text="WasiSig.tla gives every parameter of every wasi_snapshot_preview1 function a role (descriptor, input / output buffer with its length parameter, result struct, iovec array, subscription and event arrays, count, length, 64-bit number, flags) and TLC generates about 9300 argument tuples with boundary values per role (pointers at 0 / size-4 / size-1 / size / 2^31 / 2^32-1; lengths and counts up to 2^28, 2^29, 2^31-1, 2^32-1 so that products overflow 32 bits; descriptors -1, std streams, preopen, file, directory, closed, 2^31-1). Each call runs on a fresh guest with a known descriptor table and a patterned 64 KiB memory; checked: the call returns an errno or a guest trap (never a Go runtime error, never hangs), every byte outside the regions the role table designates for output is unchanged, descriptors the call does not name keep their type, host allocation during the call stays below 32 MiB. The table's arity is compared with the implementation.",
    design_ref="§4 C15",
    note="Pairs, not the full product, of deviations; which errno is returned is C16's business; allocation measured with runtime.MemStats in a process that runs one call at a time.",
)

CHECKS["C08"] = dict(
    technique="TLA+ generator of host/guest signatures and the crossing law (Boundary.tla); crossings recorded at the Go caller, inside host functions of five definition styles and inside the guest, validated by TLC against BoundaryTrace.tla",
    text="TLC generates every signature with up to 2-3 parameters and up to 2 results over {i32,i64,f32,f64,externref} and cliff families (6-17 homogeneous and alternating parameters, 3-10 results, six i32 followed by 1-4 wide values) that cross the 7th integer / 8th float register and stack alignment; for each the driver builds a guest that forwards its parameters to an imported host function and returns its results, a pass-through export and an export that compares the host's results inside the guest; host functions are defined by reflection (without / with context / with module), api.GoFunction and api.GoModuleFunction, exports are called through Call and CallWithStack, and the host function calls back into the guest; value pools include negative i32, all-high-bit i64, quiet and signaling NaNs with payloads, -0 and 48-bit externrefs. Every crossing (Go->guest->host parameters, host->guest->Go results, callback, Go->guest->Go, guest-side view) is logged with sent and seen tokens and TLC decides each one.",
    design_ref="§4 C08",
    note="i32/f32 compared on 32 significant bits at the Go side; funcref values are not generated; amd64 compiler.",
)

CHECKS["C07"] = dict(
    technique="TLA+ model of guest control/call graphs with check placement rules (Termination.tla); TLC liveness (Stops under weak fairness) per cycle shape under the demanded rule and under the rules the code uses; every shape assembled from the specification's program and run on both engines x six triggers in supervised children",
    text="Termination.tla gives a catalogue of every way to form a cycle (loop, nested loops, loop with calls, direct / mutual / indirect recursion, return_call / return_call_indirect / mutual tail-call cycles, a loop inside a host callback, a loop in an imported function, a loop two imports deep) as node programs and a semantics with frames, a ceiling, cancellation and parametric check placement (at loop back edges, before tail calls) and polled module (entry / caller). TLC proves Stops for every shape under the demanded rule and produces lassos under the as-coded rules (candidates only). The driver assembles the specification's programs to wasm (two instances where the shape needs them) and runs each on the interpreter and the compiler with WithCloseOnContextDone under six triggers (deadline, cancel from another goroutine, already-cancelled context, Module.CloseWithExitCode from another goroutine, cancel with a custom cause, deadline with a custom cause); a child that must be killed after 8 s is the violation; otherwise the error must be the exit error with the cause's code (stack overflow accepted for frame-pushing cycles) and the module closed.",
    design_ref="§4 C07",
    note="Timing: 8 s bound vs tens of ms for conforming runs; shapes come from a catalogue, not from arbitrary programs.",
)

CHECKS["C12"] = dict(
    technique="TLA+ model of the option lattice and of cache keys vs. baked settings (CacheConfig.tla) checked by TLC; TLC-enumerated lattice points and cache-sharing orders, each runtime executing TLC-generated lone-instance histories (Isolation.tla) whose predicted results and state must hold at every point",
    text="CacheConfig.tla enumerates the lattice of options documented as non-semantic (no cache / in-memory / directory cold or warm, capacity-from-max, custom allocator, debug info, custom sections, listener factory none / recording / returning nil, close-on-context-done with contexts cancelled only after calls return) and all ordered pairs of one-dimension points sharing an in-memory or on-disk cache, and checks as a design invariant that the module key covers every setting a compilation bakes into its artifact (a violation is reported as a design counterexample, the runs decide). For every scenario the driver builds the real runtimes in that order in a supervised child, compiles the universal guest, and runs lone-instance histories generated from Isolation.tla (globals, memory incl. growth to the limit, table, funcref global, passive data/element segments, traps) comparing every result and the complete instance state with the model - which is also the behaviour at the bottom of the lattice.",
    design_ref="§4 C12",
    note="Quick tier samples 200 lattice points and 120 sharing pairs; warm directory caches are warmed by an earlier runtime of the same process.",
)

CHECKS["C09"] = dict(
    technique="TLA+ model of the keeps-alive graph, close, drop, collection and calls (Lifecycle.tla) checked by TLC (SafeCall under the demanded edges; counterexample under the edges the code creates); enumerated histories replayed in supervised children next to a twin runtime in which nothing is closed",
    text="Lifecycle.tla has a provider A with an exported table, two importers B and C, an unrelated instance D, function references put into the shared table by their owners and into private tables through the host (invisible to the collector), Module.Close, CompiledModule.Close with live instances, dropping host references and GC that unmaps the code of closed unreachable instances. TLC proves SafeCall when slots keep owners alive and finds the counterexample under the implementation's edges (candidate). All histories of 5 steps ending in a call after a close (sampled in quick), the model-unsafe 6-step ones and a focused 8-step family (an importer leaves a reference in the shared table, is closed, compile-closed and dropped, another importer arrives, collection, a live instance calls) are replayed on both engines, with and without function listeners, each in its own child process with forced collections and heap reuse; every call of a live instance must return what the twin returns or an ordinary error, and the process must survive.",
    design_ref="§4 C09",
    note="A dangling reference that happens to keep working is not visible; GC is forced, not exhaustive; Runtime.Close / cache close are not in the action alphabet yet.",
)

NOT_YET = "check not built yet in this round (work in progress; see DESIGN.md §4)"
