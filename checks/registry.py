"""Table of claimed checks -> MANIFEST.json (bin/mkmanifest). One entry per claimed property."""

CHECKS = {
    "C19": dict(
        technique="TLA+ value-semantic model (Config.tla), TLC-enumerated derivation trees replayed on the real With... constructors; every node compared after every step",
        text="TLC exhaustively checks Config.tla (Frozen, key/mount uniqueness) and enumerates every derivation tree up to a depth plus seeded deeper walks; each tree is replayed against the real constructors and after every step the abstract projection and the concrete field-by-field snapshot of every node ever created is compared with the model, so aliasing between a receiver, its siblings and its descendants is visible wherever it happens; instantiation with a node is a step too; concurrent derivations run under the race detector.",
        design_ref="§4 C19",
        note="Trusts the reflection-based projection of moduleConfig/fsConfig/runtimeConfig fields and pointer identity of tokens; depth of exhaustive trees is bounded (3-4), deeper trees are sampled.",
    ),
}

NOT_YET = "check not built yet in this round (work in progress; see DESIGN.md §4)"
